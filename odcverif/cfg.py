"""Structured control-flow analysis over the statement tree.

odc-geo has no goto-like flow, so a syntax-directed abstract interpreter is a complete CFG
walk: if / for / while / try / with / match / return / raise / yield / assert / break / continue.

``Flow`` propagates a set of *facts* (any hashables) along every path of one function:

* mode "must": join = intersection  (a fact at a point holds on *every* path reaching it)
* mode "may":  join = union         (reaching definitions)

Client hooks
  transfer(node, facts, part) -> facts   for simple statements (part="stmt") and for the
                                         evaluated header of compound ones
                                         (part in "test" | "iter" | "items" | "subject")
  branch(test, polarity, facts, via) -> facts    entering the true/false side of a condition
                                         (via in "if" | "while" | "assert" | "ifexp")

Results
  .at[id(stmt)]   facts on entry to each statement (joined over all visits)
  .exits          list of Exit(kind, node, facts) with kind in return|yield|fall|raise
"""
from __future__ import annotations

import ast
from dataclasses import dataclass
from typing import Callable, Dict, FrozenSet, Hashable, List, Optional, Tuple

Facts = Optional[FrozenSet[Hashable]]  # None = unreachable


@dataclass
class Exit:
    kind: str  # return | yield | fall | raise
    node: Optional[ast.AST]
    facts: FrozenSet[Hashable]

    @property
    def line(self) -> int:
        return getattr(self.node, "lineno", 0) if self.node is not None else 0


def _ident(node, facts, part):
    return facts


def _ident_branch(test, polarity, facts, via):
    return facts


def is_const_true(e: ast.AST) -> bool:
    return isinstance(e, ast.Constant) and bool(e.value) is True


def expr_yields(node: ast.AST) -> bool:
    """Does this statement contain a yield in expression position (not in nested defs)?"""
    todo = [node]
    while todo:
        n = todo.pop()
        if isinstance(n, (ast.Yield, ast.YieldFrom)):
            return True
        for ch in ast.iter_child_nodes(n):
            if isinstance(ch, (ast.FunctionDef, ast.AsyncFunctionDef, ast.Lambda, ast.ClassDef)):
                continue
            todo.append(ch)
    return False


class _Loop:
    def __init__(self):
        self.breaks: List[Facts] = []
        self.continues: List[Facts] = []


class Flow:
    def __init__(
        self,
        body: List[ast.stmt],
        transfer: Callable = _ident,
        branch: Callable = _ident_branch,
        mode: str = "must",
        entry: FrozenSet[Hashable] = frozenset(),
        loop_exit: Optional[Callable] = None,
    ):
        assert mode in ("must", "may")
        self.loop_exit = loop_exit
        self.body = body
        self.transfer = transfer
        self.branch = branch
        self.mode = mode
        self.entry = entry
        self.at: Dict[int, Facts] = {}
        self.after: Dict[int, Facts] = {}
        self.exits: List[Exit] = []
        self._exit_keys: Dict[Tuple[str, int], int] = {}
        self._loops: List[_Loop] = []
        self._try_depth_facts: List[List[Facts]] = []
        self._ran = False

    # -- lattice -----------------------------------------------------------------------------
    def join(self, a: Facts, b: Facts) -> Facts:
        if a is None:
            return b
        if b is None:
            return a
        return (a & b) if self.mode == "must" else (a | b)

    def join_all(self, xs: List[Facts]) -> Facts:
        r: Facts = None
        for x in xs:
            r = self.join(r, x)
        return r

    # -- driver ------------------------------------------------------------------------------
    def run(self) -> "Flow":
        if self._ran:
            return self
        self._ran = True
        out = self._block(self.body, self.entry)
        if out is not None:
            self._exit("fall", None, out)
        return self

    def _exit(self, kind: str, node: Optional[ast.AST], facts: FrozenSet[Hashable]) -> None:
        key = (kind, id(node))
        if key in self._exit_keys:
            ex = self.exits[self._exit_keys[key]]
            j = self.join(ex.facts, facts)
            assert j is not None
            ex.facts = j
        else:
            self._exit_keys[key] = len(self.exits)
            self.exits.append(Exit(kind, node, facts))

    def _note(self, st: ast.stmt, facts: Facts) -> None:
        k = id(st)
        if k in self.at:
            self.at[k] = self.join(self.at[k], facts)
        else:
            self.at[k] = facts
        for rec in self._try_depth_facts:
            rec.append(facts)

    def _block(self, stmts: List[ast.stmt], facts: Facts) -> Facts:
        for st in stmts:
            if facts is None:
                # unreachable code: still note it so queries do not crash
                self.at.setdefault(id(st), None)
                continue
            facts = self._stmt(st, facts)
        return facts

    def _stmt(self, st: ast.stmt, facts: FrozenSet[Hashable]) -> Facts:
        self._note(st, facts)
        out = self._stmt_inner(st, facts)
        k = id(st)
        self.after[k] = self.join(self.after.get(k), out) if k in self.after else out
        return out

    def _stmt_inner(self, st: ast.stmt, facts: FrozenSet[Hashable]) -> Facts:
        tr = self.transfer
        if isinstance(st, ast.Return):
            f = tr(st, facts, "stmt")
            self._exit("return", st, f)
            return None
        if isinstance(st, ast.Raise):
            f = tr(st, facts, "stmt")
            self._exit("raise", st, f)
            return None
        if isinstance(st, ast.Break):
            if self._loops:
                self._loops[-1].breaks.append(facts)
            return None
        if isinstance(st, ast.Continue):
            if self._loops:
                self._loops[-1].continues.append(facts)
            return None
        if isinstance(st, ast.If):
            f = tr(st, facts, "test")
            t_in = self.branch(st.test, True, f, "if")
            f_in = self.branch(st.test, False, f, "if")
            t_out = self._block(st.body, t_in)
            f_out = self._block(st.orelse, f_in) if st.orelse else f_in
            return self.join(t_out, f_out)
        if isinstance(st, (ast.For, ast.AsyncFor)):
            return self._loop(st, facts, is_for=True)
        if isinstance(st, ast.While):
            return self._loop(st, facts, is_for=False)
        if isinstance(st, (ast.With, ast.AsyncWith)):
            f = tr(st, facts, "items")
            return self._block(st.body, f)
        if isinstance(st, ast.Try) or type(st).__name__ == "TryStar":
            return self._try(st, facts)
        if isinstance(st, ast.Match):
            f = tr(st, facts, "subject")
            outs: List[Facts] = []
            wildcard = False
            for case in st.cases:
                outs.append(self._block(case.body, f))
                if isinstance(case.pattern, ast.MatchAs) and case.pattern.pattern is None and case.guard is None:
                    wildcard = True
            if not wildcard:
                outs.append(f)
            return self.join_all(outs)
        if isinstance(st, ast.Assert):
            f = tr(st, facts, "stmt")
            return self.branch(st.test, True, f, "assert")
        # simple statement (Assign, AugAssign, AnnAssign, Expr, Delete, Pass, Import, Global,
        # Nonlocal, FunctionDef, ClassDef ...)
        if expr_yields(st) and not isinstance(st, (ast.FunctionDef, ast.AsyncFunctionDef, ast.ClassDef)):
            self._exit("yield", st, facts)
        return tr(st, facts, "stmt")

    def _loop(self, st, facts: FrozenSet[Hashable], is_for: bool) -> Facts:
        tr = self.transfer
        head = tr(st, facts, "iter" if is_for else "test")
        infinite = (not is_for) and is_const_true(st.test)
        entry: Facts = head
        back: Facts = None
        lp = _Loop()
        for _ in range(8):
            lp = _Loop()
            self._loops.append(lp)
            body_in = entry
            if not is_for and body_in is not None:
                body_in = self.branch(st.test, True, body_in, "while")
            body_out = self._block(st.body, body_in)
            self._loops.pop()
            back = self.join_all([body_out, *lp.continues])
            new_entry = self.join(head, back)
            if new_entry == entry:
                break
            entry = new_entry
        # normal loop exit (condition false / iterator exhausted)
        if infinite:
            normal: Facts = None
        else:
            normal = entry
            if not is_for and normal is not None:
                normal = self.branch(st.test, False, normal, "while")
        if self.loop_exit is not None and normal is not None:
            # client may promote facts that hold at every back edge to a fact about the whole
            # iteration (vacuously true for zero iterations); not valid when the loop can break
            normal = self.loop_exit(st, normal, back, bool(lp.breaks))
        if st.orelse:
            normal = self._block(st.orelse, normal)
        return self.join_all([normal, *lp.breaks])

    def _try(self, st, facts: FrozenSet[Hashable]) -> Facts:
        rec: List[Facts] = [facts]
        self._try_depth_facts.append(rec)
        body_out = self._block(st.body, facts)
        self._try_depth_facts.pop()
        rec.append(body_out)
        # an exception may be raised anywhere in the body
        h_in = self.join_all([r for r in rec if r is not None])
        outs: List[Facts] = []
        if st.orelse:
            outs.append(self._block(st.orelse, body_out))
        else:
            outs.append(body_out)
        for h in st.handlers:
            hf = self.transfer(h, h_in, "handler") if h_in is not None else None
            outs.append(self._block(h.body, hf))
        out = self.join_all(outs)
        if st.finalbody:
            # finally runs on every outcome; for the normal continuation use the joined state
            fin_in = out if out is not None else h_in
            fin_out = self._block(st.finalbody, fin_in)
            if out is None:
                return None
            return fin_out
        return out

    # -- queries -----------------------------------------------------------------------------
    def facts_at(self, st: ast.AST) -> Facts:
        return self.at.get(id(st))

    def normal_exits(self) -> List[Exit]:
        return [e for e in self.exits if e.kind in ("return", "yield", "fall")]


# ---------------------------------------------------------------------------------------------
# canned analyses
# ---------------------------------------------------------------------------------------------


def always_exits(stmts: List[ast.stmt]) -> bool:
    """True when control never falls out of the end of this block (return/raise/continue/break)."""
    fl = Flow(stmts)
    lp = _Loop()
    fl._loops.append(lp)  # so that break/continue at top level are legal
    out = fl._block(stmts, frozenset())
    return out is None


def stmt_terminates_with(stmts: List[ast.stmt]) -> List[ast.stmt]:
    """The return/raise statements that end this block on every path (empty if it may fall through)."""
    fl = Flow(stmts)
    lp = _Loop()
    fl._loops.append(lp)
    out = fl._block(stmts, frozenset())
    if out is not None or lp.breaks or lp.continues:
        return []
    return [e.node for e in fl.exits if e.node is not None]  # type: ignore[misc]


class Conditions:
    """Must-analysis of path conditions.

    Fact ("cond", key, polarity) holds at a point when every path to it took the ``polarity``
    side of a test whose normalised source is ``key``.  Compound tests are decomposed:
    true-side of ``a and b`` gives a,b true; false-side of ``a or b`` gives a,b false;
    ``not a`` flips.  Assignments to a name kill facts whose key mentions that name.
    """

    def __init__(self, body: List[ast.stmt], extra_transfer: Optional[Callable] = None, asserts: bool = True):
        self.extra = extra_transfer
        self.asserts = asserts
        self.flow = Flow(body, transfer=self._transfer, branch=self._branch, mode="must").run()

    @staticmethod
    def key(e: ast.AST) -> str:
        return ast.unparse(e)

    def _atoms(self, test: ast.AST, pol: bool) -> List[Tuple[str, bool]]:
        out: List[Tuple[str, bool]] = []
        if isinstance(test, ast.UnaryOp) and isinstance(test.op, ast.Not):
            return self._atoms(test.operand, not pol)
        if isinstance(test, ast.BoolOp):
            if (isinstance(test.op, ast.And) and pol) or (isinstance(test.op, ast.Or) and not pol):
                for v in test.values:
                    out += self._atoms(v, pol)
                # also keep the whole expression
            out.append((self.key(test), pol))
            return out
        if isinstance(test, ast.NamedExpr):
            out += self._atoms(test.value, pol)
        out.append((self.key(test), pol))
        # normalise negated comparisons:  a != b  true  <=>  a == b false
        if isinstance(test, ast.Compare) and len(test.ops) == 1:
            flip = {ast.Eq: ast.NotEq, ast.NotEq: ast.Eq, ast.Is: ast.IsNot, ast.IsNot: ast.Is,
                    ast.Lt: ast.GtE, ast.GtE: ast.Lt, ast.Gt: ast.LtE, ast.LtE: ast.Gt,
                    ast.In: ast.NotIn, ast.NotIn: ast.In}
            op = type(test.ops[0])
            if op in flip:
                neg = ast.Compare(left=test.left, ops=[flip[op]()], comparators=test.comparators)
                out.append((self.key(neg), not pol))
        return out

    def _branch(self, test, pol, facts, via):
        if via == "assert" and not self.asserts:
            return facts
        add = {("cond", k, p) for k, p in self._atoms(test, pol)}
        if via == "assert":
            add |= {("assert", k, p) for k, p in self._atoms(test, pol)}
        return facts | add

    def _transfer(self, node, facts, part):
        killed = set()
        targets: List[ast.AST] = []
        if part == "stmt":
            if isinstance(node, ast.Assign):
                targets = list(node.targets)
            elif isinstance(node, (ast.AugAssign, ast.AnnAssign)):
                targets = [node.target]
        elif part == "iter":
            targets = [node.target]
        elif part == "items":
            targets = [i.optional_vars for i in node.items if i.optional_vars is not None]
        names = set()
        for t in targets:
            for n in ast.walk(t):
                if isinstance(n, ast.Name):
                    names.add(n.id)
        if names:
            for f in facts:
                if isinstance(f, tuple) and f and f[0] in ("cond", "assert"):
                    try:
                        used = {n.id for n in ast.walk(ast.parse(f[1], mode="eval")) if isinstance(n, ast.Name)}
                    except SyntaxError:
                        used = set()
                    if used & names:
                        killed.add(f)
        if killed:
            facts = facts - killed
        if self.extra is not None:
            facts = self.extra(node, facts, part)
        return facts

    def holds_at(self, st: ast.AST, key: str, pol: bool) -> bool:
        f = self.flow.facts_at(st)
        return f is not None and ("cond", key, pol) in f

    def conds_at(self, st: ast.AST) -> List[Tuple[str, bool]]:
        f = self.flow.facts_at(st)
        if f is None:
            return []
        return sorted((x[1], x[2]) for x in f if isinstance(x, tuple) and x[0] == "cond")


class ReachingDefs:
    """May-analysis: which definitions of each local name reach each statement.

    Facts are (name, def_id) where def_id indexes ``self.defs`` = (name, stmt, value_expr|None,
    kind) with kind in assign|aug|for|with|param|unpack|import|def|walrus|except.
    """

    def __init__(self, fn_node, body: Optional[List[ast.stmt]] = None):
        self.defs: List[Tuple[str, Optional[ast.AST], Optional[ast.AST], str]] = []
        entry = set()
        args = fn_node.args if hasattr(fn_node, "args") else None
        if args is not None:
            allp = list(args.posonlyargs) + list(args.args) + list(args.kwonlyargs)
            if args.vararg:
                allp.append(args.vararg)
            if args.kwarg:
                allp.append(args.kwarg)
            for p in allp:
                entry.add((p.arg, self._new(p.arg, p, None, "param")))
        if body is None:
            body = fn_node.body if not isinstance(fn_node, ast.Lambda) else []
        self.flow = Flow(body, transfer=self._transfer, mode="may", entry=frozenset(entry)).run()

    def _new(self, name, stmt, value, kind) -> int:
        self.defs.append((name, stmt, value, kind))
        return len(self.defs) - 1

    _cache: Dict[Tuple[int, str], Dict[str, int]]

    def _def_ids(self, node: ast.AST, part: str) -> List[Tuple[str, int]]:
        # stable ids per (node, part): loops revisit statements
        if not hasattr(self, "_cache"):
            self._cache = {}
        key = (id(node), part)
        if key in self._cache:
            return list(self._cache[key].items())
        out: Dict[str, int] = {}

        def bind(target: ast.AST, value: Optional[ast.AST], kind: str):
            if isinstance(target, ast.Name):
                out[target.id] = self._new(target.id, node, value, kind)
            elif isinstance(target, (ast.Tuple, ast.List)):
                elts = target.elts
                vals: List[Optional[ast.AST]] = [None] * len(elts)
                if isinstance(value, (ast.Tuple, ast.List)) and len(value.elts) == len(elts) and not any(
                    isinstance(e, ast.Starred) for e in elts
                ):
                    vals = list(value.elts)
                    for e, v in zip(elts, vals):
                        bind(e, v, kind)
                else:
                    for i, e in enumerate(elts):
                        if isinstance(e, ast.Starred):
                            bind(e.value, value, "unpack*")
                        else:
                            # remember the position inside the unpacked value
                            if isinstance(e, ast.Name):
                                did = self._new(e.id, node, value, f"unpack[{i}/{len(elts)}]")
                                out[e.id] = did
                            else:
                                bind(e, value, "unpack")
            elif isinstance(target, ast.Starred):
                bind(target.value, value, "unpack*")

        if part == "stmt":
            if isinstance(node, ast.Assign):
                for t in node.targets:
                    bind(t, node.value, "assign")
            elif isinstance(node, ast.AnnAssign) and node.value is not None:
                bind(node.target, node.value, "assign")
            elif isinstance(node, ast.AugAssign):
                bind(node.target, node, "aug")
            elif isinstance(node, (ast.FunctionDef, ast.AsyncFunctionDef, ast.ClassDef)):
                out[node.name] = self._new(node.name, node, node, "def")
            elif isinstance(node, (ast.Import, ast.ImportFrom)):
                for a in node.names:
                    nm = (a.asname or a.name).split(".")[0]
                    out[nm] = self._new(nm, node, None, "import")
        elif part == "iter":
            bind(node.target, node.iter, "for")
        elif part == "items":
            for it in node.items:
                if it.optional_vars is not None:
                    bind(it.optional_vars, it.context_expr, "with")
        elif part == "handler":
            if getattr(node, "name", None):
                out[node.name] = self._new(node.name, node, None, "except")
        # walrus anywhere in the evaluated expressions
        exprs: List[ast.AST] = []
        if part == "stmt":
            exprs = [node]
        elif part == "test":
            exprs = [node.test]
        elif part == "iter":
            exprs = [node.iter]
        for e in exprs:
            for n in ast.walk(e):
                if isinstance(n, ast.NamedExpr) and isinstance(n.target, ast.Name):
                    out.setdefault(n.target.id, self._new(n.target.id, node, n.value, "walrus"))
        self._cache[key] = out
        return list(out.items())

    def _transfer(self, node, facts, part):
        binds = self._def_ids(node, part)
        if not binds:
            return facts
        names = {n for n, _ in binds}
        keep = {f for f in facts if f[0] not in names}
        # augmented assignment keeps nothing of the old value as a *definition* (it is a new def)
        return frozenset(keep | {(n, d) for n, d in binds})

    def reaching(self, st: ast.AST, name: str) -> List[Tuple[str, Optional[ast.AST], Optional[ast.AST], str]]:
        f = self.flow.facts_at(st)
        if f is None:
            return []
        return [self.defs[d] for n, d in sorted(f, key=lambda x: x[1]) if n == name]

    def all_defs(self, name: str) -> List[Tuple[str, Optional[ast.AST], Optional[ast.AST], str]]:
        return [d for d in self.defs if d[0] == name]
