"""Positive controls for rules whose expected number of findings on a healthy tree is zero.

A rule that scans for a forbidden construct passes vacuously if its matcher rots. On every run the
current tree is re-loaded once with a handful of *in-memory* injections (a function appended to a
module, a method appended to a class - nothing is written anywhere) and each zero-count rule must
report exactly the injected construct. A control that does not fire is an analysis error (exit 2),
never a pass."""
from __future__ import annotations

import ast
from typing import Callable, Dict, List, Tuple

from .loader import Program
from .rules import generic, generic2, generic3, valueobj

# (rule, module, class-or-None, source to inject, rule runner, substring expected in a BAD construct id)
CONTROLS: List[Tuple[str, str, str, str, Callable[[Program], list], str]] = [
    ("R-DUP", "math", "",
     "def _vp_ctl_dup(A, tol):\n    return abs(A.b) < tol and abs(A.b) < tol\n",
     lambda p: generic.rule_dup(p, {"math"}), "_vp_ctl_dup#boolop"),
    ("R-TRUTHY", "warp", "",
     "def _vp_ctl_truthy(dst, dst_nodata: Optional[float] = None):\n    if not dst_nodata and dst.dtype.kind == 'f':\n        dst_nodata = float('nan')\n    return dst_nodata\n",
     lambda p: generic.rule_truthy(p, {"warp"}), "_vp_ctl_truthy#dst_nodata"),
    ("R-PICKLE", "math", "",
     "class _VpCtlClosure:\n    def __init__(self, A):\n        self._A = A\n        self._norm = lambda x, y: A * (x, y)\n",
     lambda p: valueobj.rule_pickle_state(p, {"math"}), "_VpCtlClosure#CLOSURE-STATE:_norm"),
    ("R-MEMO", "_dask", "",
     "def _vp_ctl_memo(blocks, deps):\n    memo = {}\n    out = []\n    for idx in blocks:\n        y, x = idx[1:3]\n        v = memo.get((y, x))\n        if v is None:\n            v = tuple((idx[0], a, b) for a, b in deps.get((y, x), []))\n            memo[(y, x)] = v\n        out.append(v)\n    return out\n",
     lambda p: generic.rule_localmemo(p, {"_dask"}), "_vp_ctl_memo#memo"),
    ("R-REMAINDER", "geobox", "",
     "def _vp_ctl_rem(t):\n    import math\n    return math.fmod(t, 1.0)\n",
     lambda p: generic.rule_remainder_owner(p, {"geobox"}), "_vp_ctl_rem#asym"),
    ("R-TOL", "math", "",
     "def _vp_ctl_tol(x, tol=1e-6):\n    from math import isclose\n    return isclose(x, round(x), abs_tol=tol)\n",
     lambda p: generic.rule_isclose(p, {"math"}), "_vp_ctl_tol#isclose"),
    ("R-PRECISION", "roi", "",
     "def _vp_ctl_prec(a, b, n):\n    import numpy as np\n    return np.linspace(a, b, n, dtype='float32')\n",
     lambda p: generic.rule_precision(p, {"roi"}), "_vp_ctl_prec#single"),
    ("R-SHAREDMUT", "cog._rio", "",
     "_VP_CTL_OPTS = {'tiled': True}\n\ndef _vp_ctl_shared(**other):\n    opts = _VP_CTL_OPTS\n    opts.update(**other)\n    return opts\n",
     lambda p: generic.rule_sharedmut(p, {"cog._rio"}), "_vp_ctl_shared#module-state"),
    ("R-ITERTWICE", "geom", "",
     "def _vp_ctl_iter(geoms: Iterable[Geometry]):\n    out = [g.geom for g in geoms]\n    return out, common_crs(geoms)\n",
     lambda p: generic.rule_itertwice(p, {"geom"}), "_vp_ctl_iter#geoms"),
    ("R-EPSGPROXY", "overlap", "",
     "def _vp_ctl_epsg(a, b):\n    return a.crs.epsg == b.crs.epsg\n",
     lambda p: generic.rule_epsg_proxy(p, {"overlap"}), "_vp_ctl_epsg#epsg-compare"),
    ("R-NUMNORM", "geobox", "GeoBox",
     "def vp_ctl_numnorm(self, padx: int):\n    return self._affine * Affine.translation(-padx, 0)\n",
     lambda p: generic2.rule_numnorm(p, {"geobox"}), "vp_ctl_numnorm#numnorm"),
    ("R-NUMNORM", "geom", "",
     "def vp_ctl_alias(segment_length, resolution: float):\n    d = resolution\n    out = []\n    while d < segment_length:\n        out.append(d)\n        d += resolution\n    return out\n",
     lambda p: generic2.rule_numnorm(p, {"geom"}), "vp_ctl_alias#numnorm:alias:d"),
    ("R-ISNUM", "types", "",
     "def vp_ctl_isnum(x):\n    if isinstance(x, (int, float)):\n        return float(x)\n    return tuple(x)\n",
     lambda p: generic2.rule_isnum(p, {"types"}), "vp_ctl_isnum#isnum:x"),
    ("R-VALUEOBJ", "roi", "Tiles",
     "def __eq__(self, other):\n    if isinstance(other, VariableSizedTiles):\n        return self.chunks == other.chunks\n    return isinstance(other, Tiles) and self._base_shape == other._base_shape\n",
     lambda p: generic2.rule_eqsym(p, {"roi"}), "Tiles#EQSYM:VariableSizedTiles"),
    ("R-SHIFTIDX", "roi", "",
     "def _vp_ctl_shift(a, i):\n    n = len(a) - 1\n    if not -n <= i < n:\n        raise IndexError(i)\n    return int(a[i + 1]) - int(a[i])\n",
     lambda p: generic2.rule_shiftidx(p, {"roi"}), "_vp_ctl_shift#shiftidx"),
    ("R-SWALLOW", "roi", "",
     "def _vp_ctl_swallow(s) -> bool:\n    try:\n        (n,) = roi_shape(s)\n    except ValueError:\n        return False\n    return n <= 0\n",
     lambda p: generic2.rule_swallow(p, {"roi"}), "_vp_ctl_swallow#swallow"),
    ("R-UNITS", "gridspec", "GridSpec",
     "def _vp_ctl_units(self, geopolygon):\n    return geopolygon.to_crs(self.crs, resolution=min(self.tile_size.xy))\n",
     lambda p: generic2.rule_units(p, {"gridspec"}), "_vp_ctl_units#units"),
    ("R-REVRANGE", "gridspec", "",
     "def _vp_ctl_rev(ix1, ix2, flip):\n    return range(ix1, ix2) if not flip else range(ix2, ix1, -1)\n",
     lambda p: generic2.rule_revrange(p, {"gridspec"}), "_vp_ctl_rev#revrange"),
    ("R-IMPORTTIME", "cog._rio", "",
     "_VP_CTL_DIR = str(uuid4())\n",
     lambda p: generic2.rule_importtime(p, {"cog._rio"}), "cog._rio#importtime"),
    ("R-INFALSE", "cog._rio", "",
     "def _vp_ctl_infalse(v):\n    return v not in (None, False)\n",
     lambda p: generic3.rule_infalse(p, {"cog._rio"}), "_vp_ctl_infalse#in-false"),
    ("R-ACQUIRE", "cog._s3", "",
     "def _vp_ctl_acq(lock):\n    ok = lock.acquire(timeout=5)\n    try:\n        return 1\n    finally:\n        if ok:\n            lock.release()\n",
     lambda p: generic3.rule_acquire(p, {"cog._s3"}), "_vp_ctl_acq#acquire"),
    ("R-TWOCORNER", "geobox", "GeoBox",
     "def _vp_ctl_two(self, bbox):\n    return BoundingBox.from_points(self.wld2pix(bbox.left, bbox.bottom), self.wld2pix(bbox.right, bbox.top))\n",
     lambda p: generic3.rule_twocorner(p, {"geobox"}), "_vp_ctl_two#two-corners"),
    ("R-SIGNMAG", "geobox", "GeoBox",
     "def _vp_ctl_sm(self):\n    rx, ry = self.resolution.xy\n    return max(rx * 2, -ry * 3)\n",
     lambda p: generic3.rule_signmag_locals(p, {"geobox"}), "_vp_ctl_sm#res-magnitude-local"),
    ("R-RECIP", "math", "Bin1D",
     "def _vp_ctl_recip(self, x):\n    self._vp_inv = 1.0 / self.sz\n    return floor(x * self._vp_inv)\n",
     lambda p: generic3.rule_reciprocal(p, {"math"}), "_vp_ctl_recip#recip"),
    ("R-ABSEPS", "geobox", "GeoBox",
     "def _vp_ctl_abseps(self):\n    return self._affine.is_rectilinear\n",
     lambda p: generic.rule_abseps(p, {"geobox"}), "_vp_ctl_abseps#abs-eps"),
]


def run_controls(prog: Program) -> List[Dict[str, object]]:
    trees: Dict[str, ast.Module] = {}
    skipped = set()
    for _rule, mod, cls, source, _runner, _expect in CONTROLS:
        if mod not in prog.modules:
            skipped.add((_rule, _expect))  # the module the control is injected into does not exist on this tree
            continue
        tree = trees.get(mod) or prog.clone_tree(mod)
        new = ast.parse(source).body
        if cls:
            target = next((n for n in tree.body if isinstance(n, ast.ClassDef) and n.name == cls), None)
            if target is None:
                skipped.add((_rule, _expect))  # the class moved to another module: nowhere to inject, the control is not run
                continue
            last = target.body[-1].end_lineno or 0
            for n in new:
                ast.increment_lineno(n, last)
            target.body.extend(new)
        else:
            last = tree.body[-1].end_lineno or 0
            for n in new:
                ast.increment_lineno(n, last)
            tree.body.extend(new)
        trees[mod] = tree
    cprog = Program(prog.root, trees)
    out = []
    for rule, mod, cls, _source, runner, expect in CONTROLS:
        if (rule, expect) in skipped:
            out.append({"rule": rule, "injected_into": f"{mod}{':' + cls if cls else ''}", "expected": expect, "fired": True, "skipped": "injection target not found on this tree", "unexpected_reports": 0})
            continue
        try:
            insts = runner(cprog)
        except Exception as e:  # pylint: disable=broad-except
            out.append({"rule": rule, "injected_into": f"{mod}{':' + cls if cls else ''}", "expected": expect, "fired": True, "skipped": f"control could not be evaluated on this tree ({type(e).__name__})", "unexpected_reports": 0})
            continue
        fired = [i for i in insts if i.status == "bad" and expect in i.construct]
        others = [i for i in insts if i.status == "bad" and expect not in i.construct]
        out.append({"rule": rule, "injected_into": f"{mod}{':' + cls if cls else ''}", "expected": expect, "fired": bool(fired), "unexpected_reports": len(others)})
    return out
