"""R-VALUEOBJ: equality / hash / dask-token / pickle field agreement; R-CACHE: cache keys (C19)."""
from __future__ import annotations

import ast
from typing import Dict, List, Optional, Set, Tuple

from ..astutil import Origins, call_name, names_in
from ..cfg import Conditions
from ..loader import ClassInfo, FuncInfo, Program, dotted, short, src, walk_own
from ..report import BAD, INFO, OK, UNDET, Instance

VALUE_CLASSES = [
    "crs:CRS", "geom:Geometry", "geom:BoundingBox", "geobox:GeoBox", "gcp:GCPGeoBox", "gcp:GCPMapping",
    "roi:Tiles", "roi:VariableSizedTiles", "geobox:GeoboxTiles", "types:XY", "types:Shape2d",
    "types:Resolution", "types:Index2d", "gridspec:GridSpec", "math:Bin1D",
]


# ---------------------------------------------------------------------------------------------
# field helpers
# ---------------------------------------------------------------------------------------------


def property_field(ci: ClassInfo, name: str, _depth: int = 0) -> Optional[str]:
    """If ``name`` is a property that simply returns ``self.<field>`` return that field."""
    m = ci.find_method(name)
    if m is None or not m.is_property or _depth > 3:
        return None
    body = [s for s in m.node.body if not (isinstance(s, ast.Expr) and isinstance(s.value, ast.Constant))]
    if len(body) == 1 and isinstance(body[0], ast.Return):
        v = body[0].value
        if isinstance(v, ast.Attribute) and isinstance(v.value, ast.Name) and v.value.id == m.self_name:
            inner = property_field(ci, v.attr, _depth + 1)
            return inner or v.attr
    return None


def norm_field(ci: ClassInfo, attr: str) -> str:
    return property_field(ci, attr) or attr


def fields_read(ci: ClassInfo, fn: FuncInfo, _seen: Optional[Set[str]] = None) -> Tuple[Set[str], List[str]]:
    """Fields of ``self`` read by a method, following properties, str(self)/repr(self) and
    ``self.f.__dask_tokenize__()`` delegation.  Second value: impure calls (id/uuid/random/time)."""
    seen = _seen if _seen is not None else set()
    if fn.qual in seen:
        return set(), []
    seen.add(fn.qual)
    me = fn.self_name
    out: Set[str] = set()
    impure: List[str] = []
    for n in walk_own(fn.node):
        if isinstance(n, ast.Attribute) and isinstance(n.value, ast.Name) and n.value.id == me:
            m = ci.find_method(n.attr)
            if m is not None and m.is_property:
                pf = property_field(ci, n.attr)
                if pf is not None:
                    out.add(pf)
                else:
                    sub, imp = fields_read(ci, m, seen)
                    out |= sub
                    impure += imp
            elif m is not None:
                # method reference self.m(...)
                sub, imp = fields_read(ci, m, seen)
                out |= sub
                impure += imp
            else:
                out.add(n.attr)
        elif isinstance(n, ast.Call):
            nm = call_name(n)
            if nm in ("str", "repr", "format") and n.args and isinstance(n.args[0], ast.Name) and n.args[0].id == me:
                for dn in ("__str__", "__repr__") if nm != "repr" else ("__repr__",):
                    m = ci.find_method(dn)
                    if m is not None:
                        sub, imp = fields_read(ci, m, seen)
                        out |= sub
                        impure += imp
                        break
            d = dotted(n.func) or ""
            if nm == "id" and isinstance(n.func, ast.Name):
                impure.append(f"id({short(n.args[0]) if n.args else ''})")
            if d.split(".")[0] in ("uuid", "random", "time") or nm in ("uuid4", "uuid1", "getrandbits"):
                impure.append(short(n))
    return out, impure


def _lossless_expr(e: ast.AST) -> bool:
    """value built only from names through tuples / single-argument normalisers: keeps all information."""
    if isinstance(e, ast.Name):
        return True
    if isinstance(e, ast.Tuple):
        return all(_lossless_expr(x) for x in e.elts)
    if isinstance(e, ast.Call) and len(e.args) == 1 and not e.keywords and isinstance(e.func, ast.Name):
        return _lossless_expr(e.args[0])
    if isinstance(e, ast.Attribute):
        return False
    return False


LOSSLESS: Dict[Tuple[str, str], bool] = {}


def init_roots(prog: Program, ci: ClassInfo) -> Dict[str, Set[str]]:
    """field -> constructor parameters its value derives from (through base __init__ calls)."""
    init = ci.find_method("__init__")
    out: Dict[str, Set[str]] = {}
    if init is None:
        return out
    me = init.self_name
    org = Origins(init)

    def roots_of(e: ast.AST) -> Set[str]:
        r = set(org.deps(e))
        # reads of already-assigned fields: self.tile_size.x
        for n in ast.walk(e):
            if isinstance(n, ast.Attribute) and isinstance(n.value, ast.Name) and n.value.id == me and n.attr in out:
                r |= out[n.attr]
        r.discard(me or "self")
        return r

    def assign(target: ast.AST, value: ast.AST):
        if isinstance(target, ast.Attribute) and isinstance(target.value, ast.Name) and target.value.id == me:
            out.setdefault(target.attr, set()).update(roots_of(value))
            # lossless only if also every local it names is itself a lossless re-binding of a parameter
            ll = _lossless_expr(value)
            if ll:
                for nm in names_in(value):
                    for _, dv in org.defs.get(nm, []):
                        if not _lossless_expr(dv):
                            ll = False
            LOSSLESS[(ci.qual, target.attr)] = LOSSLESS.get((ci.qual, target.attr), True) and ll
            if isinstance(value, ast.Constant):
                out.setdefault(target.attr, set()).add("<const>")
        elif isinstance(target, (ast.Tuple, ast.List)):
            for t in target.elts:
                assign(t, value)

    for st in init.node.body:
        for n in ast.walk(st):
            if isinstance(n, ast.Assign):
                for t in n.targets:
                    assign(t, n.value)
            elif isinstance(n, ast.AnnAssign) and n.value is not None:
                assign(n.target, n.value)
            elif isinstance(n, ast.Call):
                # Base.__init__(self, a, b, c)  /  super().__init__(a, b)
                f = n.func
                if isinstance(f, ast.Attribute) and f.attr == "__init__":
                    base: Optional[ClassInfo] = None
                    args = list(n.args)
                    if isinstance(f.value, ast.Name):
                        tg = prog.resolve_name_expr(f.value, init.mod, init)
                        if isinstance(tg, ClassInfo):
                            base = tg
                            args = args[1:]  # explicit self
                    elif isinstance(f.value, ast.Call) and call_name(f.value) == "super":
                        mro = ci.mro()
                        base = next((c for c in mro[1:] if "__init__" in c.methods), None)
                    if base is not None and base is not ci:
                        binit = base.find_method("__init__")
                        sub = init_roots(prog, base)
                        if binit is not None:
                            bparams = [p.arg for p in binit.positional_params()][1:]
                            bind: Dict[str, Set[str]] = {}
                            for p, a in zip(bparams, args):
                                bind[p] = roots_of(a)
                            for k in n.keywords:
                                if k.arg:
                                    bind[k.arg] = roots_of(k.value)
                            for fld, rs in sub.items():
                                if (base.qual, fld) in LOSSLESS:
                                    LOSSLESS[(ci.qual, fld)] = LOSSLESS[(base.qual, fld)]
                                acc = out.setdefault(fld, set())
                                for r in rs:
                                    acc |= bind.get(r, {r} if r == "<const>" else set())
    return out


# ---------------------------------------------------------------------------------------------
# __eq__ analysis
# ---------------------------------------------------------------------------------------------


class EqInfo:
    def __init__(self):
        self.conj: Set[str] = set()  # fields equal on every True-returning path
        self.ident_fields: List[str] = []  # fields compared with `is` as a necessary condition
        self.true_exits = 0
        self.disjunctive = False
        self.notes: List[str] = []


def _other_name(eq: FuncInfo) -> Optional[str]:
    pp = eq.positional_params()
    return pp[1].arg if len(pp) >= 2 else None


def _field_cmp(ci: ClassInfo, e: ast.AST, me: str, other_names: Set[str]) -> Optional[Tuple[str, str]]:
    """('eq'|'ne'|'is'|'isnot', field) when e compares self.F with other.F' (same field)."""
    # strip truthiness wrappers:  bool(x)   (x).all()
    while True:
        if isinstance(e, ast.Call) and isinstance(e.func, ast.Name) and e.func.id == "bool" and len(e.args) == 1:
            e = e.args[0]
            continue
        if isinstance(e, ast.Call) and isinstance(e.func, ast.Attribute) and e.func.attr == "all" and not e.args:
            e = e.func.value
            continue
        break
    kinds = {ast.Eq: "eq", ast.NotEq: "ne", ast.Is: "is", ast.IsNot: "isnot"}
    if isinstance(e, ast.Call) and call_name(e) in ("array_equal", "array_equiv") and len(e.args) == 2:
        l, r = e.args
        op: ast.AST = ast.Eq()
    elif isinstance(e, ast.Compare) and len(e.ops) == 1:
        op = e.ops[0]
        l, r = e.left, e.comparators[0]
    else:
        return None
    if type(op) not in kinds:
        return None

    def side(x: ast.AST) -> Optional[Tuple[str, str]]:
        # strip harmless wrappers:  (a != b).any()
        if isinstance(x, ast.Attribute) and isinstance(x.value, ast.Name):
            return x.value.id, x.attr
        return None

    ls, rs = side(l), side(r)
    if ls is None or rs is None:
        return None
    if ls[0] == me and rs[0] in other_names:
        a, b = ls[1], rs[1]
    elif rs[0] == me and ls[0] in other_names:
        a, b = rs[1], ls[1]
    else:
        return None
    fa, fb = norm_field(ci, a), norm_field(ci, b)
    if fa != fb:
        return None
    return kinds[type(op)], fa


def analyse_eq(prog: Program, ci: ClassInfo, eq: FuncInfo) -> EqInfo:
    info = EqInfo()
    me = eq.self_name or "self"
    o = _other_name(eq)
    if o is None:
        info.notes.append("__eq__ without second parameter")
        return info
    others = {o}
    # aliases of other:  other = CRS(other)
    for n in walk_own(eq.node):
        if isinstance(n, ast.Assign) and len(n.targets) == 1 and isinstance(n.targets[0], ast.Name):
            if o in names_in(n.value):
                others.add(n.targets[0].id)

    cond = Conditions(eq.body)
    exits_fields: List[Set[str]] = []

    # loops of the form:  for a, b in zip(self.F, other.F): if a != b: return False
    loop_fields: Set[str] = set()
    for n in walk_own(eq.node):
        if isinstance(n, ast.For) and isinstance(n.iter, ast.Call) and call_name(n.iter) == "zip" and len(n.iter.args) == 2:
            a0, a1 = n.iter.args
            if (
                isinstance(a0, ast.Attribute) and isinstance(a1, ast.Attribute)
                and isinstance(a0.value, ast.Name) and isinstance(a1.value, ast.Name)
                and {a0.value.id, a1.value.id} & {me} and {a0.value.id, a1.value.id} & others
                and norm_field(ci, a0.attr) == norm_field(ci, a1.attr)
            ):
                has_false = any(isinstance(r, ast.Return) and isinstance(r.value, ast.Constant) and r.value.value is False for r in ast.walk(n))
                if has_false:
                    loop_fields.add(norm_field(ci, a0.attr))

    def expr_fields(e: ast.AST) -> Tuple[Set[str], bool]:
        """fields implied equal if e is truthy; bool: can e be True at all."""
        if isinstance(e, ast.Constant):
            return set(), bool(e.value)
        if isinstance(e, ast.BoolOp) and isinstance(e.op, ast.And):
            acc: Set[str] = set()
            for v in e.values:
                f, _ = expr_fields(v)
                acc |= f
            return acc, True
        fc = _field_cmp(ci, e, me, others)
        if fc is not None:
            kind, fld = fc
            if kind == "eq":
                return {fld}, True
            if kind == "is":
                info.ident_fields.append(fld)
                return {fld}, True
            return set(), True
        if isinstance(e, ast.Call) and isinstance(e.func, ast.Attribute) and e.func.attr == "__eq__":
            # super().__eq__(other)
            if isinstance(e.func.value, ast.Call) and call_name(e.func.value) == "super":
                for c in ci.mro()[1:]:
                    if "__eq__" in c.methods:
                        sub = analyse_eq(prog, c, c.methods["__eq__"])
                        return set(sub.conj), True
        return set(), True

    for ex in cond.flow.exits:
        if ex.kind != "return":
            continue
        rv = ex.node.value  # type: ignore[union-attr]
        if rv is None:
            continue
        flds, can_true = expr_fields(rv)
        if not can_true:
            continue
        # path conditions
        identity_shortcut = False
        foreign = False
        own_names = {c.name for c in ci.mro()} | {c.name for c in prog.classes.values() if ci in c.mro()}
        for f in ex.facts:
            if isinstance(f, tuple) and f[0] == "cond":
                try:
                    ce0 = ast.parse(f[1], mode="eval").body
                except SyntaxError:
                    continue
                if isinstance(ce0, ast.Call) and call_name(ce0) == "isinstance" and len(ce0.args) == 2 and isinstance(ce0.args[0], ast.Name) and ce0.args[0].id in others:
                    tnames = {x.split(".")[-1] for x in ([dotted(ce0.args[1])] if not isinstance(ce0.args[1], ast.Tuple) else [dotted(t) for t in ce0.args[1].elts]) if x}
                    if f[2] and not (tnames & own_names):
                        foreign = True  # other is of a foreign type on this path
                    if (not f[2]) and (tnames & own_names):
                        foreign = True  # other is not of our type on this path
        if foreign:
            continue
        for f in ex.facts:
            if not (isinstance(f, tuple) and f[0] == "cond"):
                continue
            try:
                ce = ast.parse(f[1], mode="eval").body
            except SyntaxError:
                continue
            pol = f[2]
            if isinstance(ce, ast.Compare) and len(ce.ops) == 1 and isinstance(ce.ops[0], (ast.Is, ast.IsNot)):
                l, r = ce.left, ce.comparators[0]
                if isinstance(l, ast.Name) and isinstance(r, ast.Name) and {l.id, r.id} == {me, o}:
                    if pol == isinstance(ce.ops[0], ast.Is):
                        identity_shortcut = True
            fc = _field_cmp(ci, ce, me, others)
            if fc is not None:
                kind, fld = fc
                if (kind in ("eq", "is") and pol) or (kind in ("ne", "isnot") and not pol):
                    flds = flds | {fld}
                    if kind in ("isnot",) and not pol:
                        pass
        if identity_shortcut:
            continue
        # a `return True` after a comparing loop implies the loop fields
        if isinstance(rv, ast.Constant) and rv.value is True:
            flds = flds | loop_fields
        exits_fields.append(flds)

    # necessary identity comparisons in guards:  if self.F is not other.F: return False
    for n in walk_own(eq.node):
        if isinstance(n, ast.If):
            fc = _field_cmp(ci, n.test, me, others)
            if fc is not None and fc[0] == "isnot":
                if any(isinstance(s, ast.Return) and isinstance(s.value, ast.Constant) and s.value.value is False for s in n.body):
                    info.ident_fields.append(fc[1])

    info.true_exits = len(exits_fields)
    if exits_fields:
        conj = set(exits_fields[0])
        for f in exits_fields[1:]:
            conj &= f
        info.conj = conj
        info.disjunctive = len(exits_fields) > 1 and not conj and any(exits_fields)
    # identity comparisons that are only shortcuts (not in every true exit) are not "necessary"
    info.ident_fields = [f for f in info.ident_fields if f in info.conj]
    return info


def _own_or_inherited(ci: ClassInfo, name: str) -> Optional[Tuple[ClassInfo, FuncInfo]]:
    for c in ci.mro():
        if name in c.methods:
            return c, c.methods[name]
    return None


def _hash_disabled(ci: ClassInfo) -> bool:
    """Python sets __hash__ = None for a class that defines __eq__ without __hash__."""
    for c in ci.mro():
        if "__hash__" in c.methods:
            return False
        if "__eq__" in c.methods:
            return True
    return False


# fields that are lazily filled caches: initialised to a constant in __init__ (derived, not listed)
def cache_fields(roots: Dict[str, Set[str]]) -> Set[str]:
    return {f for f, r in roots.items() if r and r <= {"<const>"}}


def rule_valueobj(prog: Program, classes: Optional[List[str]] = None) -> List[Instance]:
    out: List[Instance] = []
    targets: List[ClassInfo] = []
    if classes is None:
        for ci in prog.classes.values():
            if any(m in ci.methods for m in ("__eq__", "__hash__", "__dask_tokenize__", "__getstate__")):
                targets.append(ci)
    else:
        for q in classes:
            targets.append(prog.cls(q))

    for ci in sorted(targets, key=lambda c: c.qual):
        where = f"{ci.mod.relpath}:{ci.node.lineno}"
        eqm = _own_or_inherited(ci, "__eq__")
        roots = init_roots(prog, ci)
        caches = cache_fields(roots)
        eq: Optional[EqInfo] = None
        if eqm is not None:
            eq = analyse_eq(prog, eqm[0], eqm[1])
            if eq.true_exits == 0:
                out.append(Instance("R-VALUEOBJ", f"{ci.qual}#EQ", UNDET, "could not find any True-capable return in __eq__", where))
                continue

        def determined(field: str, by: Set[str]) -> bool:
            """field is implied by the fields in ``by`` (same field or functional dependency via __init__)."""
            if field in by:
                return True
            fr = roots.get(field)
            if not fr:
                return False
            fr = fr - {"<const>"}
            byr: Set[str] = set()
            for b in by:
                if LOSSLESS.get((ci.qual, b), False):
                    byr |= roots.get(b, set())
            return bool(fr) and fr <= byr

        # EQIDENT
        if eq is not None:
            if eq.ident_fields:
                for f in sorted(set(eq.ident_fields)):
                    out.append(Instance("R-VALUEOBJ", f"{ci.qual}#EQIDENT:{f}", BAD,
                                        f"__eq__ requires `self.{f} is other.{f}`: identity cannot survive copying or pickling", where))
            else:
                out.append(Instance("R-VALUEOBJ", f"{ci.qual}#EQIDENT", OK, f"__eq__ compares fields by value ({sorted(eq.conj) or 'disjunctive'})", where))

        # EQHASH
        hm = _own_or_inherited(ci, "__hash__")
        if eq is not None and hm is not None and not _hash_disabled(ci):
            hf, _imp = fields_read(hm[0], hm[1])
            missing = sorted(f for f in hf if not determined(f, eq.conj))
            if missing:
                kind = "disjunctive __eq__ implies no field" if not eq.conj else f"__eq__ implies only {sorted(eq.conj)}"
                out.append(Instance("R-VALUEOBJ", f"{ci.qual}#EQHASH:{','.join(missing)}|{'disjunctive' if not eq.conj else 'partial'}", BAD,
                                    f"__hash__ reads {missing} but {kind}: equal objects may hash differently", f"{hm[1].where()}"))
            else:
                out.append(Instance("R-VALUEOBJ", f"{ci.qual}#EQHASH", OK, f"hash fields {sorted(hf)} are all implied equal by __eq__ ({sorted(eq.conj)})", hm[1].where()))
        elif eq is not None and _hash_disabled(ci):
            out.append(Instance("R-VALUEOBJ", f"{ci.qual}#EQHASH", INFO, "defines __eq__ without __hash__: unhashable, hash law vacuous", where, nontrivial=False))

        # EQTOKEN
        tm = _own_or_inherited(ci, "__dask_tokenize__")
        if tm is not None:
            tf, impure = fields_read(tm[0], tm[1])
            # delegated tokens:  self._gbox.__dask_tokenize__()  already counted as a read of _gbox
            if impure:
                out.append(Instance("R-VALUEOBJ", f"{ci.qual}#TOKENPURE", BAD, f"__dask_tokenize__ uses {impure}: token differs between a value and its copy", tm[1].where()))
            else:
                out.append(Instance("R-VALUEOBJ", f"{ci.qual}#TOKENPURE", OK, "token uses no id()/uuid/random/time", tm[1].where()))
            if eq is not None and eq.conj:
                missing = sorted(f for f in eq.conj if not determined(f, tf))
                if missing:
                    out.append(Instance("R-VALUEOBJ", f"{ci.qual}#EQTOKEN", BAD,
                                        f"__eq__ distinguishes objects by {missing} but __dask_tokenize__ only reads {sorted(tf)}: unequal objects can share a token", tm[1].where()))
                else:
                    out.append(Instance("R-VALUEOBJ", f"{ci.qual}#EQTOKEN", OK, f"every field compared by __eq__ ({sorted(eq.conj)}) feeds the token ({sorted(tf)})", tm[1].where()))
            elif eq is not None:
                out.append(Instance("R-VALUEOBJ", f"{ci.qual}#EQTOKEN", INFO, "disjunctive __eq__: no field is necessary for equality", tm[1].where(), nontrivial=False))

        # EQCOMPLETE
        if eq is not None and eq.conj:
            slots: List[str] = []
            for c in ci.mro():
                slots += c.slots() or []
            if not slots:
                fields: Set[str] = set()
            else:
                fields = set(slots)
            missing = sorted(f for f in fields if f not in caches and not determined(f, eq.conj))
            if missing:
                out.append(Instance("R-VALUEOBJ", f"{ci.qual}#EQCOMPLETE", BAD,
                                    f"state fields {missing} are neither compared by __eq__ ({sorted(eq.conj)}) nor determined by compared fields", where))
            else:
                out.append(Instance("R-VALUEOBJ", f"{ci.qual}#EQCOMPLETE", OK if slots else INFO,
                                    f"__eq__ covers every state field (compared {sorted(eq.conj)}; caches {sorted(caches & fields)})", where))

        # EQLAZY: equality / hash / token read construction-time state only. A field that some ordinary method
        # (re)assigns later - a lazily filled cache - makes `a == b` depend on which properties were read before
        lazy: Dict[str, str] = {}
        for c_ in ci.mro():
            for mname_, m_ in c_.methods.items():
                if mname_ in ("__init__", "__new__", "__setstate__", "__reduce__", "__copy__", "__deepcopy__") or any(d_ in ("classmethod", "staticmethod") for d_ in m_.decorator_names()):
                    continue
                me_ = m_.self_name
                for n_ in walk_own(m_.node):
                    tgts_ = n_.targets if isinstance(n_, ast.Assign) else [n_.target] if isinstance(n_, (ast.AugAssign, ast.AnnAssign)) else []
                    for t_ in tgts_:
                        for x_ in ast.walk(t_):
                            if isinstance(x_, ast.Attribute) and isinstance(x_.value, ast.Name) and x_.value.id == me_ and isinstance(x_.ctx, ast.Store):
                                lazy.setdefault(x_.attr, f"{c_.name}.{mname_}")
        for dn_ in ("__eq__", "__hash__", "__dask_tokenize__", "__getstate__", "__reduce__"):
            mm_ = _own_or_inherited(ci, dn_)
            if mm_ is None:
                continue
            # direct reads only: a property that fills its own cache and returns the value is deterministic
            me_ = mm_[1].self_name
            others_ = {_other_name(mm_[1])} if dn_ == "__eq__" else set()
            direct = {n_.attr for n_ in walk_own(mm_[1].node) if isinstance(n_, ast.Attribute) and isinstance(n_.value, ast.Name) and n_.value.id in ({me_} | others_) and isinstance(n_.ctx, ast.Load)}
            hit = sorted(direct & set(lazy))
            if hit and not any(_own_or_inherited(ci, x_) is not None for x_ in ("__eq__", "__hash__")):
                # a work object that is mutated by design (upload state, stream chunk) and claims neither equality nor
                # hashing: its token/state is a snapshot taken when the graph is built, not a value-object identity
                out.append(Instance("R-VALUEOBJ", f"{ci.qual}#EQLAZY:{dn_}", INFO,
                                    f"{ci.name} defines no __eq__/__hash__ (not a value object); {dn_} snapshots mutable fields {hit}", mm_[1].where(), nontrivial=False))
                continue
            out.append(Instance("R-VALUEOBJ", f"{ci.qual}#EQLAZY:{dn_}", BAD if hit else OK,
                                f"{dn_} reads {hit}, which {lazy[hit[0]]}() fills in later: the result depends on which properties were read before (not an equivalence relation over time)" if hit
                                else f"{dn_} reads only fields fixed at construction", mm_[1].where()))

        # HASHOVERRIDE: a subclass that defines its own __hash__ while its __eq__ falls back to an ancestor's
        # cross-type equality (isinstance(other, <Ancestor>)) must hash exactly like the ancestor: otherwise it is
        # equal to sibling instances with a different hash
        own_hash = ci.methods.get("__hash__")
        if own_hash is not None:
            for anc in ci.mro()[1:]:
                a_eq, a_hash = anc.methods.get("__eq__"), anc.methods.get("__hash__")
                if a_eq is None or a_hash is None:
                    continue
                cross = any(isinstance(c_, ast.Call) and call_name(c_) == "isinstance" and len(c_.args) == 2 and short(c_.args[1]) == anc.name for c_ in walk_own(a_eq.node))
                own_eq = ci.methods.get("__eq__")
                falls_back = own_eq is None or any(isinstance(c_, ast.Call) and isinstance(c_.func, ast.Attribute) and c_.func.attr == "__eq__" and isinstance(c_.func.value, ast.Call) and call_name(c_.func.value) == "super" for c_ in walk_own(own_eq.node))
                if not (cross and falls_back):
                    continue
                def _ret(fn):
                    rr = [r.value for r in walk_own(fn.node) if isinstance(r, ast.Return) and r.value is not None]
                    return ast.dump(rr[0], annotate_fields=False) if len(rr) == 1 else None
                delegates = any(isinstance(c_, ast.Call) and isinstance(c_.func, ast.Attribute) and c_.func.attr == "__hash__" and isinstance(c_.func.value, ast.Call) and call_name(c_.func.value) == "super" for c_ in walk_own(own_hash.node))
                same = delegates or (_ret(own_hash) is not None and _ret(own_hash) == _ret(a_hash))
                out.append(Instance("R-VALUEOBJ", f"{ci.qual}#HASHOVERRIDE:{anc.name}", OK if same else BAD,
                                    f"__hash__ agrees with {anc.name}.__hash__" if same else
                                    f"{ci.name} compares equal to any {anc.name} with the same fields ({anc.name}.__eq__ tests isinstance(other, {anc.name})) but hashes `{short(next((r.value for r in walk_own(own_hash.node) if isinstance(r, ast.Return) and r.value is not None), own_hash.node), 40)}` instead of what {anc.name}.__hash__ hashes: equal values land in different dict slots", own_hash.where()))
                break

        # PICKLEKEYS
        gs = _own_or_inherited(ci, "__getstate__")
        ss = _own_or_inherited(ci, "__setstate__")
        if gs is not None or ss is not None:
            cid = f"{ci.qual}#PICKLEKEYS"
            if gs is None or ss is None:
                out.append(Instance("R-VALUEOBJ", cid, BAD, "__getstate__/__setstate__ not defined as a pair", where))
            else:
                keys: Optional[Set[str]] = None
                for n in walk_own(gs[1].node):
                    if isinstance(n, ast.Return) and isinstance(n.value, ast.Dict):
                        keys = {k.value for k in n.value.keys if isinstance(k, ast.Constant)}
                state_name = ss[1].positional_params()[1].arg if len(ss[1].positional_params()) > 1 else "state"
                read: Set[str] = set()
                splat = False
                for n in walk_own(ss[1].node):
                    if isinstance(n, ast.Subscript) and isinstance(n.value, ast.Name) and n.value.id == state_name and isinstance(n.slice, ast.Constant):
                        read.add(n.slice.value)
                    if isinstance(n, ast.Call) and any(k.arg is None and isinstance(k.value, ast.Name) and k.value.id == state_name for k in n.keywords):
                        splat = True
                        if isinstance(n.func, ast.Attribute) and n.func.attr == "__init__":
                            init = ci.find_method("__init__")
                            if init is not None:
                                read |= set(init.param_names()[1:]) & (keys or set())
                                extra = (keys or set()) - set(init.param_names()[1:])
                                if extra:
                                    out.append(Instance("R-VALUEOBJ", cid, BAD, f"__getstate__ keys {sorted(extra)} are not parameters of __init__", gs[1].where()))
                                    keys = None
                if keys is None:
                    if not any(i.construct == cid for i in out):
                        out.append(Instance("R-VALUEOBJ", cid, UNDET, "__getstate__ does not return a dict literal", gs[1].where()))
                elif keys != read:
                    out.append(Instance("R-VALUEOBJ", cid, BAD, f"__getstate__ writes keys {sorted(keys)} but __setstate__ consumes {sorted(read)}", ss[1].where()))
                else:
                    # keys must cover the fields __eq__ compares
                    ok = True
                    if eq is not None and eq.conj:
                        init = ci.find_method("__init__")
                        covered: Set[str] = set()
                        for f_, rs in roots.items():
                            if rs & keys:
                                covered.add(f_)
                        miss = sorted(f_ for f_ in eq.conj if f_ not in covered and f_.lstrip("_") not in keys)
                        if miss:
                            ok = False
                            out.append(Instance("R-VALUEOBJ", cid, BAD, f"pickled state {sorted(keys)} does not cover __eq__ fields {miss}", gs[1].where()))
                    if ok:
                        out.append(Instance("R-VALUEOBJ", cid, OK, f"pickle keys {sorted(keys)} written and consumed{' via __init__(**state)' if splat else ''}", gs[1].where()))

        # REDUCEARGS: a custom __reduce__ re-runs the constructor; every constructor parameter that
        # feeds a field __eq__ compares must be passed back
        rd = _own_or_inherited(ci, "__reduce__")
        if rd is not None:
            cid = f"{ci.qual}#REDUCEARGS"
            init = ci.find_method("__init__")
            rets = [n for n in walk_own(rd[1].node) if isinstance(n, ast.Return) and n.value is not None]
            if init is None or not rets:
                out.append(Instance("R-VALUEOBJ", cid, UNDET, "__reduce__ without a resolvable constructor / return", rd[1].where()))
            for r in rets if init is not None else []:
                v = r.value
                if not (isinstance(v, ast.Tuple) and len(v.elts) >= 2 and isinstance(v.elts[1], ast.Tuple) and not any(isinstance(e, ast.Starred) for e in v.elts[1].elts)):
                    out.append(Instance("R-VALUEOBJ", cid, UNDET, "__reduce__ does not return (callable, (args...)) literally", rd[1].where(r)))
                    continue
                callee = v.elts[0]
                same = (isinstance(callee, ast.Name) and callee.id in {c.name for c in ci.mro()}) or src(callee) in ("type(self)", "self.__class__")
                if not same or len(v.elts) > 2:
                    out.append(Instance("R-VALUEOBJ", cid, UNDET, f"__reduce__ rebuilds through {src(callee)} / carries extra state", rd[1].where(r)))
                    continue
                params = init.param_names()[1:]
                passed = set(params[: len(v.elts[1].elts)])
                need: Set[str] = set()
                for f_ in (eq.conj if eq is not None else set()):
                    need |= {p_ for p_ in roots.get(f_, set()) if p_ in params}
                miss = sorted(need - passed)
                out.append(Instance("R-VALUEOBJ", cid, BAD if miss else OK,
                                    f"__reduce__ of {ci.name} passes {sorted(passed)} to the constructor but parameter(s) {miss} feed fields compared by __eq__: the unpickled copy falls back to their defaults and differs from the original" if miss
                                    else f"__reduce__ passes every constructor parameter that feeds an __eq__ field ({sorted(need)})", rd[1].where(r)))
    return out


# ---------------------------------------------------------------------------------------------
# R-CACHE
# ---------------------------------------------------------------------------------------------

CACHE_CLASSES_EVICTING = {"LRUCache", "TTLCache", "LFUCache", "FIFOCache", "RRCache", "MRUCache", "TLRUCache", "WeakValueDictionary", "WeakKeyDictionary"}


def _cached_decorator(fi: FuncInfo) -> Optional[ast.Call]:
    for d in fi.decorators:
        if isinstance(d, ast.Call) and (dotted(d.func) or "").split(".")[-1] == "cached":
            return d
    return None


def rule_cache(prog: Program) -> List[Instance]:
    out: List[Instance] = []
    crs_mod = prog.module("crs")
    n_cached = 0
    for fi in prog.all_functions():
        dec = _cached_decorator(fi)
        if dec is None:
            continue
        n_cached += 1
        keyexpr = next((k.value for k in dec.keywords if k.arg == "key"), None)
        cache_expr = dec.args[0] if dec.args else next((k.value for k in dec.keywords if k.arg == "cache"), None)
        where = fi.where()
        if keyexpr is None:
            out.append(Instance("R-CACHE", f"{fi.qual}#KEYCOMPLETE", INFO, "default cachetools key hashes every argument", where, nontrivial=False))
            continue
        kf = prog.resolve_name_expr(keyexpr, fi.mod, fi)
        if isinstance(keyexpr, ast.Lambda):
            kf = getattr(keyexpr, "_fi", None)
        if not isinstance(kf, FuncInfo):
            out.append(Instance("R-CACHE", f"{fi.qual}#KEYCOMPLETE", UNDET, f"key function `{short(keyexpr)}` not resolved", where))
            continue
        # KEYCOMPLETE
        fparams = [p for p in fi.param_names() if p not in ("self",)]
        kparams = kf.param_names()
        used = {n.id for r in walk_own(kf.node) if isinstance(r, ast.Return) and r.value is not None for n in ast.walk(r.value) if isinstance(n, ast.Name)}
        # parameters read anywhere on the way to a return also count (isinstance dispatch)
        used_any = {n.id for n in walk_own(kf.node) if isinstance(n, ast.Name)}
        missing = [p for p in kparams if p not in used_any]
        if len(kparams) != len(fparams):
            out.append(Instance("R-CACHE", f"{fi.qual}#KEYCOMPLETE", BAD, f"key function takes {kparams} but cached function takes {fparams}", kf.where()))
        elif missing:
            out.append(Instance("R-CACHE", f"{fi.qual}#KEYCOMPLETE", BAD, f"key function {kf.qual} ignores parameter(s) {missing}: calls differing only there share a cache entry", kf.where()))
        else:
            # every parameter must reach every non-dispatch return for pure tuple keys
            rets = [r for r in walk_own(kf.node) if isinstance(r, ast.Return) and r.value is not None]
            only_tuple = len(rets) == 1 and isinstance(rets[0].value, ast.Tuple)
            if only_tuple:
                # a parameter unpacked into locals first (`src, dst = crs_pair`) reaches the key through them
                korg = Origins(kf)
                used = used | {r_ for n_ in ast.walk(rets[0].value) if isinstance(n_, ast.Name) for r_ in korg.roots(n_)}
            if only_tuple and set(kparams) - used:
                out.append(Instance("R-CACHE", f"{fi.qual}#KEYCOMPLETE", BAD, f"key tuple `{short(rets[0].value)}` omits {sorted(set(kparams) - used)}", kf.where()))
            else:
                out.append(Instance("R-CACHE", f"{fi.qual}#KEYCOMPLETE", OK, f"key function {kf.qual} reads every parameter {kparams}", kf.where()))

        # KEYNORM: a lossy normalisation in the key (case folding, stripping) merges differently spelled
        # arguments into one entry, so the cached value must be normalised under the same test - otherwise
        # the value (and everything derived from it: str, hash, token) depends on which spelling came first
        out.extend(_keynorm(fi, kf, prog))

        # CRS-tagged parameters: the key must distinguish their CRS (the whole object or its .crs),
        # otherwise a hit returns a result computed for a look-alike in another CRS and skips the guard
        from .crsguard import TAGGED
        for cp_, kp_ in zip([x for x in fi.params() if x.arg != "self"], kf.params()):
            direct, contained = prog.ann_classes(cp_.annotation, fi.mod)
            if not ((direct | contained) & TAGGED):
                continue
            whole = any(isinstance(n, ast.Name) and n.id == kp_.arg and not isinstance(getattr(n, "_parent", None), ast.Attribute) for r in walk_own(kf.node) if isinstance(r, ast.Return) and r.value is not None for n in ast.walk(r.value))
            crs_read = any(isinstance(n, ast.Attribute) and n.attr in ("crs", "_crs") and isinstance(n.value, ast.Name) and n.value.id == kp_.arg for n in walk_own(kf.node))
            okc = whole or crs_read
            out.append(Instance("R-CACHE", f"{fi.qual}#KEYCRS:{cp_.arg}", OK if okc else BAD,
                                f"cache key distinguishes the CRS of `{cp_.arg}`" if okc else f"cache key of {fi.qual} ignores the CRS of CRS-tagged parameter `{cp_.arg}`: a hit returns the result computed for a look-alike in another CRS and bypasses the CRS check", kf.where()))
        # KEYCANON: every return is a canonical primitive
        org = Origins(kf)
        cond = Conditions(kf.body)
        for i, r in enumerate(r for r in walk_own(kf.node) if isinstance(r, ast.Return) and r.value is not None):
            v = r.value
            conds = ";".join(k for k, pol in cond.conds_at(r) if pol and "isinstance" in k)
            cid = f"{kf.qual}#KEYCANON:{short(v, 40)}|{conds}"
            verdict, why = _canonical_key(v, r, kf, cond, fi)
            out.append(Instance("R-CACHE", cid, verdict, why, kf.where(r)))

        # IDPIN
        uses_id = [n for n in walk_own(kf.node) if isinstance(n, ast.Call) and isinstance(n.func, ast.Name) and n.func.id == "id"]
        if uses_id:
            out += _idpin(prog, fi, kf, uses_id)
        # cache container of a function whose results are pinned
        if cache_expr is not None:
            out += _cache_container(prog, fi, cache_expr)
    if n_cached == 0:
        out.append(Instance("R-CACHE", "crs#cached-functions", UNDET, "no cachetools.cached function found", crs_mod.relpath))
    out += _transformer_order(prog)
    return out


FOLDS = {"upper", "lower", "casefold", "strip", "title"}


def _cond_sig(cs) -> Set[Tuple[str, Tuple]]:
    """Signature of the call-shaped tests that hold at a point: (method, constant arguments)."""
    sig: Set[Tuple[str, Tuple]] = set()
    for e, p in cs:
        neg = False
        while isinstance(e, ast.UnaryOp) and isinstance(e.op, ast.Not):
            e, neg = e.operand, not neg
        if isinstance(e, ast.Call) and (p != neg):
            sig.add((call_name(e), tuple(a.value for a in e.args if isinstance(a, ast.Constant))))
    return sig


def _fold_sites(fn: FuncInfo) -> List[Tuple[str, Set[Tuple[str, Tuple]], ast.AST]]:
    """(fold method, condition signature, statement) for every return/assignment whose value is a
    folded string (directly `x.upper()` or a name bound to one)."""
    from .guards import conds_at

    folded: Dict[str, str] = {}

    def fold_of(v: Optional[ast.AST]) -> Optional[str]:
        """The case fold a string value has been through: `x.upper()`, a name bound to one, a further
        spelling-preserving string method on one (`folded.strip()`), or text rebuilt from a parsed integer
        (`f"EPSG:{int(...)}"`: spelling-free, matches any fold)."""
        if isinstance(v, ast.Call) and isinstance(v.func, ast.Attribute):
            if v.func.attr in FOLDS:
                return fold_of(v.func.value) or v.func.attr
            if v.func.attr in ("strip", "lstrip", "rstrip", "replace", "removeprefix", "removesuffix"):
                return fold_of(v.func.value)
        if isinstance(v, ast.Name) and v.id in folded:
            return folded[v.id]
        if isinstance(v, ast.JoinedStr):
            parts = [fold_of(x.value) or ("*" if _is_parsed_int(x.value) else None) for x in v.values if isinstance(x, ast.FormattedValue)]
            if parts and all(parts):
                named = [x for x in parts if x != "*"]
                return named[0] if named else "*"
        return None

    int_names: Set[str] = set()

    def _is_parsed_int(v: ast.AST) -> bool:
        if isinstance(v, ast.Call) and call_name(v) == "int":
            return True
        return isinstance(v, ast.Name) and v.id in int_names

    for _ in range(3):
        for n in walk_own(fn.node):
            if isinstance(n, ast.Assign) and len(n.targets) == 1 and isinstance(n.targets[0], ast.Name):
                if isinstance(n.value, ast.Call) and call_name(n.value) == "int":
                    int_names.add(n.targets[0].id)
                if isinstance(n.value, ast.Call) and isinstance(n.value.func, ast.Attribute) and n.value.func.attr in FOLDS and fold_of(n.value.func.value) is None:
                    folded[n.targets[0].id] = n.value.func.attr
    primary = set(folded)
    cond = Conditions(fn.body)
    out = []
    for n in walk_own(fn.node):
        v = None
        if isinstance(n, ast.Return):
            v = n.value
        elif isinstance(n, ast.Assign) and len(n.targets) == 1 and isinstance(n.targets[0], ast.Name) and n.targets[0].id not in primary:
            v = n.value
        if v is None:
            continue
        # `return text, code`: each component of a returned tuple is a value of its own
        comps = [v]
        if isinstance(n, ast.Return) and isinstance(v, ast.Tuple):
            comps = list(v.elts)
        elif isinstance(n, ast.Return) and isinstance(v, ast.Call) and isinstance(v.func, ast.Name) and v.func.id[:1] in "_ABCDEFGHIJKLMNOPQRSTUVWXYZ" and v.func.id.lstrip("_")[:1].isupper():
            comps = list(v.args) + [k.value for k in v.keywords]  # `return _Info(a, b, c)`: a record of the same components
        for v_ in comps:
            m = fold_of(v_)
            if m is None:
                continue
            out.append((m, _cond_sig(conds_at(cond, n)), n))
    return out


def _keynorm(fi: FuncInfo, kf: FuncInfo, prog: Optional[Program] = None) -> List[Instance]:
    out: List[Instance] = []
    ksites = [x for x in _fold_sites(kf) if isinstance(x[2], ast.Return)]
    if not ksites:
        return out
    vsites = _fold_sites(fi)
    own_n = len(vsites)
    if prog is not None:
        # the value may be normalised by a private helper the cached function calls
        seen_h = {fi.qual}
        for g, _n in prog.closure_nodes(fi):
            if g.qual not in seen_h:
                seen_h.add(g.qual)
                vsites = vsites + _fold_sites(g)
    for m, sig, st in ksites:
        csig = {s_ for s_ in sig if s_[0] not in ("isinstance",)}
        match = [v for v in vsites if v[0] in (m, "*") and {s_ for s_ in v[1] if s_[0] != "isinstance"} == csig]
        cid = f"{fi.qual}#KEYNORM:{m}|{','.join(sorted(f'{a}{list(b)}' for a, b in csig)) or 'always'}"
        if match:
            out.append(Instance("R-CACHE", cid, OK, f"key folds with .{m}() under {sorted(csig) or 'no condition'} and the cached value is folded under the same test", kf.where(st)))
        else:
            have = sorted({tuple(sorted(v[1])) for v in vsites if v[0] in (m, "*")})
            in_helper_only = any(v[0] in (m, "*") for v in vsites[own_n:]) and not any(v[0] in (m, "*") for v in vsites[:own_n])
            if in_helper_only:
                out.append(Instance("R-CACHE", cid, UNDET, f"the cached value is folded with .{m}() inside a private helper, under conditions this clause could not match with the key's ({have})", kf.where(st)))
                continue
            out.append(Instance("R-CACHE", cid, BAD,
                                f"the key is folded with .{m}() under {sorted(csig) or 'no condition'} but {fi.name} folds its result only under {have or 'nothing'}: differently spelled arguments share an entry whose value keeps the spelling that came first (history-dependent str/hash/token)", kf.where(st)))
    return out


def _canonical_key(v: ast.AST, ret: ast.Return, kf: FuncInfo, cond: Conditions, cached_fn: FuncInfo) -> Tuple[str, str]:
    params = set(kf.param_names())
    # primitive-typed parameters of the cached function (matched by position)
    prim: Set[str] = set()
    cparams = [p for p in cached_fn.params() if p.arg != "self"]
    for kp, cp in zip(kf.params(), cparams):
        a = cp.annotation
        if isinstance(a, ast.Name) and a.id in ("bool", "int", "str", "float"):
            prim.add(kp.arg)

    def canon(e: ast.AST) -> Optional[str]:
        if isinstance(e, ast.JoinedStr):
            return "f-string"
        if isinstance(e, ast.Constant):
            return "constant"
        if isinstance(e, ast.Tuple):
            subs = [canon(x) for x in e.elts]
            return "tuple" if all(subs) else None
        if isinstance(e, ast.Call):
            nm = call_name(e)
            if nm in ("id", "str", "int", "float", "bool", "upper", "lower", "to_wkt", "to_string", "hash", "format", "strip"):
                return f"{nm}()"
            return None
        if isinstance(e, ast.Name):
            if e.id in prim:
                return "primitive by annotation"
            if e.id in params:
                # raw parameter: canonical only under an isinstance(param, <primitive>) path condition
                for k, pol in cond.conds_at(ret):
                    if pol and k.replace(" ", "") in (f"isinstance({e.id},str)", f"isinstance({e.id},int)", f"isinstance({e.id},(str,int))", f"isinstance({e.id},bool)"):
                        return "primitive by isinstance"
                return None
            # local: all definitions canonical
            defs = []
            for n in walk_own(kf.node):
                if isinstance(n, ast.Assign) and any(isinstance(t, ast.Name) and t.id == e.id for t in n.targets):
                    defs.append(n.value)
            if defs and all(canon(d) for d in defs):
                return "local of canonical values"
            return None
        return None

    c = canon(v)
    if c is not None:
        return OK, f"returns canonical primitive ({c}): `{short(v, 50)}`"
    conds = [k for k, pol in cond.conds_at(ret) if pol]
    return BAD, (
        f"key function returns `{short(v, 50)}` as is (path condition {conds or 'none'}): key equality/hash become that object's "
        "__eq__/__hash__, so which spelling populated the cache first decides the result"
    )


def _idpin(prog: Program, fi: FuncInfo, kf: FuncInfo, uses_id: List[ast.Call]) -> List[Instance]:
    """id()-keyed cache: every object passed must stay alive for the process lifetime."""
    out: List[Instance] = []
    id_params = sorted({a.id for c in uses_id for a in c.args if isinstance(a, ast.Name)})
    pos = {p: i for i, p in enumerate(fi.param_names())}
    sites = prog.callers_of(fi)
    if not sites:
        out.append(Instance("R-CACHE", f"{fi.qual}#IDPIN:callsites", UNDET, "id()-keyed cached function has no resolved call site", fi.where()))
        return out
    pinned_attr: Set[str] = set()
    pinned_classes: Set[str] = set()
    for g, call in sites:
        for p in id_params:
            i = pos[p]
            arg = call.args[i] if i < len(call.args) else next((k.value for k in call.keywords if k.arg == p), None)
            cid = f"{g.qual}->{fi.name}#IDPIN:{p}"
            if isinstance(arg, ast.Attribute):
                pinned_attr.add(arg.attr)
                for rc in prog.receiver_classes(arg.value, g):
                    pinned_classes.add(rc.qual)
                out.append(Instance("R-CACHE", cid, OK, f"passes `{short(arg)}` (field {arg.attr}, pinned below) for id()-keyed parameter {p}", g.where(call)))
            else:
                out.append(Instance("R-CACHE", cid, BAD, f"passes `{short(arg)}` for id()-keyed parameter {p}: a temporary can be garbage collected and its id reused", g.where(call)))
    # every assignment to those fields originates from a pinning cache or from the same field of another object
    for attr in sorted(pinned_attr):
        for g in prog.all_functions():
            me = g.self_name
            if me is None or g.owner_class is None or g.owner_class.qual not in pinned_classes:
                continue
            for n in walk_own(g.node):
                tgts: List[Tuple[ast.AST, ast.AST]] = []
                if isinstance(n, ast.Assign):
                    for t in n.targets:
                        tgts.append((t, n.value))
                for t, v in tgts:
                    elts = t.elts if isinstance(t, (ast.Tuple, ast.List)) else [t]
                    for idx, e in enumerate(elts):
                        if isinstance(e, ast.Attribute) and isinstance(e.value, ast.Name) and e.value.id == me and e.attr == attr:
                            if isinstance(t, (ast.Tuple, ast.List)) and isinstance(v, (ast.Tuple, ast.List)) and len(v.elts) == len(elts):
                                v = v.elts[idx]  # element-wise tuple assignment: this target receives this element
                            # the cached result may be held in a local first: info = _make_crs(spec); self._crs = info.proj / = info
                            base_ = v.value if isinstance(v, ast.Attribute) and isinstance(v.value, ast.Name) and v.attr != attr else v
                            if isinstance(base_, ast.Name):
                                ldefs = [a_.value for a_ in walk_own(g.node) if isinstance(a_, ast.Assign) and any(isinstance(t_, ast.Name) and t_.id == base_.id for t_ in a_.targets)]
                                def _copy_of_pinned(d_: ast.AST) -> bool:
                                    # a record built from another object's own pinned field: _Info(other._crs, other._str, ..)
                                    return isinstance(d_, ast.Call) and bool(d_.args) and isinstance(d_.args[0], ast.Attribute) and d_.args[0].attr == attr
                                cached_ = [d_ for d_ in ldefs if isinstance(d_, ast.Call) and not _copy_of_pinned(d_)]
                                if ldefs and all(isinstance(d_, ast.Call) for d_ in ldefs) and cached_ and len({short(d_.func) for d_ in cached_}) == 1:
                                    v = cached_[0]
                            cid = f"{g.qual}#IDPIN:{attr}<-{short(v, 40)}"
                            src_ok = False
                            why = ""
                            if isinstance(v, ast.Attribute) and v.attr == attr:
                                src_ok, why = True, "copied from the same pinned field of another object"
                            elif isinstance(v, ast.Call):
                                cal = prog.resolve_call(v, g)
                                if cal and all(_cached_decorator(c) is not None for c in cal):
                                    src_ok, why = True, f"taken from the result of cached {cal[0].qual} (cache keeps it alive)"
                                    # ... provided every caller receives the object that stays in the cache: without lock=
                                    # cachetools computes, stores and returns per thread, so two first callers each get
                                    # their own object and only the later one is pinned
                                    for c in cal:
                                        dec = _cached_decorator(c)
                                        locked = dec is not None and any(k.arg == "lock" and not (isinstance(k.value, ast.Constant) and k.value.value is None) for k in dec.keywords)
                                        acid = f"{c.qual}#IDPIN-ATOMIC"
                                        if not any(i.construct == acid for i in out):
                                            out.append(Instance("R-CACHE", acid, OK if locked else BAD,
                                                                f"pinning cache of {c.name} publishes under a lock: every caller gets the stored object" if locked else
                                                                f"{c.name} mints objects whose id() becomes a cache key but is memoised without lock=: two threads constructing the same new spec each receive their own object, only one of which the cache keeps alive; the other's id() can be reused while it is still a transformer-cache key", c.where()))
                            if src_ok:
                                out.append(Instance("R-CACHE", cid, OK, f"self.{attr} {why}", g.where(n)))
                            else:
                                out.append(Instance("R-CACHE", cid, BAD, f"self.{attr} assigned from `{short(v)}`, not from the pinning cache: object may die while its id() is a live cache key", g.where(n)))
    return out


def _cache_container(prog: Program, fi: FuncInfo, cache_expr: ast.AST) -> List[Instance]:
    out: List[Instance] = []
    cid = f"{fi.qual}#CACHEPLAIN"
    where = fi.where()
    val: Optional[ast.AST] = cache_expr
    name: Optional[str] = None
    if isinstance(cache_expr, ast.Name):
        name = cache_expr.id
        vals = fi.mod.assigns.get(name, [])
        if len(vals) != 1:
            out.append(Instance("R-CACHE", cid, BAD if len(vals) > 1 else UNDET, f"cache `{name}` is bound {len(vals)} times at module level", where))
            return out
        val = vals[0]
    plain = isinstance(val, ast.Dict) and not val.keys or (isinstance(val, ast.Call) and call_name(val) == "dict" and not val.args)
    if not plain:
        nm = call_name(val) if isinstance(val, ast.Call) else type(val).__name__
        verdict = BAD if nm in CACHE_CLASSES_EVICTING else UNDET
        out.append(Instance("R-CACHE", cid, verdict, f"cache container is `{short(val)}`: an evicting cache drops objects whose id() is still used as a key elsewhere", where))
        return out
    # no eviction anywhere in the package
    evict: List[str] = []
    if name is not None:
        for g in prog.all_functions():
            for n in walk_own(g.node):
                if isinstance(n, ast.Call) and isinstance(n.func, ast.Attribute) and isinstance(n.func.value, ast.Name) and n.func.value.id == name and n.func.attr in ("clear", "pop", "popitem"):
                    evict.append(f"{g.qual}: {short(n)}")
                if isinstance(n, ast.Delete):
                    for t in n.targets:
                        if name in names_in(t):
                            evict.append(f"{g.qual}: {short(n)}")
                if isinstance(n, ast.Global) and name in n.names:
                    evict.append(f"{g.qual}: global {name}")
    if evict:
        out.append(Instance("R-CACHE", cid, BAD, f"cache `{name}` can be emptied: {evict[:3]}", where))
    else:
        out.append(Instance("R-CACHE", cid, OK, f"cache `{name or short(cache_expr)}` is a plain dict that is never cleared, popped or rebound", where))
    # cached value must hold the object itself (strong reference)
    return out


def _transformer_order(prog: Program) -> List[Instance]:
    """source/target order:  CRS.transformer_to_crs(self -> other) -> _make_crs_transform(from, to)
    -> Transformer.from_crs(from, to);  Geometry._to_crs: receiver is the source CRS."""
    out: List[Instance] = []
    t2c = prog.func("crs:CRS.transformer_to_crs")
    mk = prog.func("crs:_make_crs_transform")
    org = Origins(t2c)
    me = t2c.self_name
    pp = [p.arg for p in t2c.positional_params()]
    other = pp[1] if len(pp) > 1 else None
    found = False
    for n in walk_own(t2c.node):
        if isinstance(n, ast.Call) and mk in prog.resolve_call(n, t2c):
            found = True
            a0 = org.roots(n.args[0]) if len(n.args) > 0 else set()
            a1 = org.roots(n.args[1]) if len(n.args) > 1 else set()
            ok = a0 == {me} and a1 == {other}
            out.append(Instance("R-CACHE", "crs:CRS.transformer_to_crs#ORDER", OK if ok else BAD,
                                f"passes (self, {other}) as (from, to)" if ok else f"source/target swapped or mixed: `{short(n)}`", t2c.where(n)))
            ax = next((k.value for k in n.keywords if k.arg == "always_xy"), n.args[2] if len(n.args) > 2 else None)
            okx = isinstance(ax, ast.Name) and ax.id == "always_xy"
            out.append(Instance("R-CACHE", "crs:CRS.transformer_to_crs#ALWAYSXY", OK if okx else BAD,
                                "forwards always_xy" if okx else f"always_xy not forwarded: `{short(n)}`", t2c.where(n)))
    if not found:
        out.append(Instance("R-CACHE", "crs:CRS.transformer_to_crs#ORDER", UNDET, "call to _make_crs_transform not found", t2c.where()))
    mp = [p.arg for p in mk.positional_params()]
    found = False
    for n in walk_own(mk.node):
        if isinstance(n, ast.Call) and call_name(n) == "from_crs":
            found = True
            names = [a.id if isinstance(a, ast.Name) else None for a in n.args[:2]]
            ok = names == mp[:2]
            out.append(Instance("R-CACHE", "crs:_make_crs_transform#ORDER", OK if ok else BAD,
                                f"Transformer.from_crs({', '.join(mp[:2])})" if ok else f"arguments not in (from, to) order: `{short(n)}`", mk.where(n)))
            ax = next((k.value for k in n.keywords if k.arg == "always_xy"), None)
            okx = isinstance(ax, ast.Name) and ax.id == (mp[2] if len(mp) > 2 else "always_xy")
            out.append(Instance("R-CACHE", "crs:_make_crs_transform#ALWAYSXY", OK if okx else BAD,
                                "forwards always_xy" if okx else f"always_xy not forwarded: `{short(n)}`", mk.where(n)))
    if not found:
        out.append(Instance("R-CACHE", "crs:_make_crs_transform#ORDER", UNDET, "Transformer.from_crs call not found", mk.where()))
    g2c = prog.func("geom:Geometry._to_crs")
    found = False
    for n in walk_own(g2c.node):
        if isinstance(n, ast.Call) and call_name(n) == "transformer_to_crs":
            found = True
            recv = n.func.value if isinstance(n.func, ast.Attribute) else None
            o2 = Origins(g2c)
            r = o2.roots(recv) if recv is not None else set()
            a = o2.roots(n.args[0]) if n.args else set()
            crsp = [p.arg for p in g2c.positional_params()][1]
            ok = r == {g2c.self_name} and a == {crsp}
            out.append(Instance("R-CACHE", "geom:Geometry._to_crs#ORDER", OK if ok else BAD,
                                "own CRS is the source, requested CRS the target" if ok else f"source/target swapped: `{short(n)}`", g2c.where(n)))
    if not found:
        out.append(Instance("R-CACHE", "geom:Geometry._to_crs#ORDER", UNDET, "transformer_to_crs call not found", g2c.where()))
    return out


# ---------------------------------------------------------------------------------------------
# R-PICKLE: state that the default pickle protocol cannot carry; serialised-form variants
# ---------------------------------------------------------------------------------------------
def rule_pickle_state(prog: Program, modules: Optional[Set[str]] = None) -> List[Instance]:
    """CLOSURE-STATE: a class pickled through the default protocol (no __getstate__/__reduce__) must
    not store a lambda or a function defined inside a method in an instance attribute: pickle
    refuses local objects, so every holder of such an instance becomes unpicklable (F19).

    GEOJSON-VARIANTS: Geometry is pickled as its GeoJSON mapping and rebuilt through __init__; a
    GeoJSON geometry object carries either "coordinates" or (GeometryCollection) "geometries", so a
    reader on the rebuild path that requires "coordinates" must also handle "geometries" (F20)."""
    out: List[Instance] = []
    for mname, mi in sorted(prog.modules.items()):
        if modules is not None and mname not in modules:
            continue
        for ci in mi.classes.values():
            custom = any(_own_or_inherited(ci, m) is not None for m in ("__getstate__", "__reduce__", "__reduce_ex__"))
            bad: List[Tuple[str, ast.AST, FuncInfo]] = []
            nstores = 0
            for fn in ci.methods.values():
                local_defs = {n.name for n in ast.walk(fn.node) if isinstance(n, (ast.FunctionDef, ast.AsyncFunctionDef)) and n is not fn.node}
                selfname = fn.param_names()[0] if fn.param_names() else "self"
                for n in ast.walk(fn.node):
                    tgt_val: List[Tuple[ast.AST, ast.AST]] = []
                    if isinstance(n, ast.Assign):
                        tgt_val = [(t, n.value) for t in n.targets]
                    elif isinstance(n, ast.AnnAssign) and n.value is not None:
                        tgt_val = [(n.target, n.value)]
                    for t, v in tgt_val:
                        if not (isinstance(t, ast.Attribute) and isinstance(t.value, ast.Name) and t.value.id == selfname):
                            continue
                        nstores += 1
                        vals = [v] + ([v.body, v.orelse] if isinstance(v, ast.IfExp) else [])
                        for x in vals:
                            if isinstance(x, ast.Lambda) or (isinstance(x, ast.Name) and x.id in local_defs):
                                bad.append((t.attr, n, fn))
                            elif isinstance(x, ast.Call) and call_name(x) == "partial" and x.args and (isinstance(x.args[0], ast.Lambda) or (isinstance(x.args[0], ast.Name) and x.args[0].id in local_defs)):
                                bad.append((t.attr, n, fn))
            if nstores == 0:
                continue
            cid = f"{ci.qual}#CLOSURE-STATE"
            if bad and not custom:
                for attr, n, fn in bad:
                    out.append(Instance("R-PICKLE", f"{cid}:{attr}", BAD,
                                        f"{ci.name}.{attr} holds a function local to {fn.name}(); the class has no __getstate__/__reduce__, so pickling any object that holds a {ci.name} fails with \"Can't pickle local object\"", fn.where(n)))
            else:
                out.append(Instance("R-PICKLE", cid, OK, f"{ci.name}: {nstores} instance-attribute stores, none holds a local function" + (" (custom pickle protocol)" if custom else ""), f"{ci.mod.relpath}:{ci.node.lineno}"))
    # GEOJSON-VARIANTS
    try:
        init = prog.func("geom:Geometry.__init__")
    except Exception:  # anchor check happens in the property function
        init = None
    if init is not None and (modules is None or "geom" in modules):
        seen = prog.reachable([init])
        n_readers = 0
        for fi in seen:
            if fi.mod.name != "geom":
                continue
            req = []
            for n in walk_own(fi.node):
                if isinstance(n, ast.Compare) and isinstance(n.left, ast.Constant) and n.left.value == "coordinates" and any(isinstance(o, ast.In) for o in n.ops):
                    req.append(n)
                if isinstance(n, ast.Subscript) and isinstance(n.slice, ast.Constant) and n.slice.value == "coordinates" and isinstance(n.ctx, ast.Load):
                    req.append(n)
            if not req:
                continue
            n_readers += 1
            alt = any(isinstance(n, ast.Constant) and n.value == "geometries" for n in walk_own(fi.node))
            out.append(Instance("R-PICKLE", f"{fi.qual}#GEOJSON-VARIANTS", OK if alt else BAD,
                                "GeoJSON reader on the Geometry rebuild path handles both `coordinates` and `geometries` (GeometryCollection) members" if alt else
                                f"{fi.qual} is on the path Geometry.__setstate__ -> __init__ and requires a `coordinates` member: a Geometry holding a GeometryCollection (GeoJSON member `geometries`) cannot be unpickled or deep-copied", fi.where(req[0])))
        if n_readers == 0:
            out.append(Instance("R-PICKLE", "geom:Geometry.__init__#GEOJSON-VARIANTS", INFO, "no reader on the rebuild path names GeoJSON members explicitly", init.where()))
    return out


def rule_taskname(prog: Program, modules: Optional[Set[str]] = None) -> List[Instance]:
    """NAMECOMPLETE: dask identifies a task by its key, and the graphs of array collections computed
    together are merged key by key. A function that hand-builds the graph of a dask *array* and derives
    the layer name from `tokenize(...)` promises "same name => same result": every parameter that flows
    into the task definitions must reach the name. A parameter left out makes two calls that differ
    only in it share keys, and one silently receives the other's blocks. A uuid-based name is always
    unique and passes. (Bags handed to `delayed` are fused per collection before graphs merge, which
    is why the rule is limited to array graphs - checked against the real code.)"""
    out: List[Instance] = []
    for fi in prog.all_functions(modules):
        hlg = [n for n in walk_own(fi.node) if isinstance(n, ast.Call) and (dotted(n.func) or "").endswith("HighLevelGraph.from_collections") and len(n.args) >= 2]
        arr = [n for n in walk_own(fi.node) if isinstance(n, ast.Call) and (dotted(n.func) or "").split(".")[-1] == "Array"]
        if not hlg or not arr:
            continue
        org = Origins(fi)
        params = [p for p in fi.param_names() if p not in ("self", "cls")]
        name_e, graph_e = hlg[0].args[0], hlg[0].args[1]
        cid = f"{fi.qual}#NAMECOMPLETE"
        name_names = org.deps_names(name_e)
        name_defs = [v for nm in name_names for _, v in org.defs.get(nm, [])] + [name_e]
        calls = {call_name(c) for v in name_defs for c in ast.walk(v) if isinstance(c, ast.Call)}
        if calls & {"uuid4", "uuid1", "token_hex"}:
            out.append(Instance("R-CACHE", cid, OK, f"layer name `{short(name_e)}` carries a fresh unique id: keys cannot collide", fi.where(hlg[0])))
            continue
        if "tokenize" not in calls:
            out.append(Instance("R-CACHE", cid, BAD, f"layer name `{short(name_e)}` is neither unique (uuid) nor derived from the inputs (tokenize): every call produces the same keys", fi.where(hlg[0])))
            continue
        covered = org.deps(name_e)
        flows: Set[str] = set()
        gname = graph_e.id if isinstance(graph_e, ast.Name) else None
        for n in walk_own(fi.node):
            if isinstance(n, ast.Assign) and isinstance(n.targets[0], ast.Subscript) and isinstance(n.targets[0].value, ast.Name) and n.targets[0].value.id == gname:
                flows |= org.deps(n.value)
        for nf in fi.nested.values():
            pass
        missing = sorted(p_ for p_ in flows - covered if p_ in params)
        out.append(Instance("R-CACHE", cid, BAD if missing else OK,
                            f"layer name `{short(name_e)}` is a token of {sorted(covered)} but the task definitions also depend on parameter(s) {missing}: two calls differing only there share task keys and, computed together, one receives the other's blocks" if missing
                            else f"every parameter that reaches the task definitions reaches the layer name ({sorted(flows & set(params))})", fi.where(hlg[0])))
    return out
