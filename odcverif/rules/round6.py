"""Clauses written after the round-6 seeds.  Discipline of this round (DESIGN section 6): a clause reports BAD only on
positive evidence - a construct that is present and wrong - and says nothing (OK / INFO / UNDET) when the construct it
looks for is absent or spelled in a way it does not read."""
from __future__ import annotations

import ast
from typing import List, Optional, Set

from ..astutil import Origins, call_name, expand_locals, names_in
from ..cfg import Conditions
from ..loader import FuncInfo, Program, enclosing_stmt, parent, short, walk_own
from ..report import BAD, INFO, OK, UNDET, Instance
from .guards import conds_at


def wrapper_keyword_operands(prog: Program) -> List[Instance]:
    """C01-r6s2. A CRS-wrapping decorator that unwraps keyword operands (`{k: v.geom for k, v in kwargs.items()}`, `kwargs[k].geom`)
    treats them as geometry operands: they have to take part in the CRS comparison. Accepted: the keyword operands are first
    merged into the positional stream the guard loops over (signature.bind), or the guard itself iterates over kwargs."""
    from .crsguard import discover

    _obs, wrappers = discover(prog)
    out: List[Instance] = []
    for dq, w in sorted(wrappers.items()):
        kw = w.args.kwarg.arg if w.args.kwarg is not None else None
        if kw is None:
            continue
        org = Origins(w)

        def site_roots(v: ast.AST) -> Set[str]:
            """roots of a name *at this site*: the iterable of the nearest enclosing comprehension / for-loop that binds it"""
            if isinstance(v, ast.Name):
                q = parent(v)
                while q is not None and q is not w.node:
                    gens = q.generators if isinstance(q, (ast.ListComp, ast.SetComp, ast.DictComp, ast.GeneratorExp)) else []
                    for g in gens:
                        if v.id in {t.id for t in ast.walk(g.target) if isinstance(t, ast.Name)}:
                            return set(org.roots(g.iter))
                    if isinstance(q, ast.For) and v.id in {t.id for t in ast.walk(q.target) if isinstance(t, ast.Name)}:
                        return set(org.roots(q.iter))
                    q = parent(q)
            return set(org.roots(v))

        unwrapped = [n for n in walk_own(w.node) if isinstance(n, ast.Attribute) and n.attr in ("geom", "_geom") and site_roots(n.value) == {kw}]
        if not unwrapped:
            out.append(Instance("R-CRSGUARD", f"{w.qual}#keyword-operands", OK, "keyword arguments are never unwrapped as geometry operands on their own", w.where(), nontrivial=False))
            continue
        compared = any(isinstance(n, ast.Compare) and any(isinstance(x, ast.Attribute) and x.attr in ("crs", "_crs") and kw in site_roots(x.value) for x in ast.walk(n)) for n in walk_own(w.node))
        out.append(Instance("R-CRSGUARD", f"{w.qual}#keyword-operands", OK if compared else BAD,
                            "keyword operands take part in the CRS comparison" if compared else
                            f"`{short(parent(unwrapped[0]) or unwrapped[0], 60)}` hands the raw shapes of keyword operands to shapely, but no CRS comparison involves `{kw}`: `a.intersection(other=b)` combines geometries of different CRSs silently", w.where(unwrapped[0])))
    return out


CACHE_FIELDS = {"_extent", "_lazy_ui", "_hash", "_footprint"}


def cache_field_not_copied(prog: Program) -> List[Instance]:
    """C02-r6s1. A lazily computed field of a geobox (`_extent`, ...) describes *that* geobox. It may be written through
    `self` (by the constructor, by the property that computes it) - writing it on another object (`gbox._extent = self._extent`)
    plants one object's answer in another."""
    out: List[Instance] = []
    n_sites = 0
    for fi in prog.all_functions({"geobox", "gcp"}):
        me = fi.self_name
        for n in walk_own(fi.node):
            if isinstance(n, ast.Assign):
                for t in n.targets:
                    for x in ([t] if not isinstance(t, (ast.Tuple, ast.List)) else t.elts):
                        if isinstance(x, ast.Attribute) and x.attr in CACHE_FIELDS and isinstance(x.value, ast.Name) and x.value.id != me:
                            n_sites += 1
                            none = isinstance(n.value, ast.Constant) and n.value.value is None
                            out.append(Instance("R-IMMUT", f"{fi.qual}#cache-copy:{x.value.id}.{x.attr}", OK if none else BAD,
                                                f"`{short(n, 50)}` only resets the cache" if none else
                                                f"`{short(n, 60)}` writes the lazily computed `{x.attr}` of another object: the new geobox answers with the footprint of the one it was derived from (its own pixel rectangle maps elsewhere)", fi.where(n)))
    if n_sites == 0:
        out.append(Instance("R-IMMUT", "geobox#cache-copy", OK, "no lazily computed field is written on an object other than self", "", nontrivial=False))
    return out


def to_crs_keeps_vertices(prog: Program) -> List[Instance]:
    """C07-r6s1. Geometry.to_crs maps every vertex (original and added by densification); nothing on that path may drop
    vertices again: simplify(), remove_repeated_points(), convex_hull, envelope applied to the projected result."""
    f = prog.func("geom:Geometry.to_crs")
    bad = [n for _g, n in prog.closure_nodes(f) if isinstance(n, ast.Call) and call_name(n) in ("simplify", "remove_repeated_points", "set_precision")]
    if not bad:
        return [Instance("R-GUARDSEQ", f"{f.qual}#keeps-vertices", OK, "no vertex-dropping operation (simplify / remove_repeated_points / set_precision) on the re-projection path", f.where())]
    return [Instance("R-GUARDSEQ", f"{f.qual}#keeps-vertices", BAD,
                     f"`{short(bad[0], 50)}` on the re-projection path removes vertices: collinear originals and every vertex densification added along meridians / parallels disappear, the result no longer has one vertex per (densified) input vertex", f.where(bad[0]))]


def zoom_to_resolution_as_requested(prog: Program) -> List[Instance]:
    """C08-r6s1. zoom_to(resolution=) promises exactly the requested pixel size *and orientation*: the value handed to
    from_bbox(resolution=) is the parameter (normalised by res_/resxy_/resyx_ at most), never re-signed or re-scaled."""
    f = prog.func("geobox:GeoBoxBase.compute_zoom_to")
    out: List[Instance] = []
    for n in walk_own(f.node):
        if isinstance(n, ast.Call) and call_name(n) == "from_bbox":
            rv = next((k.value for k in n.keywords if k.arg == "resolution"), None)
            if rv is None:
                continue
            exs = [expand_locals(f.node, rv, depth=4, keep={"resolution"})]
            if isinstance(rv, ast.Name):
                # a local bound more than once (`res = res_(resolution)` ... `res = Resolution(copysign(..))`): look at every definition
                for a in walk_own(f.node):
                    if isinstance(a, ast.Assign):
                        for t in a.targets:
                            if isinstance(t, ast.Name) and t.id == rv.id:
                                exs.append(expand_locals(f.node, a.value, depth=2, keep={"resolution", rv.id}))
                            elif isinstance(t, (ast.Tuple, ast.List)) and isinstance(a.value, (ast.Tuple, ast.List)) and len(t.elts) == len(a.value.elts):
                                for te, ve in zip(t.elts, a.value.elts):
                                    if isinstance(te, ast.Name) and te.id == rv.id:
                                        exs.append(expand_locals(f.node, ve, depth=2, keep={"resolution", rv.id}))
            meddling = [x for ex in exs for x in ast.walk(ex) if isinstance(x, ast.Call) and call_name(x) in ("copysign", "abs", "fabs", "Resolution", "map")]
            uses_param = any("resolution" in names_in(ex) for ex in exs)
            if not uses_param:
                out.append(Instance("R-GUARDSEQ", f"{f.qual}#resolution-as-requested", UNDET, f"`resolution={short(rv)}` does not visibly come from the parameter", f.where(n)))
                continue
            out.append(Instance("R-GUARDSEQ", f"{f.qual}#resolution-as-requested", BAD if meddling else OK,
                                f"`resolution={short(rv, 30)}` is rebuilt with `{short(meddling[0], 40)}` before the grid is made: sign / size of the requested resolution is replaced (a request for a north-up grid over a south-up source comes back south-up)" if meddling
                                else "the requested resolution reaches from_bbox unchanged", f.where(n)))
    return out


def snap_grid_every_path_snaps(prog: Program) -> List[Instance]:
    """C08-r6s2. snap_grid with an anchor (off_pix is not None) returns an origin produced by the snapping helper; a return
    that can be taken with an anchor and hands back a raw end point bypasses the anchor (pixel edges land on the raw coordinate)."""
    f = prog.func("math:snap_grid")
    pp = f.param_names()
    offp = pp[3] if len(pp) > 3 else "off_pix"
    cond = Conditions(f.body)
    out: List[Instance] = []
    for r in (n for n in walk_own(f.node) if isinstance(n, ast.Return) and isinstance(n.value, ast.Tuple) and len(n.value.elts) == 2):
        cs = conds_at(cond, r)
        none_side = any(isinstance(e, ast.Compare) and short(e.left) == offp and isinstance(e.comparators[0], ast.Constant) and e.comparators[0].value is None
                        and ((isinstance(e.ops[0], ast.Is) and p) or (isinstance(e.ops[0], ast.IsNot) and not p)) for e, p in cs)
        if none_side:
            continue
        first = expand_locals(f.node, r.value.elts[0], depth=4, keep=set(pp))
        via_snap = any(isinstance(x, ast.Call) and call_name(x) in ("_snap_edge", "_snap_edge_pos", "floor", "ceil", "maybe_int") for x in ast.walk(first)) \
            or any(isinstance(x, ast.Name) and any(isinstance(a, ast.Assign) and isinstance(a.value, ast.Call) and call_name(a.value) in ("_snap_edge", "_snap_edge_pos") and x.id in names_in(a.targets[0]) for a in walk_own(f.node)) for x in ast.walk(first))
        raw = isinstance(r.value.elts[0], ast.Name) and r.value.elts[0].id in pp[:2]
        if raw and not via_snap:
            out.append(Instance("R-SIGNROLE", f"{f.qual}#anchored-return:{short(r, 30)}", BAD,
                                f"`{short(r)}` can be taken with an anchor set and returns the raw end point `{short(r.value.elts[0])}`: the pixel edge lands on the coordinate itself instead of the anchored grid (points and axis-parallel lines are not snapped)", f.where(r)))
        else:
            out.append(Instance("R-SIGNROLE", f"{f.qual}#anchored-return:{short(r, 30)}", OK, "origin on the anchored path comes from the snapping helper", f.where(r)))
    return out


def label_affine_not_snapped(prog: Program) -> List[Instance]:
    """C09-r6s1. affine_from_axis turns coordinate labels back into the affine they were made from; it has no business snapping
    scale or translation to 'nice' numbers with absolute tolerances (an origin 1e-3 units off a whole number is moved)."""
    f = prog.func("math:affine_from_axis")
    bad = [n for n in walk_own(f.node) if isinstance(n, ast.Call) and call_name(n) in ("snap_affine", "snap_scale", "maybe_int", "round", "rint", "around")]
    if bad:
        return [Instance("R-GUARDSEQ", f"{f.qual}#labels-exact", BAD,
                         f"`{short(bad[0], 50)}` rounds what was recovered from the labels with an absolute tolerance: an origin within 1e-3 CRS units of a whole number (149.0004 degrees with 0.0001 degree pixels) moves by several pixels", f.where(bad[0]))]
    return [Instance("R-GUARDSEQ", f"{f.qual}#labels-exact", OK, "the affine recovered from coordinate labels is not snapped / rounded", f.where())]


def paste_read_scale_sibling(prog: Program) -> List[Instance]:
    """C10-r6s1. _can_paste validates the transform *after* the read shrink compute_reproject_roi will apply; both must get the
    factor from the same function (_pick_read_scale). A locally re-derived factor (round / int of the scale) can differ by one."""
    cp = prog.func("overlap:_can_paste")
    out: List[Instance] = []
    for n in walk_own(cp.node):
        if isinstance(n, ast.Call) and call_name(n) == "scale" and "Affine" in short(n.func) and n.args:
            ex = expand_locals(cp.node, n.args[0], depth=4, keep=set(cp.param_names()))
            calls = {call_name(x) for x in ast.walk(ex) if isinstance(x, ast.Call)}
            if "_pick_read_scale" in calls:
                out.append(Instance("R-SIBLING", f"{cp.qual}#read-scale-source", OK, "the shrink factor validated by _can_paste comes from _pick_read_scale, as the one compute_reproject_roi reports", cp.where(n)))
            elif calls & {"round", "int", "floor", "ceil", "trunc", "rint"}:
                out.append(Instance("R-SIBLING", f"{cp.qual}#read-scale-source", BAD,
                                    f"`{short(n, 50)}` uses a shrink factor derived locally ({sorted(calls & {'round', 'int', 'floor', 'ceil', 'trunc', 'rint'})}) while compute_reproject_roi reports _pick_read_scale(scale): for scales just below a whole number the two differ by one and paste_ok is reported for a transform that is not a whole-pixel shift at the reported read_shrink", cp.where(n)))
    if not out:
        out.append(Instance("R-SIBLING", f"{cp.qual}#read-scale-source", INFO, "no Affine.scale(1 / shrink) composition found in _can_paste", cp.where(), nontrivial=False))
    return out


def intersect3_overlap_from_both(prog: Program) -> List[Instance]:
    """C17-r6s2. slice_intersect3 returns (part of a, part of b, common region). On every return that is not the degenerate
    disjoint answer (a zero-length slice spelled `slice(e, e)`), the common region is built from BOTH operands: start from
    max() of the starts, stop from min() of the stops. A shortcut that hands back one operand's own bounds as the common
    region (`slice(a.start, a.stop)`: "a lies inside b") is wrong whenever that operand is empty or reversed."""
    f = prog.func("roi:slice_intersect3")
    out: List[Instance] = []
    pp = set(f.param_names())
    for r in (n for n in walk_own(f.node) if isinstance(n, ast.Return) and isinstance(n.value, ast.Tuple) and len(n.value.elts) == 3):
        third = r.value.elts[2]
        if not (isinstance(third, ast.Call) and call_name(third) == "slice" and len(third.args) >= 2):
            continue
        lo, hi = third.args[0], third.args[1]
        if ast.dump(lo) == ast.dump(hi):
            continue  # degenerate by construction
        lo_x, hi_x = expand_locals(f.node, lo, depth=3, keep=pp), expand_locals(f.node, hi, depth=3, keep=pp)
        both = lambda e: len({x.id for x in ast.walk(e) if isinstance(x, ast.Name) and x.id in pp}) >= 2  # noqa: E731
        raw_one = lambda e: isinstance(e, ast.Attribute) and isinstance(e.value, ast.Name) and e.value.id in pp  # noqa: E731
        if raw_one(lo_x) and raw_one(hi_x) and short(lo_x).split(".")[0] == short(hi_x).split(".")[0]:
            out.append(Instance("R-SIBLING", f"{f.qual}#common-from-both:{short(third, 30)}", BAD,
                                f"`{short(r, 70)}` hands back `{short(third)}` - one operand's own bounds - as the common region: for an empty or reversed operand that 'lies inside' the other the three answers no longer select the same elements", f.where(r)))
        elif both(lo_x) and both(hi_x):
            out.append(Instance("R-SIBLING", f"{f.qual}#common-from-both:{short(third, 30)}", OK, "the common region is computed from the bounds of both operands", f.where(r)))
    if not out:
        out.append(Instance("R-SIBLING", f"{f.qual}#common-from-both", INFO, "no three-slice return with a non-degenerate common region found", f.where(), nontrivial=False))
    return out


def crs_eq_text_verdicts(prog: Program) -> List[Instance]:
    """C19-r6s1. CRS.__eq__ may answer from text alone only where text is conclusive: `True` when the two texts are equal,
    and a full verdict (True or False) only when both are canonical `EPSG:<n>` strings (one registry, one spelling).
    Any other return of a comparison derived from `_str` can answer False for two spellings / registries of one CRS
    (ESRI:102100 vs EPSG:3857) while each still equals the WKT form: equality stops being transitive."""
    f = prog.func("crs:CRS.__eq__")
    cond = Conditions(f.body)
    org = Origins(f)
    out: List[Instance] = []

    def from_text(e: ast.AST) -> bool:
        for x in org.closure(e) if hasattr(org, "closure") else ast.walk(e):
            if isinstance(x, ast.Attribute) and x.attr == "_str":
                return True
        return False

    for r in (n for n in walk_own(f.node) if isinstance(n, ast.Return) and isinstance(n.value, ast.Compare) and len(n.value.ops) == 1 and isinstance(n.value.ops[0], (ast.Eq, ast.NotEq))):
        v = r.value
        l, rr = v.left, v.comparators[0]
        if not (from_text(l) and from_text(rr)):
            continue
        cs = conds_at(cond, r)
        epsg_both = sum(1 for e, p in cs if p and isinstance(e, ast.Call) and call_name(e) == "startswith" and e.args and isinstance(e.args[0], ast.Constant) and str(e.args[0].value).upper().startswith("EPSG")) >= 2
        out.append(Instance("R-VALUEOBJ", f"{f.qual}#text-verdict:{short(v, 30)}", OK if epsg_both else BAD,
                            "a verdict from text alone is given only for two canonical EPSG:<n> strings" if epsg_both else
                            f"`{short(r)}` decides equality (including *unequal*) from text derived from `_str` outside the both-EPSG case: two spellings / registries of one CRS (ESRI:102100, EPSG:3857) compare unequal while both equal the WKT form - not transitive", f.where(r)))
    if not out:
        out.append(Instance("R-VALUEOBJ", f"{f.qual}#text-verdict", INFO, "CRS.__eq__ returns no comparison of texts", f.where(), nontrivial=False))
    return out
