"""Rules for the multi-part writers: R-ACCESSOR, R-LOCK, R-MPU (C06, C18) and small COG layout
rules R-FLOW16, R-ORDER, R-SWALLOW (C05, C15)."""
from __future__ import annotations

import ast
from typing import Dict, List, Optional, Set, Tuple

from ..astutil import Origins, call_name, const_num, fold_if, names_in, with_folded
from ..cfg import Conditions, Flow, ReachingDefs
from ..loader import ClassInfo, FuncInfo, Program, dotted, enclosing_stmt, parent, short, walk_own
from ..report import BAD, INFO, OK, UNDET, Instance
from .guards import conds_at

LIMIT_PROPS = ("min_write_sz", "max_write_sz", "min_part", "max_part")


# ---------------------------------------------------------------------------------------------
# R-ACCESSOR
# ---------------------------------------------------------------------------------------------


def _ret_expr(fi: FuncInfo) -> Optional[ast.AST]:
    body = [s for s in fi.node.body if not (isinstance(s, ast.Expr) and isinstance(s.value, ast.Constant))]
    if len(body) == 1 and isinstance(body[0], ast.Return):
        return body[0].value
    return None


def rule_accessor(prog: Program) -> List[Instance]:
    out: List[Instance] = []
    writers: List[ClassInfo] = []
    for ci in prog.classes.values():
        if all(ci.find_method(p) is not None for p in LIMIT_PROPS) and ci.name != "PartsWriter":
            if any(p in ci.methods for p in LIMIT_PROPS):
                writers.append(ci)
    if len(writers) < 2:
        out.append(Instance("R-ACCESSOR", "cog#limit-classes", UNDET, f"expected S3Limits and MPUFileSink to define the limit properties, found {[c.qual for c in writers]}", ""))
    for ci in sorted(writers, key=lambda c: c.qual):
        vals: Dict[str, Optional[float]] = {}
        for pname in LIMIT_PROPS:
            m = ci.find_method(pname)
            assert m is not None
            cid = f"{ci.qual}.{pname}#own-key"
            rv = _ret_expr(m)
            if rv is None:
                out.append(Instance("R-ACCESSOR", cid, UNDET, "limit property is not a single return", m.where()))
                continue
            v = const_num(rv)
            if v is not None:
                vals[pname] = v
                out.append(Instance("R-ACCESSOR", cid, OK, f"constant {v:g}", m.where(), nontrivial=False))
                continue
            if isinstance(rv, ast.Call) and isinstance(rv.func, ast.Attribute) and rv.func.attr == "get" and rv.args and isinstance(rv.args[0], ast.Constant):
                key = rv.args[0].value
                dflt = const_num(rv.args[1]) if len(rv.args) > 1 else None
                vals[pname] = dflt
                if key != pname:
                    out.append(Instance("R-ACCESSOR", cid, BAD, f"property `{pname}` reads configuration key \"{key}\": a configured {pname} is ignored and {key}'s value reported instead", m.where()))
                else:
                    out.append(Instance("R-ACCESSOR", cid, OK, f"reads its own key \"{key}\" (default {dflt})", m.where()))
                continue
            if isinstance(rv, ast.Subscript) and isinstance(rv.slice, ast.Constant):
                key = rv.slice.value
                out.append(Instance("R-ACCESSOR", cid, OK if key == pname else BAD, f"reads key \"{key}\"", m.where()))
                continue
            keyc = next((a.value for x in ast.walk(rv) if isinstance(x, ast.Call) for a in x.args[:1] if isinstance(a, ast.Constant) and isinstance(a.value, str)), None)
            # a configured value must be reported as configured: `cfg.get(k) or default` turns an explicit 0 into the default
            bodies = [rv]
            for x in ast.walk(rv):
                if isinstance(x, ast.Call) and isinstance(x.func, ast.Attribute) and isinstance(x.func.value, ast.Name) and x.func.value.id == "self":
                    h = ci.find_method(x.func.attr)
                    if h is not None:
                        bodies.extend(r.value for r in walk_own(h.node) if isinstance(r, ast.Return) and r.value is not None)
            filt = next((b for e in bodies for b in ast.walk(e) if isinstance(b, ast.BoolOp) and isinstance(b.op, ast.Or)
                         and any(isinstance(c, ast.Call) and isinstance(c.func, ast.Attribute) and c.func.attr == "get" or isinstance(c, ast.Subscript) for c in ast.walk(b.values[0]))), None)
            if filt is not None:
                out.append(Instance("R-ACCESSOR", cid, BAD, f"`{short(filt, 70)}` filters the configured value by truth: a limit configured as 0 is reported as the default", m.where()))
                continue
            if keyc is not None:
                out.append(Instance("R-ACCESSOR", cid, OK if keyc == pname else BAD,
                                    f"looks up its own key \"{keyc}\"" if keyc == pname else f"property `{pname}` looks up key \"{keyc}\"", m.where()))
            else:
                out.append(Instance("R-ACCESSOR", cid, INFO, f"accessor body `{short(rv)}` not modelled", m.where(), nontrivial=False))
        # configurable limits (free keyword arguments) must be validated against each other at construction:
        # defaults are independent, so a configured minimum can exceed the default maximum
        configurable = any(isinstance(x, ast.Call) and isinstance(x.func, ast.Attribute) and x.func.attr == "get" for pname in LIMIT_PROPS for m_ in [ci.find_method(pname)] if m_ is not None for x in walk_own(m_.node)) or \
            any(isinstance(x, ast.Call) and isinstance(x.func, ast.Attribute) and isinstance(x.func.value, ast.Name) and x.func.value.id == "self" for pname in LIMIT_PROPS for m_ in [ci.find_method(pname)] if m_ is not None for x in walk_own(m_.node))
        if configurable:
            init = ci.find_method("__init__")
            validated = False
            if init is not None:
                for x in walk_own(init.node):
                    if isinstance(x, ast.If) and any(isinstance(y, ast.Raise) for y in x.body):
                        attrs = {a_.attr for a_ in ast.walk(x.test) if isinstance(a_, ast.Attribute)} | {c_.value for c_ in ast.walk(x.test) if isinstance(c_, ast.Constant) and isinstance(c_.value, str)}
                        if {"min_part", "max_part"} <= attrs and {"min_write_sz", "max_write_sz"} <= attrs:
                            validated = True
            out.append(Instance("R-ACCESSOR", f"{ci.qual}#limits-validated", OK if validated else BAD,
                                "constructor rejects limits whose maximum is not above the minimum" if validated else
                                f"{ci.name} takes its limits as independent keyword arguments and never compares them: {ci.name}(dst, min_part=20000) reports max_part 10000, below its minimum", f"{ci.mod.relpath}:{ci.node.lineno}"))
        for lo, hi in (("min_write_sz", "max_write_sz"), ("min_part", "max_part")):
            a, b = vals.get(lo), vals.get(hi)
            cid = f"{ci.qual}#default-order:{lo}<{hi}"
            if a is None or b is None:
                out.append(Instance("R-ACCESSOR", cid, INFO, "defaults not constant-foldable", f"{ci.mod.relpath}:{ci.node.lineno}", nontrivial=False))
            elif b > a:
                out.append(Instance("R-ACCESSOR", cid, OK, f"default {hi}={b:g} > {lo}={a:g}", f"{ci.mod.relpath}:{ci.node.lineno}"))
            else:
                out.append(Instance("R-ACCESSOR", cid, BAD, f"default {hi}={b:g} is not above {lo}={a:g}", f"{ci.mod.relpath}:{ci.node.lineno}"))
    return out


# ---------------------------------------------------------------------------------------------
# R-LOCK
# ---------------------------------------------------------------------------------------------


def _with_ancestors(node: ast.AST) -> List[ast.With]:
    out = []
    n = parent(node)
    while n is not None and not isinstance(n, (ast.FunctionDef, ast.AsyncFunctionDef, ast.Lambda)):
        if isinstance(n, (ast.With, ast.AsyncWith)):
            out.append(n)
        n = parent(n)
    return out


def _is_lock_expr(e: ast.AST, fi: FuncInfo, prog: Program) -> bool:
    txt = short(e).lower()
    if "lock" in txt:
        return True
    if isinstance(e, ast.Name):
        for n in walk_own(fi.node):
            if isinstance(n, ast.Assign) and any(isinstance(t, ast.Name) and t.id == e.id for t in n.targets):
                if "lock" in short(n.value).lower():
                    return True
    return False


def rule_lock(prog: Program) -> List[Instance]:
    out: List[Instance] = []
    s3 = prog.module("cog._s3")
    # slot: the init method = method calling create_multipart_upload
    init_m: Optional[FuncInfo] = None
    for fi in prog.all_functions({"cog._s3"}):
        for n in walk_own(fi.node):
            if isinstance(n, ast.Call) and call_name(n) == "create_multipart_upload":
                init_m = fi
    if init_m is None:
        return [Instance("R-LOCK", "cog._s3#init-method", UNDET, "no method calling create_multipart_upload found", s3.relpath)]

    sites = prog.callers_of(init_m)
    # also unresolved receivers: any `.initiate(` call by name
    extra = []
    for fi in prog.all_functions({"cog._s3", "cog._tifffile", "cog._mpu", "cog._mpu_fs"}):
        for n in walk_own(fi.node):
            if isinstance(n, ast.Call) and isinstance(n.func, ast.Attribute) and n.func.attr == init_m.name and (fi, n) not in sites:
                if not any(n is c for _, c in sites):
                    extra.append((fi, n))
    sites = sites + extra
    if not sites:
        out.append(Instance("R-LOCK", f"{init_m.qual}#callsites", UNDET, "upload initiation is never called", init_m.where()))
        return out

    for k, (fi, call) in enumerate(sorted(sites, key=lambda x: (x[0].qual, x[1].lineno))):
        st = enclosing_stmt(call)
        withs = [w for w in _with_ancestors(call) if any(_is_lock_expr(i.context_expr, fi, prog) for i in w.items)]
        lockdesc = short(withs[0].items[0].context_expr, 40) if withs else ""
        # name the region after the lock expression, not a position
        lock_id = _lock_ident(withs[0], fi) if withs else "nolock"
        cid_base = f"{fi.qual}#{init_m.name}@{lock_id}"
        if not withs:
            out.append(Instance("R-LOCK", f"{cid_base}:CALLUNDERLOCK", BAD, f"`{short(call)}` initiates the upload outside any lock region", fi.where(call)))
            continue
        out.append(Instance("R-LOCK", f"{cid_base}:CALLUNDERLOCK", OK, f"initiation inside `with {lockdesc}`", fi.where(call)))
        region = withs[0]
        # DCL: between region entry and the call, on every path, a state predicate was (re)evaluated
        region_names: Set[str] = set()
        for n in ast.walk(region):
            if isinstance(n, ast.Assign):
                for t in n.targets:
                    for x in ast.walk(t):
                        if isinstance(x, ast.Name):
                            region_names.add(x.id)
        cond = Conditions(region.body)
        facts = cond.conds_at(st) if st is not None else []
        fresh = []
        for key, pol in facts:
            try:
                e = ast.parse(key, mode="eval").body
            except SyntaxError:
                continue
            mentions_started = any(isinstance(x, ast.Attribute) and x.attr in ("started", "uploadId") for x in ast.walk(e))
            mentions_region_local = bool(names_in(e) & region_names)
            if mentions_started or mentions_region_local:
                # polarity must mean "not started yet"
                if _means_not_started(e, pol):
                    fresh.append(f"{key} is {pol}")
            elif isinstance(e, ast.Call) and isinstance(e.func, ast.Attribute) and not pol:
                # the re-check may be a private helper that reads the shared state and answers whether an upload was found:
                # `if self._adopt(mpu, shared): return mpu` - on the false side nothing had been started
                for hm in prog.methods_named(e.func.attr) + [f_ for f_ in prog.all_functions({fi.mod.name}) if f_.name == e.func.attr and f_.cls is None]:
                    if not hm.name.startswith("_"):
                        continue
                    reads_state = any((isinstance(x, ast.Call) and call_name(x) in ("_safe_get", "get")) or (isinstance(x, ast.Attribute) and x.attr in ("started", "uploadId")) for _g, x in prog.closure_nodes(hm))
                    found_true = any(isinstance(r, ast.Return) and isinstance(r.value, ast.Constant) and r.value.value is True for r in walk_own(hm.node))
                    if reads_state and found_true:
                        fresh.append(f"{key} is {pol} ({hm.qual} reads the shared upload state)")
                        break
        if fresh:
            out.append(Instance("R-LOCK", f"{cid_base}:DCL", OK, f"state re-checked inside the region before initiating: {fresh[0]}", fi.where(call)))
        else:
            out.append(Instance("R-LOCK", f"{cid_base}:DCL", BAD,
                                f"inside `with {lockdesc}` the upload is initiated without re-checking whether another writer already started it "
                                f"(path conditions at the call: {[f'{k}={p}' for k, p in facts] or 'none'}); two first writers both pass the unlocked test",
                                fi.where(call), path=[f"{fi.qual}: with {lockdesc} -> {short(st)}"]))
        # PUBLISH: if the region reads a shared variable, the new id must be published inside it after the call
        shared_reads = [n for n in ast.walk(region) if isinstance(n, ast.Call) and call_name(n) in ("_safe_get", "get") and n.args and isinstance(n.args[0], ast.Name)]
        shared_names = {n.args[0].id for n in shared_reads if call_name(n) == "_safe_get"}
        if shared_names:
            blk = _block_of(st, region)
            idx = blk.index(st) if blk is not None and st in blk else -1
            published = False
            if blk is not None and idx >= 0:
                for later in blk[idx + 1 :]:
                    for n in ast.walk(later):
                        if isinstance(n, ast.Call) and isinstance(n.func, ast.Attribute) and n.func.attr == "set" and isinstance(n.func.value, ast.Name) and n.func.value.id in shared_names:
                            if any(isinstance(x, ast.Attribute) and x.attr == "uploadId" for a in n.args for x in ast.walk(a)) or any("uploadId" in short(a) for a in n.args):
                                published = True
            out.append(Instance("R-LOCK", f"{cid_base}:PUBLISH", OK if published else BAD,
                                "new upload id is published to the shared variable before the lock is released" if published
                                else "upload id is not published to the shared variable inside the lock region after initiation", fi.where(call)))

    # ENSURE: every use of the upload in the delayed writer is preceded by ensure-init
    dw = s3.classes.get("DelayedS3Writer")
    if dw is None:
        out.append(Instance("R-LOCK", "cog._s3:DelayedS3Writer#ENSURE", UNDET, "class DelayedS3Writer not found", s3.relpath))
    else:
        ensure = dw.find_method("_ensure_init")
        n_use = 0
        for m in dw.methods.values():
            rd = None
            for n in walk_own(m.node):
                if isinstance(n, ast.Call) and isinstance(n.func, ast.Attribute) and n.func.attr in ("write_part", "finalise") and isinstance(n.func.value, (ast.Name, ast.Attribute)):
                    recv = n.func.value
                    if isinstance(recv, ast.Name) and recv.id == m.self_name:
                        continue
                    n_use += 1
                    cid = f"{m.qual}#ENSURE:{n.func.attr}"
                    ok = False
                    if isinstance(recv, ast.Name):
                        rd = rd or ReachingDefs(m.node)
                        st = enclosing_stmt(n)
                        defs = rd.reaching(st, recv.id) if st is not None else []
                        ok = bool(defs) and all(
                            d[2] is not None and isinstance(d[2], ast.Call) and ensure is not None and ensure in prog.resolve_call(d[2], m)
                            for d in defs
                        )
                    out.append(Instance("R-LOCK", cid, OK if ok else BAD,
                                        f"`{short(recv)}` comes from self._ensure_init() on every path" if ok
                                        else f"`{short(n)}` uses the upload object without going through _ensure_init()", m.where(n)))
        if n_use == 0:
            out.append(Instance("R-LOCK", "cog._s3:DelayedS3Writer#ENSURE", UNDET, "no write_part/finalise use found in DelayedS3Writer", s3.relpath))

    # LOCKSINGLETON: the process-local lock provider never hands out a fresh lock
    for fi in prog.all_functions({"cog._s3"}):
        rets = [n for n in walk_own(fi.node) if isinstance(n, ast.Return) and n.value is not None]
        if not rets or fi.cls is not None:
            continue
        ann = getattr(fi.node, "returns", None)
        if not (ann is not None and "Lock" in short(ann)):
            continue
        bad = []
        for r in rets:
            v = r.value
            ok = False
            if isinstance(v, ast.Call) and isinstance(v.func, ast.Attribute) and v.func.attr in ("get", "setdefault"):
                ok = True
            if isinstance(v, ast.Name):
                # local read from the registry
                for n in walk_own(fi.node):
                    if isinstance(n, ast.Assign) and any(isinstance(t, ast.Name) and t.id == v.id for t in n.targets):
                        if isinstance(n.value, ast.Call) and isinstance(n.value.func, ast.Attribute) and n.value.func.attr in ("get", "setdefault"):
                            ok = True
            if not ok:
                bad.append(short(r))
        out.append(Instance("R-LOCK", f"{fi.qual}#LOCKSINGLETON", BAD if bad else OK,
                            f"returns a lock that is not taken from the process-wide registry: {bad}" if bad else "every return hands out the registered lock (get/setdefault on the module registry)", fi.where()))
        # a fresh Lock stored with a plain subscript assignment is a non-atomic check-then-insert
        for n in walk_own(fi.node):
            if isinstance(n, ast.Assign) and any(isinstance(t, ast.Subscript) for t in n.targets):
                val_names = names_in(n.value)
                fresh = any(isinstance(x, ast.Call) and call_name(x).endswith("Lock") for x in ast.walk(n.value))
                if not fresh:
                    for nm in val_names:
                        for x in walk_own(fi.node):
                            if isinstance(x, ast.Assign) and short(x.targets[0]) == nm and any(isinstance(y, ast.Call) and call_name(y).endswith("Lock") for y in ast.walk(x.value)):
                                fresh = True
                if fresh:
                    out.append(Instance("R-LOCK", f"{fi.qual}#LOCKATOMIC", BAD,
                                        f"`{short(n)}` registers a fresh lock with a plain store after a separate lookup: two first callers can each install and receive a different lock (use setdefault)", fi.where(n)))
        # get and setdefault must use the same registry key
        keys = set()
        for n in walk_own(fi.node):
            if isinstance(n, ast.Call) and isinstance(n.func, ast.Attribute) and n.func.attr in ("get", "setdefault") and n.args:
                a = n.args[0]
                if isinstance(a, ast.Constant):
                    keys.add(a.value)
                elif isinstance(a, ast.Name):
                    # parameter default
                    for p, d in zip(reversed(fi.args.args), reversed(fi.args.defaults)):
                        if p.arg == a.id and isinstance(d, ast.Constant):
                            keys.add(d.value)
        if len(keys) > 1:
            out.append(Instance("R-LOCK", f"{fi.qual}#LOCKKEY", BAD, f"lock registry read and written under different keys {sorted(keys)}: every caller gets a fresh lock", fi.where()))
        elif keys:
            out.append(Instance("R-LOCK", f"{fi.qual}#LOCKKEY", OK, f"registry key {sorted(keys)} used for both lookup and insert", fi.where()))
    # SHAREDWRITE: the distributed Variable carries the elected upload id. On the worker path (everything
    # reachable from the lazy-init method) it may be written only inside the lock region; a reset outside
    # it - e.g. in the lazily called accessor - wipes an id another worker has already published and a
    # second upload is initiated.
    ens = [fi for fi in prog.all_functions({"cog._s3"}) if any(isinstance(n, ast.Call) and isinstance(n.func, ast.Attribute) and n.func.attr == "initiate" for n in walk_own(fi.node))]
    for e in ens:
        worker_path = [f for f in prog.reachable([e]) if f.mod.name == "cog._s3"]
        n_sets = 0
        for wf in worker_path:
            for n in walk_own(wf.node):
                if isinstance(n, ast.Call) and isinstance(n.func, ast.Attribute) and n.func.attr in ("set", "delete") and not n.keywords and len(n.args) <= 1:
                    recv = n.func.value
                    # receiver is a distributed Variable: bound from Variable(...) or from the accessor returning it
                    is_var = False
                    if isinstance(recv, ast.Name):
                        for x in walk_own(wf.node):
                            if isinstance(x, ast.Assign) and short(x.targets[0]) == recv.id and isinstance(x.value, ast.Call):
                                cn = call_name(x.value)
                                if cn == "Variable" or cn in ("_shared",) or any("Variable" in short(r.value, 200) for cf in [wf.cls.find_method(cn)] if wf.cls is not None and cf is not None for r in walk_own(cf.node) if isinstance(r, ast.Assign)):
                                    is_var = True
                    elif isinstance(recv, ast.Attribute) and "shared" in recv.attr:
                        is_var = True
                    if not is_var:
                        continue
                    n_sets += 1
                    locked = any(_is_lock_expr(it.context_expr, wf, prog) for wn in _with_ancestors(n) for it in wn.items)
                    out.append(Instance("R-LOCK", f"{wf.qual}#SHAREDWRITE:{short(n, 30)}", OK if locked else BAD,
                                        f"`{short(n)}` on the worker path happens inside the lock region" if locked else
                                        f"`{short(n)}` writes the shared variable on the worker path ({e.name} -> {wf.name}) outside the lock: an upload id already published by another worker is overwritten and a second upload gets initiated", wf.where(n)))
        if n_sets == 0:
            out.append(Instance("R-LOCK", f"{e.qual}#SHAREDWRITE", INFO, "no write of the shared variable on the worker path", e.where(), nontrivial=False))
    return out


def _lock_ident(w: ast.With, fi: FuncInfo) -> str:
    e = w.items[0].context_expr
    if isinstance(e, ast.Call):
        return call_name(e) or "lock"
    if isinstance(e, ast.Name):
        for n in walk_own(fi.node):
            if isinstance(n, ast.Assign) and any(isinstance(t, ast.Name) and t.id == e.id for t in n.targets) and isinstance(n.value, ast.Call):
                return call_name(n.value) or e.id
        return e.id
    return "lock"


def _means_not_started(e: ast.AST, pol: bool) -> bool:
    # mpu.started False ; uploadId is not None False ; uploadId is None True ; not mpu.started True
    if isinstance(e, ast.UnaryOp) and isinstance(e.op, ast.Not):
        return _means_not_started(e.operand, not pol)
    if isinstance(e, ast.Attribute) and e.attr == "started":
        return pol is False
    if isinstance(e, ast.Compare) and len(e.ops) == 1 and isinstance(e.comparators[0], ast.Constant) and e.comparators[0].value is None:
        if isinstance(e.ops[0], ast.IsNot):
            return pol is False
        if isinstance(e.ops[0], ast.Is):
            return pol is True
    if isinstance(e, ast.Compare) and len(e.ops) == 1 and isinstance(e.comparators[0], ast.Constant) and e.comparators[0].value == "":
        if isinstance(e.ops[0], ast.Eq):
            return pol is True
        if isinstance(e.ops[0], ast.NotEq):
            return pol is False
    if isinstance(e, ast.Name):
        return pol is False  # `if uploadId:` false side
    return False


def _block_of(st: Optional[ast.stmt], root: ast.AST) -> Optional[List[ast.stmt]]:
    if st is None:
        return None
    p = parent(st)
    for fld in ("body", "orelse", "finalbody"):
        blk = getattr(p, fld, None)
        if isinstance(blk, list) and st in blk:
            return blk
    return None


# ---------------------------------------------------------------------------------------------
# R-MPU
# ---------------------------------------------------------------------------------------------


def _attr_of(e: ast.AST, base: str) -> Optional[str]:
    if isinstance(e, ast.Attribute) and isinstance(e.value, ast.Name) and e.value.id == base:
        return e.attr
    return None


def _self_attr(e: ast.AST, me: str) -> Optional[str]:
    return _attr_of(e, me)


def rule_mpu(prog: Program) -> List[Instance]:
    out: List[Instance] = []
    mod = prog.module("cog._mpu")
    ci = mod.classes.get("MPUChunk")
    if ci is None:
        return [Instance("R-MPU", "cog._mpu:MPUChunk", UNDET, "class MPUChunk not found", mod.relpath)]
    out += _mpu_order(prog, ci)
    out += _mpu_pairing(prog, ci)
    out += _mpu_reserve_minsize(prog, ci)
    out += _mpu_stride(prog, ci)
    return out


def _mpu_order(prog: Program, ci: ClassInfo) -> List[Instance]:
    out: List[Instance] = []
    merge = ci.find_method("merge")
    init = ci.find_method("__init__")
    if merge is None or init is None:
        return [Instance("R-MPU", f"{ci.qual}.merge#ORDER", UNDET, "merge/__init__ not found", ci.mod.relpath)]
    pp = [p.arg for p in merge.positional_params()]
    if len(pp) < 2:
        return [Instance("R-MPU", f"{ci.qual}.merge#ORDER", UNDET, "merge has fewer than two positional parameters", merge.where())]
    L, R = pp[0], pp[1]
    iparams = [p.arg for p in init.positional_params()][1:]
    # which side must each constructor slot come from (stream position classes)
    LEFT_ONLY = {"left_data", "lhs_keep"}
    RIGHT_ONLY = {"is_final"}
    CONCAT = {"data", "parts", "observed"}
    n_ctor = 0
    for n in walk_own(merge.node):
        if not (isinstance(n, ast.Call) and isinstance(prog.resolve_name_expr(n.func, merge.mod, merge), ClassInfo) and call_name(n) == ci.name):
            continue
        n_ctor += 1
        # identify the branch by whether the right side had started writing
        cond = Conditions(merge.body)
        st = enclosing_stmt(n)
        branch = "append" if any("started_write" in k and not p for k, p in cond.conds_at(st)) else "flush"
        slots: Dict[str, ast.AST] = {}
        for p, a in zip(iparams, n.args):
            slots[p] = a
        for k in n.keywords:
            if k.arg:
                slots[k.arg] = k.value
        for p, a in slots.items():
            cid = f"{merge.qual}#ORDER:{branch}:{p}"
            sides = _sides(a, L, R)
            if p in LEFT_ONLY:
                ok = sides == [(L, p)]
                out.append(Instance("R-MPU", cid, OK if ok else BAD, f"{p} taken from the left chunk" if ok else f"slot {p} must come from {L}.{p} (bytes/reservation to the left of everything written), got `{short(a)}`", merge.where(a)))
            elif p in RIGHT_ONLY:
                ok = sides == [(R, p)]
                out.append(Instance("R-MPU", cid, OK if ok else BAD, f"{p} taken from the right chunk" if ok else f"slot {p} must come from {R}.{p} (end-of-stream is a property of the right-most chunk), got `{short(a)}`", merge.where(a)))
            elif p in CONCAT:
                if isinstance(a, ast.BinOp) and isinstance(a.op, ast.Add):
                    ok = sides == [(L, p), (R, p)]
                    out.append(Instance("R-MPU", cid, OK if ok else BAD, f"{L}.{p} + {R}.{p} in stream order" if ok else f"concatenation for slot {p} must be {L}.{p} + {R}.{p} (stream order, same field), got `{short(a)}`", merge.where(a)))
                else:
                    # single side: data -> right (left was flushed), parts -> left (right has none)
                    want = {"data": [(R, p)] if branch == "flush" else None, "parts": [(L, p)] if branch == "append" else None, "observed": None}[p]
                    ok = want is not None and sides == want
                    out.append(Instance("R-MPU", cid, OK if ok else BAD, f"`{short(a)}`" if ok else f"slot {p} in the {branch} branch: got `{short(a)}`", merge.where(a)))
            elif p == "write_credits":
                if branch == "append":
                    ok = sides == [(L, p), (R, p)] or sides == [(R, p), (L, p)]
                    why = "credits of both sides are kept"
                else:
                    ok = sides == [(R, p)]
                    why = "after the left side is flushed only the right side's credits remain usable (its part ids are the next free ones)"
                out.append(Instance("R-MPU", cid, OK if ok else BAD, why if ok else f"write_credits in the {branch} branch: got `{short(a)}`; {why}", merge.where(a)))
            elif p == "partId":
                want = [(L, "nextPartId")] if branch == "append" else [(R, "nextPartId")]
                ok = sides == want
                out.append(Instance("R-MPU", cid, OK if ok else BAD, f"next part id from {'left' if branch == 'append' else 'right'}" if ok else f"partId in the {branch} branch must be {want[0][0]}.nextPartId, got `{short(a)}`", merge.where(a)))
    # every result of merge is a freshly combined chunk: returning an operand as is drops the
    # other operand's observed log / data / parts
    for r in (x for x in walk_own(merge.node) if isinstance(x, ast.Return)):
        v = r.value
        is_ctor = isinstance(v, ast.Call) and call_name(v) == ci.name
        if not is_ctor:
            out.append(Instance("R-MPU", f"{merge.qual}#ORDER:return:{short(v, 30)}", BAD,
                                f"`{short(r)}` returns without combining both operands: the other side's observed log (and data/parts) is lost", merge.where(r)))
    if n_ctor < 2:
        out.append(Instance("R-MPU", f"{merge.qual}#ORDER", UNDET, f"expected two MPUChunk(...) constructions in merge, found {n_ctor}", merge.where()))
    # the flush of the left side receives the right side's left_data
    found = False
    for n in walk_own(merge.node):
        if isinstance(n, ast.Call) and isinstance(n.func, ast.Attribute) and n.func.attr == "flush_rhs":
            found = True
            recv_ok = isinstance(n.func.value, ast.Name) and n.func.value.id == L
            extra = n.args[1] if len(n.args) > 1 else next((k.value for k in n.keywords if k.arg == "extra_data"), None)
            ok = recv_ok and extra is not None and _sides(extra, L, R) == [(R, "left_data")]
            out.append(Instance("R-MPU", f"{merge.qual}#ORDER:flush_rhs", OK if ok else BAD,
                                f"{L}.flush_rhs(..., {R}.left_data): bytes between the two written runs are flushed with the left side" if ok
                                else f"`{short(n)}`: the left chunk must flush its data followed by {R}.left_data", merge.where(n)))
    if not found:
        out.append(Instance("R-MPU", f"{merge.qual}#ORDER:flush_rhs", BAD, "merge no longer flushes the left side when the right side has written parts", merge.where()))

    # concatenations inside flush_rhs / flush keep stream order
    frhs = ci.find_method("flush_rhs")
    if frhs is not None:
        me = frhs.self_name or "self"
        for n in walk_own(frhs.node):
            if isinstance(n, ast.BinOp) and isinstance(n.op, ast.Add):
                l, r = short(n.left), short(n.right)
                if "left_data" in l + r or "extra_data" in l + r:
                    ok = ("left_data" in l and "left_data" not in r) or ("extra_data" in r and "extra_data" not in l)
                    out.append(Instance("R-MPU", f"{frhs.qual}#ORDER:{l}+{r}", OK if ok else BAD,
                                        "left-over bytes stay to the left of newer data" if ok else f"`{short(n)}` puts newer bytes before older ones", frhs.where(n)))
            if isinstance(n, ast.AugAssign) and isinstance(n.op, ast.Add) and isinstance(n.value, ast.Name) and n.value.id == "extra_data":
                out.append(Instance("R-MPU", f"{frhs.qual}#ORDER:data+=extra_data", OK, "extra data appended after own data", frhs.where(n)))
    fl = ci.find_method("flush")
    if fl is not None:
        me = fl.self_name or "self"
        hit = False
        for n in walk_own(fl.node):
            if isinstance(n, ast.Call) and isinstance(n.func, ast.Attribute) and n.func.attr in ("insert", "append") and _self_attr(n.func.value, me) == "parts":
                arg = n.args[-1] if n.args else None
                if arg is not None and "left_data" in short(arg):
                    hit = True
                    ok = n.func.attr == "insert" and const_num(n.args[0]) == 0
                    out.append(Instance("R-MPU", f"{fl.qual}#ORDER:left_data-part-first", OK if ok else BAD,
                                        "receipt of the left-data part is inserted at the front of the parts list" if ok
                                        else f"`{short(n)}`: the part holding left_data precedes every other part and must be first in the list given to finalise", fl.where(n)))
        if not hit:
            out.append(Instance("R-MPU", f"{fl.qual}#ORDER:left_data-part-first", UNDET, "write of left_data not found in flush", fl.where()))
    # finalizer: header merged on the left
    fin = prog.maybe_func("cog._mpu:_finalizer_dask_op")
    if fin is not None:
        hit = False
        for n in walk_own(fin.node):
            if isinstance(n, ast.Call) and merge in prog.resolve_call(n, fin) and len(n.args) >= 2:
                hit = True
                a0 = short(n.args[0])
                pf = fin.param_names()[0]
                org_f = Origins(fin)
                fresh = isinstance(n.args[0], ast.Name) and any(isinstance(v, ast.Call) and call_name(v) == ci.name for _, v in org_f.defs.get(n.args[0].id, []))
                data_side = pf in org_f.deps_names(n.args[1])
                ok = fresh and data_side and pf not in org_f.deps_names(n.args[0])
                out.append(Instance("R-MPU", f"{fin.qual}#ORDER:header-left", OK if ok else BAD,
                                    f"merge({a0}, {short(n.args[1])}): header is the left operand" if ok else f"`{short(n)}`: header must be merged on the left of the data", fin.where(n)))
                wr = len(n.args) > 2 or any(k.arg == "write" for k in n.keywords)
                out.append(Instance("R-MPU", f"{fin.qual}#ORDER:header-merge-no-writer", BAD if wr else OK,
                                    "header merge is given a writer: header bytes could be flushed as a part after data parts" if wr else "header merge gets no writer, header bytes stay in left_data until the final flush", fin.where(n)))
        if not hit:
            out.append(Instance("R-MPU", f"{fin.qual}#ORDER:header-left", UNDET, "header merge not found", fin.where()))
    for q in ("cog._mpu:_mpu_collate_op", "cog._mpu:_merge_and_spill_op"):
        f = prog.maybe_func(q)
        if f is None:
            out.append(Instance("R-MPU", f"{q}#ORDER", UNDET, "function not found", ci.mod.relpath))
            continue
        for n in walk_own(f.node):
            if isinstance(n, ast.Call) and merge in prog.resolve_call(n, f) and len(n.args) >= 2:
                a0, a1 = short(n.args[0]), short(n.args[1])
                if q.endswith("_collate_op"):
                    st = enclosing_stmt(n)
                    acc = short(st.targets[0]) if isinstance(st, ast.Assign) else None
                    lp = parent(st)
                    loopvar = short(lp.target) if isinstance(lp, ast.For) else None
                    ok = acc is not None and a0 == acc and a1 == loopvar
                else:
                    fp = [p.arg for p in f.positional_params()]
                    ok = [a0, a1] == fp[:2]
                out.append(Instance("R-MPU", f"{q}#ORDER:merge-args", OK if ok else BAD,
                                    f"merge({a0}, {a1}) keeps left/right" if ok else f"`{short(n)}` swaps the accumulated left side and the next chunk", f.where(n)))
    return out


def _sides(e: ast.AST, L: str, R: str) -> List[Tuple[str, str]]:
    """Left-to-right list of (side, field) leaves of a +-expression."""
    if isinstance(e, ast.BinOp) and isinstance(e.op, ast.Add):
        return _sides(e.left, L, R) + _sides(e.right, L, R)
    # a copy of the value is the same bytes/receipts: bytearray(x), list(x), bytes(x), x.copy(), x[:]
    if isinstance(e, ast.Call) and isinstance(e.func, ast.Name) and e.func.id in ("bytearray", "list", "bytes", "tuple") and len(e.args) == 1 and not e.keywords:
        return _sides(e.args[0], L, R)
    if isinstance(e, ast.Call) and isinstance(e.func, ast.Attribute) and e.func.attr == "copy" and not e.args:
        return _sides(e.func.value, L, R)
    if isinstance(e, ast.Subscript) and isinstance(e.slice, ast.Slice) and e.slice.lower is None and e.slice.upper is None and e.slice.step is None:
        return _sides(e.value, L, R)
    for s in (L, R):
        a = _attr_of(e, s)
        if a is not None:
            return [(s, a)]
    return [("?", short(e, 30))]


def _mpu_pairing(prog: Program, ci: ClassInfo) -> List[Instance]:
    out: List[Instance] = []
    n_sites = 0
    for m in list(ci.methods.values()) + [nf for mm in ci.methods.values() for nf in mm.nested.values()]:
        me = m.self_name or "self"
        for n in walk_own(m.node):
            if not (isinstance(n, ast.Call) and n.args and _self_attr(n.args[0], me) == "nextPartId"):
                continue
            if isinstance(n.func, ast.Attribute):
                continue  # not a writer invocation
            if call_name(n) == ci.name:
                continue  # MPUChunk(self.nextPartId, ...): construction of a copy, nothing is written
            n_sites += 1
            st = enclosing_stmt(n)
            blk = _block_of(st, m.node)
            cid = f"{m.qual}#PAIRING:{short(n.func)}"
            if blk is None or st is None:
                out.append(Instance("R-MPU", cid, UNDET, "cannot locate statement block", m.where(n)))
                continue
            rest = blk[blk.index(st):]
            inc_id = inc_cr = appended = False
            receipt_name = None
            if isinstance(st, ast.Assign) and len(st.targets) == 1 and isinstance(st.targets[0], ast.Name):
                receipt_name = st.targets[0].id
            for s in rest:
                for x in ast.walk(s):
                    if isinstance(x, ast.AugAssign) and _self_attr(x.target, me) == "nextPartId" and isinstance(x.op, ast.Add) and const_num(x.value) == 1:
                        inc_id = True
                    if isinstance(x, ast.AugAssign) and _self_attr(x.target, me) == "write_credits" and isinstance(x.op, ast.Sub) and const_num(x.value) == 1:
                        inc_cr = True
                    if isinstance(x, ast.Call) and isinstance(x.func, ast.Attribute) and x.func.attr == "append" and _self_attr(x.func.value, me) == "parts" and x.args:
                        a = x.args[0]
                        if a is n or (isinstance(a, ast.Name) and a.id == receipt_name):
                            appended = True
            miss = [w for w, f in (("self.nextPartId += 1", inc_id), ("self.write_credits -= 1", inc_cr), ("self.parts.append(<receipt>)", appended)) if not f]
            out.append(Instance("R-MPU", cid, BAD if miss else OK,
                                f"write with self.nextPartId is not followed by {miss}: part ids/credits/receipts go out of step" if miss
                                else "write consumes one part id and one credit and records its receipt", m.where(n)))
    if n_sites < 2:
        out.append(Instance("R-MPU", f"{ci.qual}#PAIRING", UNDET, f"expected >=2 writer invocations with self.nextPartId, found {n_sites}", ci.mod.relpath))
    ap = ci.find_method("append")
    if ap is not None:
        me = ap.self_name or "self"
        pp = [p.arg for p in ap.positional_params()]
        data_p = pp[1] if len(pp) > 1 else "data"
        obs = dat = False
        sz_ok = False
        for n in walk_own(ap.node):
            if isinstance(n, ast.Call) and isinstance(n.func, ast.Attribute) and n.func.attr == "append" and _self_attr(n.func.value, me) == "observed":
                obs = True
                org = Origins(ap)
                if n.args and isinstance(n.args[0], ast.Tuple) and n.args[0].elts:
                    sz_ok = data_p in org.deps(n.args[0].elts[0])
            if isinstance(n, ast.AugAssign) and _self_attr(n.target, me) == "data" and isinstance(n.op, ast.Add) and isinstance(n.value, ast.Name) and n.value.id == data_p:
                dat = True
        # both effects happen on every path through append (no early return in between or before)
        def _mark(node, facts, part):
            if part == "stmt":
                for x in ast.walk(node):
                    if isinstance(x, ast.Call) and isinstance(x.func, ast.Attribute) and x.func.attr == "append" and _self_attr(x.func.value, me) == "observed":
                        facts = facts | {"OBS"}
                if isinstance(node, ast.AugAssign) and _self_attr(node.target, me) == "data":
                    facts = facts | {"DATA"}
            return facts
        fl = Flow(ap.body, transfer=_mark).run()
        always = all({"OBS", "DATA"} <= ex.facts for ex in fl.normal_exits())
        ok = obs and dat and sz_ok and always
        if obs and dat and sz_ok and not always:
            out.append(Instance("R-MPU", f"{ap.qual}#PAIRING:observe-always", BAD, "append can return without logging the chunk in observed / storing its bytes: header and footer callbacks see an incomplete (size, id) list", ap.where()))
        out.append(Instance("R-MPU", f"{ap.qual}#PAIRING:observe", OK if ok else BAD,
                            "append logs (len(data), id) and extends data by the same bytes" if ok else
                            f"append must both log (len({data_p}), chunk_id) in observed and do self.data += {data_p} (observed={obs}, data={dat}, size-from-data={sz_ok})", ap.where()))
    return out


# -- small linear forms over symbols ----------------------------------------------------------

Lin = Dict[str, float]  # symbol -> coef, "" -> constant


def _lin(e: ast.AST, me: str) -> Optional[Lin]:
    v = const_num(e)
    if v is not None:
        return {"": float(v)}
    if isinstance(e, ast.Name):
        return {e.id: 1.0}
    a = _self_attr(e, me)
    if a is not None:
        return {f"self.{a}": 1.0}
    if isinstance(e, ast.Attribute):
        return {short(e): 1.0}
    if isinstance(e, ast.BinOp) and isinstance(e.op, (ast.Add, ast.Sub)):
        l, r = _lin(e.left, me), _lin(e.right, me)
        if l is None or r is None:
            return None
        out = dict(l)
        sgn = 1.0 if isinstance(e.op, ast.Add) else -1.0
        for k, c in r.items():
            out[k] = out.get(k, 0.0) + sgn * c
        return out
    if isinstance(e, ast.Call) and call_name(e) == "len" and e.args:
        return {f"len({short(e.args[0])})": 1.0}
    return None


def _value_set(name: str, fn: FuncInfo) -> Optional[List[float]]:
    """Constant values a local may take (tuple-unpack of conditional tuples is followed)."""
    vals: List[float] = []
    found = False
    for n in walk_own(fn.node):
        if isinstance(n, ast.Assign):
            for t in n.targets:
                if isinstance(t, ast.Name) and t.id == name:
                    found = True
                    for v in _alts(n.value):
                        c = const_num(v)
                        if c is None:
                            return None
                        vals.append(c)
                elif isinstance(t, (ast.Tuple, ast.List)):
                    for i, el in enumerate(t.elts):
                        if isinstance(el, ast.Name) and el.id == name:
                            found = True
                            for v in _alts(n.value):
                                if isinstance(v, (ast.Tuple, ast.List)) and len(v.elts) == len(t.elts):
                                    c = const_num(v.elts[i])
                                    if c is None:
                                        return None
                                    vals.append(c)
                                else:
                                    return None
    return vals if found else None


def _alts(e: ast.AST) -> List[ast.AST]:
    if isinstance(e, ast.IfExp):
        return _alts(e.body) + _alts(e.orelse)
    return [e]


def _mpu_reserve_minsize(prog: Program, ci: ClassInfo) -> List[Instance]:
    out: List[Instance] = []
    mw = ci.find_method("maybe_write")
    if mw is None:
        return [Instance("R-MPU", f"{ci.qual}.maybe_write", UNDET, "maybe_write not found", ci.mod.relpath)]
    me = mw.self_name or "self"
    pp = [p.arg for p in mw.positional_params()]
    writer = pp[1] if len(pp) > 1 else "write"
    # the writer invocation
    wcalls = [n for n in walk_own(mw.node) if isinstance(n, ast.Call) and isinstance(n.func, ast.Name) and n.func.id == writer]
    if not wcalls:
        return [Instance("R-MPU", f"{mw.qual}#RESERVE", UNDET, "no writer invocation in maybe_write", mw.where())]
    wst = enclosing_stmt(wcalls[0])
    # early-return guards that dominate the write: `if <test>: return 0` at function top level
    guards: List[ast.If] = []
    for st in mw.node.body:
        if st is wst:
            break
        if isinstance(st, ast.If) and not st.orelse and len(st.body) == 1 and isinstance(st.body[0], ast.Return):
            guards.append(st)
    # RESERVE
    reserve_ok: Optional[bool] = None
    detail = ""
    for g in guards:
        t = g.test
        if not (isinstance(t, ast.Compare) and len(t.ops) == 1):
            continue
        l, r = _lin(t.left, me), _lin(t.comparators[0], me)
        if l is None or r is None:
            continue
        d: Lin = dict(l)
        for k, c in r.items():
            d[k] = d.get(k, 0.0) - c
        cr = d.get("self.write_credits", 0.0)
        if cr == 0:
            continue
        # test:  cr*credits + sum(others) + const  (op) 0   ; skip-write when true
        others = {k: v for k, v in d.items() if k not in ("self.write_credits", "")}
        const = d.get("", 0.0)
        op = type(t.ops[0])
        # normalise to credits (op') K  where K = -(others+const)/cr
        if cr < 0:
            op = {ast.Lt: ast.Gt, ast.LtE: ast.GtE, ast.Gt: ast.Lt, ast.GtE: ast.LtE}.get(op, op)
        if op not in (ast.Lt, ast.LtE):
            continue
        # K as min over value sets of the other symbols
        kmin = -const / cr
        resolvable = True
        for sym, coef in others.items():
            vs = _value_set(sym, mw) if "." not in sym and "(" not in sym else None
            if vs is None or not vs:
                resolvable = False
                break
            contrib = [-(coef / cr) * v for v in vs]
            kmin += min(contrib)
        if not resolvable:
            reserve_ok = None
            detail = f"cannot bound `{short(t)}`"
            continue
        # skip when credits < K (Lt) / credits <= K (LtE); proceed when credits >= K (Lt) / >= K+1
        proceed_min = kmin if op is ast.Lt else kmin + 1
        remaining = proceed_min - 1
        reserve_ok = remaining >= 1
        detail = f"`{short(t)}` lets a spill proceed with as few as {proceed_min:g} credit(s), leaving {remaining:g}"
        break
    cid = f"{mw.qual}#RESERVE"
    if reserve_ok is None:
        out.append(Instance("R-MPU", cid, BAD if not detail else UNDET,
                            detail or "no early-return test on write_credits dominates the spill: a spill can take the credit the final flush needs", mw.where()))
    else:
        out.append(Instance("R-MPU", cid, OK if reserve_ok else BAD,
                            detail + (": one credit is always kept for the final flush" if reserve_ok else ": a later flush of remaining data finds no credit (flush asserts can_flush)"), mw.where()))
    # MINSIZE: a dominating guard compares the written length with something >= min_write_sz
    written = None
    # the length variable: guard of the form  X < <expr>  where X also sizes the spill slice
    ms_ok = False
    ms_detail = ""
    for g in guards:
        t = g.test
        if isinstance(t, ast.Compare) and len(t.ops) == 1 and isinstance(t.ops[0], (ast.Lt, ast.LtE)):
            rhs = t.comparators[0]
            lhs = t.left
            if "write_credits" in short(lhs):
                continue
            mentions_min = any(isinstance(x, ast.Attribute) and x.attr == "min_write_sz" for x in ast.walk(rhs))
            if mentions_min:
                # rhs must be >= min_write_sz:  min_write_sz itself or max(..., min_write_sz, ...)
                if (isinstance(rhs, ast.Attribute) and rhs.attr == "min_write_sz") or (isinstance(rhs, ast.Call) and call_name(rhs) == "max"):
                    ms_ok = True
                    ms_detail = f"`{short(t)}` returns before any write shorter than the writer's minimum part size"
                else:
                    ms_detail = f"`{short(t)}` mentions min_write_sz but is not a lower bound by it"
            elif not ms_detail:
                ms_detail = f"`{short(t)}` bounds the spill only by `{short(rhs)}`"
    out.append(Instance("R-MPU", f"{mw.qual}#MINSIZE", OK if ms_ok else BAD,
                        ms_detail if ms_ok else (ms_detail or "no size guard before the spill") + ": a non-last part smaller than min_write_sz can be written", mw.where()))

    # flush_rhs: every _flush_data call is control dependent on can_flush
    fr = ci.find_method("flush_rhs")
    if fr is not None and "_flush_data" in fr.nested and "can_flush" in fr.nested:
        cond = Conditions(fr.body)
        k = 0
        for n in walk_own(fr.node):
            if isinstance(n, ast.Call) and isinstance(n.func, ast.Name) and n.func.id == "_flush_data":
                k += 1
                st = enclosing_stmt(n)
                f = cond.flow.facts_at(st)
                ok = f is not None and any(isinstance(x, tuple) and x[0] in ("cond", "assert") and x[1].startswith("can_flush(") and x[2] for x in f)
                via = "assert" if f is not None and any(isinstance(x, tuple) and x[0] == "assert" and x[1].startswith("can_flush(") for x in f) else "if"
                started = any("started_write" in kk and pp for kk, pp in cond.conds_at(st))
                out.append(Instance("R-MPU", f"{fr.qual}#MINSIZE:_flush_data:{'started' if started else 'not-started'}", OK if ok else BAD,
                                    f"flush only behind can_flush(...) ({via})" if ok else "data is flushed without consulting can_flush (minimum part size / credits)", fr.where(n)))
        cf = fr.nested["can_flush"]
        ccond = Conditions(cf.body)
        for ex in ccond.flow.exits:
            if ex.kind != "return":
                continue
            rv = ex.node.value  # type: ignore[union-attr]
            if isinstance(rv, ast.Constant) and rv.value is False:
                continue
            txt = short(rv)
            final_path = any(k2.endswith("is_final") and p2 for k2, p2 in ccond.conds_at(ex.node))
            mentions_min = "min_write_sz" in txt
            mentions_final = "is_final" in txt
            ok = mentions_min or final_path
            cmp_ok = True
            # the comparison with the minimum must be >= (not >) on the data length
            for x in ast.walk(rv):
                if isinstance(x, ast.Compare) and any(isinstance(y, ast.Attribute) and y.attr == "min_write_sz" for y in ast.walk(x)):
                    cmp_ok = isinstance(x.ops[0], (ast.GtE, ast.Gt))
            pathkey = "final" if final_path else ("started" if any("started_write" in k2 and p2 for k2, p2 in ccond.conds_at(ex.node)) else "not-started")
            out.append(Instance("R-MPU", f"{cf.qual}#MINSIZE:return:{pathkey}", OK if ok and cmp_ok else BAD,
                                f"`return {txt}`: non-final flush requires min_write_sz" if ok and cmp_ok else f"`return {txt}` allows a non-final flush without reaching min_write_sz", cf.where(ex.node)))
    else:
        out.append(Instance("R-MPU", f"{ci.qual}.flush_rhs#MINSIZE", UNDET, "flush_rhs/_flush_data/can_flush structure not found", ci.mod.relpath))
    return out


def _mpu_stride(prog: Program, ci: ClassInfo) -> List[Instance]:
    out: List[Instance] = []
    gb = ci.find_method("gen_bunch")
    if gb is not None:
        # MPUChunk(partId + idx * writes_per_chunk, writes_per_chunk, ...): stride == credits
        hit = False
        for n in walk_own(gb.node):
            if isinstance(n, ast.Call) and call_name(n) == ci.name and len(n.args) >= 2:
                hit = True
                a0, a1 = n.args[0], n.args[1]
                stride = None
                if isinstance(a0, ast.BinOp) and isinstance(a0.op, ast.Add):
                    for side in (a0.left, a0.right):
                        if isinstance(side, ast.BinOp) and isinstance(side.op, ast.Mult):
                            names = [x.id for x in (side.left, side.right) if isinstance(x, ast.Name)]
                            stride = names
                ok = stride is not None and isinstance(a1, ast.Name) and a1.id in stride
                out.append(Instance("R-MPU", f"{gb.qual}#STRIDE", OK if ok else BAD,
                                    f"chunk i starts at partId + i*{short(a1)} and owns {short(a1)} ids" if ok else f"part id stride `{short(a0)}` does not match the credits `{short(a1)}` handed to each chunk: ids of neighbouring chunks overlap or leave gaps", gb.where(n)))
                for kwn in ("lhs_keep",):
                    kv = next((k.value for k in n.keywords if k.arg == kwn), None)
                    okk = isinstance(kv, ast.Name) and kv.id == kwn
                    out.append(Instance("R-MPU", f"{gb.qual}#STRIDE:{kwn}", OK if okk else BAD,
                                        f"every generated chunk carries {kwn} unchanged" if okk else f"`{kwn}={short(kv)}`: not every chunk reserves bytes for its left neighbour, a chunk that starts writing first leaves an undersized left remainder", gb.where(n)))
        if not hit:
            out.append(Instance("R-MPU", f"{gb.qual}#STRIDE", UNDET, "MPUChunk construction not found in gen_bunch", gb.where()))
    mwf = prog.maybe_func("cog._mpu:mpu_write")
    if mwf is not None:
        # the id variable = first positional argument of from_dask_bag
        idv = None
        fcall = None
        for n in walk_own(mwf.node):
            if isinstance(n, ast.Call) and call_name(n) == "from_dask_bag" and n.args and isinstance(n.args[0], ast.Name):
                idv = n.args[0].id
                fcall = n
        if idv is None:
            out.append(Instance("R-MPU", f"{mwf.qual}#STRIDE", UNDET, "from_dask_bag(partId, ...) not found", mwf.where()))
            return out
        org = Origins(mwf)
        first = adv = None
        for n in walk_own(mwf.node):
            if isinstance(n, ast.Assign) and len(n.targets) == 1 and isinstance(n.targets[0], ast.Name) and n.targets[0].id == idv:
                if idv in names_in(n.value):
                    adv = n
                else:
                    first = n
            if isinstance(n, ast.AugAssign) and isinstance(n.target, ast.Name) and n.target.id == idv and isinstance(n.op, ast.Add):
                # x += e  ==  x = x + e
                adv = ast.Assign(targets=[n.target], value=ast.BinOp(left=ast.Name(id=idv, ctx=ast.Load()), op=ast.Add(), right=n.value))
                ast.copy_location(adv, n)
                ast.fix_missing_locations(adv)
        if first is not None:
            v = first.value
            base_is_min = isinstance(v, ast.BinOp) and isinstance(v.op, ast.Add) and const_num(v.right) == 1 and any(
                isinstance(d, ast.Attribute) and d.attr == "min_part" for nm in names_in(v.left) for _, d in org.defs.get(nm, [])
            )
            out.append(Instance("R-MPU", f"{mwf.qual}#STRIDE:first-id", OK if base_is_min else BAD,
                                "first data part id is the writer's min_part + 1 (min_part stays free for the header/left data written last)" if base_is_min
                                else f"first data part id is `{short(v)}`: the id min_part must stay free for the header part", mwf.where(first)))
        else:
            out.append(Instance("R-MPU", f"{mwf.qual}#STRIDE:first-id", UNDET, "initial part id assignment not found", mwf.where()))
        if adv is not None and fcall is not None:
            v = adv.value
            wpc = next((k.value for k in fcall.keywords if k.arg == "writes_per_chunk"), None)
            ok = isinstance(v, ast.BinOp) and isinstance(v.op, ast.Add) and short(v.left) == idv and isinstance(v.right, ast.BinOp) and isinstance(v.right.op, ast.Mult)
            if ok:
                fac = {short(v.right.left), short(v.right.right)}
                ok = wpc is not None and short(wpc) in fac and any(f_.endswith(".npartitions") for f_ in fac)
            out.append(Instance("R-MPU", f"{mwf.qual}#STRIDE:advance", OK if ok else BAD,
                                "next sub-stream starts after npartitions * writes_per_chunk ids" if ok else f"`{short(adv)}`: sub-streams would share or skip part ids", mwf.where(adv)))
        else:
            out.append(Instance("R-MPU", f"{mwf.qual}#STRIDE:advance", UNDET, "part id advance not found", mwf.where()))
        lk = next((k.value for k in fcall.keywords if k.arg == "lhs_keep"), None) if fcall is not None else None
        if isinstance(lk, ast.Name):
            defs = [d for _, d in org.defs.get(lk.id, []) if not isinstance(d, ast.Constant)]
            ok = bool(defs) and all(isinstance(d, ast.Attribute) and d.attr == "min_write_sz" for d in defs)
            out.append(Instance("R-MPU", f"{mwf.qual}#STRIDE:lhs_keep", OK if ok else BAD,
                                "bytes reserved for the header part equal the writer's minimum part size" if ok else "left reservation is not the writer's min_write_sz: the header part can end up undersized", mwf.where()))
    # RANGE: a part id handed to the writer never comes from an integer literal - the allowed range starts at the
    # writer's min_part, so the header / left-over part is min_part, not 1 (the only literal allowed is the
    # writer-less dry run, guarded by `write is None`)
    n_lit = 0
    for fi in prog.all_functions({"cog._mpu"}):
        cond = None
        for n in with_folded(walk_own(fi.node)):
            lits: List[Tuple[ast.AST, str]] = []
            if isinstance(n, ast.Assign) and isinstance(parent(n), ast.If) and fold_if(parent(n)) is not None:
                continue  # an arm of a two-way choice: looked at through its conditional-expression view
            if isinstance(n, ast.Call):
                for k in n.keywords:
                    if k.arg == "leftPartId" and const_num(k.value) is not None:
                        lits.append((k.value, "leftPartId="))
                if call_name(n) == "MPUChunk" and n.args and const_num(n.args[0]) is not None and "finaliz" in fi.name:
                    lits.append((n.args[0], "first argument (part id) of MPUChunk()"))
            if isinstance(n, ast.Assign) and len(n.targets) == 1 and isinstance(n.targets[0], ast.Name) and n.targets[0].id.lower() in ("partid", "first_part", "part_id"):
                for c in ([n.value.body, n.value.orelse] if isinstance(n.value, ast.IfExp) else [n.value]):
                    if const_num(c) is not None:
                        # literal allowed only on the `write is None` side
                        guard_none = isinstance(n.value, ast.IfExp) and c is n.value.body and isinstance(n.value.test, ast.Compare) and isinstance(n.value.test.ops[0], ast.Is) and "write" in short(n.value.test.left) and isinstance(n.value.test.comparators[0], ast.Constant) and n.value.test.comparators[0].value is None
                        if not guard_none:
                            lits.append((c, f"`{short(n, 50)}`"))
            for lit, what in lits:
                n_lit += 1
                out.append(Instance("R-MPU", f"{fi.qual}#RANGE:literal-part-id:{short(lit)}", BAD,
                                    f"{what} is the literal {short(lit)}: part ids must lie in [write.min_part, write.max_part]; with min_part != 1 this id is out of range or collides with a data part", fi.where(n)))
    if n_lit == 0:
        out.append(Instance("R-MPU", "cog._mpu#RANGE:literal-part-id", OK, "no part id handed to a writer is an integer literal (header / left-over part uses write.min_part)", ""))
    return out


# ---------------------------------------------------------------------------------------------
# R-SWALLOW, R-FLOW16, R-ORDER (COG layout)
# ---------------------------------------------------------------------------------------------


def rule_flow16(prog: Program) -> List[Instance]:
    """Tile/block sizes handed to GDAL/tifffile originate from adjust_blocksize/norm_blocksize,
    all of whose returns are align_up(., 16)."""
    out: List[Instance] = []
    ab = prog.func("cog._shared:adjust_blocksize")
    for i, r in enumerate(n for n in walk_own(ab.node) if isinstance(n, ast.Return)):
        v = r.value
        ok = isinstance(v, ast.Call) and call_name(v) == "align_up" and len(v.args) == 2 and const_num(v.args[1]) is not None and const_num(v.args[1]) % 16 == 0
        cond = Conditions(ab.body)
        pk = ";".join(f"{k}={p}" for k, p in cond.conds_at(r)) or "else"
        out.append(Instance("R-FLOW16", f"{ab.qual}#return:{pk}", OK if ok else BAD,
                            f"`{short(r)}` is a multiple of 16" if ok else f"`{short(r)}` is not rounded to a multiple of 16", ab.where(r)))
    nb = prog.func("cog._shared:norm_blocksize")
    ok_nb = True
    for r in (n for n in walk_own(nb.node) if isinstance(n, ast.Return)):
        org = Origins(nb)
        for el in (r.value.elts if isinstance(r.value, ast.Tuple) else [r.value]):
            if isinstance(el, ast.Name):
                defs = [v for _, v in org.defs.get(el.id, [])]
                if not defs or not all("adjust_blocksize" in short(d) for d in defs if not isinstance(d, ast.Name)):
                    ok_nb = False
            else:
                ok_nb = False
    out.append(Instance("R-FLOW16", f"{nb.qual}#through-adjust", OK if ok_nb else BAD,
                        "every returned component went through adjust_blocksize" if ok_nb else "norm_blocksize returns a component that bypasses adjust_blocksize", nb.where()))
    # sinks
    dco = prog.func("cog._rio:_default_cog_opts")
    for n in walk_own(dco.node):
        if isinstance(n, ast.Dict):
            for k, v in zip(n.keys, n.values):
                if isinstance(k, ast.Constant) and k.value == "tiled":
                    # a COG is tiled, whatever the image size: the default creation options never switch tiling off
                    okt = isinstance(v, ast.Constant) and v.value is True
                    out.append(Instance("R-FLOW16", f"{dco.qual}#tiled", OK if okt else BAD,
                                        "default creation options always ask for a tiled file" if okt else f"`tiled={short(v)}` can switch tiling off: the file is then striped, not a COG (blocks are not blockxsize x blockysize)", dco.where(v)))
                if isinstance(k, ast.Constant) and k.value in ("blockxsize", "blockysize"):
                    ok = isinstance(v, ast.Call) and call_name(v) == "adjust_blocksize"
                    dim_ok = True
                    if isinstance(v, ast.Name) and v.id not in dco.param_names():
                        # a local: bound (possibly by unpacking) from a helper every returned component of which went through adjust_blocksize
                        srcs = [a_.value for a_ in walk_own(dco.node) if isinstance(a_, ast.Assign) and any(isinstance(t_, ast.Name) and t_.id == v.id for tg_ in a_.targets for t_ in ast.walk(tg_))]
                        via = bool(srcs) and all(
                            isinstance(c_, ast.Call) and (call_name(c_) == "adjust_blocksize" or any(
                                all(isinstance(el_, ast.Call) and call_name(el_) == "adjust_blocksize" for r_ in walk_own(t_.node) if isinstance(r_, ast.Return) and r_.value is not None
                                    for el_ in (r_.value.elts if isinstance(r_.value, ast.Tuple) else [r_.value]))
                                for t_ in prog.resolve_call(c_, dco)))
                            for c_ in srcs)
                        out.append(Instance("R-FLOW16", f"{dco.qual}#{k.value}", OK if via else UNDET,
                                            f"{k.value} = `{v.id}`, produced by adjust_blocksize (through a helper)" if via else f"{k.value} = `{v.id}`: origin of the local not followed", dco.where(v)))
                        continue
                    if ok and len(v.args) > 1:
                        axis_names = {}
                        for a_ in walk_own(dco.node):
                            if isinstance(a_, ast.Assign) and isinstance(a_.targets[0], ast.Tuple) and len(a_.targets[0].elts) == 2 and short(a_.value).endswith((".xy", ".wh")):
                                axis_names = {"blockxsize": short(a_.targets[0].elts[0]), "blockysize": short(a_.targets[0].elts[1])}
                            if isinstance(a_, ast.Assign) and isinstance(a_.targets[0], ast.Tuple) and len(a_.targets[0].elts) == 2 and short(a_.value).endswith((".yx", ".shape")):
                                axis_names = {"blockysize": short(a_.targets[0].elts[0]), "blockxsize": short(a_.targets[0].elts[1])}
                        want = axis_names.get(k.value)
                        dim_ok = want is not None and isinstance(v.args[1], ast.Name) and v.args[1].id == want
                    out.append(Instance("R-FLOW16", f"{dco.qual}#{k.value}", OK if ok and dim_ok else BAD,
                                        f"{k.value} = {short(v)}" if ok and dim_ok else f"{k.value} = `{short(v)}` is not adjust_blocksize(blocksize, <image {'width' if k.value == 'blockxsize' else 'height'}>)", dco.where(v)))
    mec = prog.func("cog._tifffile:_make_empty_cog")
    tiles = 0
    for n in walk_own(mec.node):
        if isinstance(n, ast.Call) and call_name(n) in ("write", "CogMeta"):
            tv = next((k.value for k in n.keywords if k.arg == "tile"), None)
            if call_name(n) == "CogMeta" and len(n.args) >= 3:
                tv = n.args[2]
            if tv is None:
                continue
            tiles += 1
            org = Origins(mec)
            names = names_in(tv)
            ok = False
            for nm in names:
                for _, d in org.defs.get(nm, []):
                    if "norm_blocksize" in short(d):
                        ok = True
            out.append(Instance("R-FLOW16", f"{mec.qual}#tile:{call_name(n)}", OK if ok else BAD,
                                f"tile `{short(tv)}` comes from norm_blocksize" if ok else f"tile `{short(tv)}` does not come from norm_blocksize", mec.where(n)))
    ccs = prog.func("cog._shared:compute_cog_spec")
    ok = any(isinstance(n, ast.Call) and "adjust_blocksize" in short(n) and call_name(n) in ("map", "shape_") for n in walk_own(ccs.node))
    out.append(Instance("R-FLOW16", f"{ccs.qual}#tile-adjust", OK if ok else BAD, "tile shape mapped through adjust_blocksize" if ok else "compute_cog_spec no longer adjusts the tile shape", ccs.where()))
    # both axes are padded to a multiple of 2**levels with the *shared* level count: the alignment handed
    # to align_up may depend on the per-axis counts only through the count that is returned
    org = Origins(ccs)
    per_axis: Set[str] = set()
    for n in walk_own(ccs.node):
        if isinstance(n, ast.Assign) and any(isinstance(x, ast.Call) and call_name(x) == "num_overviews" for x in ast.walk(n.value)):
            per_axis |= {t.id for t in ast.walk(n.targets[0]) if isinstance(t, ast.Name)}
    shared = None
    for n in walk_own(ccs.node):
        if isinstance(n, ast.Return) and isinstance(n.value, ast.Tuple) and isinstance(n.value.elts[-1], ast.Name):
            shared = n.value.elts[-1].id
    aligns = [n for n in ast.walk(ccs.node) if isinstance(n, ast.Call) and call_name(n) == "align_up" and len(n.args) >= 2]
    if shared is None or not aligns or len(per_axis) < 2 or shared in per_axis:
        out.append(Instance("R-FLOW16", f"{ccs.qual}#pad-shared-levels", INFO, "padding idiom (align_up(d, pad) with pad from the returned level count) not recognised", ccs.where(), nontrivial=False))
    for a in aligns if (shared is not None and len(per_axis) >= 2 and shared not in per_axis) else []:
        direct = org.deps_names(a.args[1], {shared}) & per_axis
        via = shared in org.deps_names(a.args[1])
        okp = via and not direct
        out.append(Instance("R-FLOW16", f"{ccs.qual}#pad-shared-levels:{short(a, 30)}", OK if okp else BAD,
                            f"padding alignment `{short(a.args[1])}` depends on the level counts only through the returned count `{shared}`" if okp else
                            f"padding alignment `{short(a.args[1])}` depends on a per-axis level count {sorted(direct)} directly: an axis is no longer padded to a multiple of 2**{shared} and its overviews are not exact halves", ccs.where(a)))
    return out


def rule_swallow(prog: Program) -> List[Instance]:
    """Tile compression path: an encoder failure must not be turned into an empty tile."""
    out: List[Instance] = []
    for fi in prog.all_functions({"cog._tifffile"}):
        for n in walk_own(fi.node):
            if isinstance(n, ast.Try):
                for h in n.handlers:
                    broad = h.type is None or (isinstance(h.type, ast.Name) and h.type.id in ("Exception", "BaseException"))
                    rets = [s for s in h.body if isinstance(s, ast.Return)]
                    if broad and rets and isinstance(rets[0].value, ast.Constant):
                        out.append(Instance("R-SWALLOW", f"{fi.qual}#except-return-const", INFO,
                                            f"`except {short(h.type) if h.type else ''}: {short(rets[0])}` turns an encoder error into an empty tile (sparse-tile convention; informational)", fi.where(h), nontrivial=False))
    return out


def rule_order(prog: Program) -> List[Instance]:
    """Overview-first: the list of per-level tile bags handed to the multi-part writer is the
    reverse of the level enumeration (level 0 = full resolution last)."""
    out: List[Instance] = []
    sc = prog.func("cog._tifffile:save_cog_with_dask")
    org = Origins(sc)
    # sinks: mpu_write(first arg) and <sink>.upload(first arg)
    sinks = []
    for n in walk_own(sc.node):
        if isinstance(n, ast.Call) and call_name(n) in ("mpu_write", "upload") and n.args:
            sinks.append(n)
    if not sinks:
        return [Instance("R-ORDER", f"{sc.qual}#write-order", UNDET, "no hand-off to the multi-part writer found", sc.where())]
    rd = ReachingDefs(sc.node)
    for n in sinks:
        a = n.args[0]
        cid = f"{sc.qual}#write-order:{call_name(n)}"
        tag = _order_tag(a, sc, rd, enclosing_stmt(n), 0)
        if tag == "DESC":
            out.append(Instance("R-ORDER", cid, OK, f"`{short(a)}` is the reversed level list: overview tiles precede full-resolution tiles", sc.where(n)))
        elif tag == "ASC":
            out.append(Instance("R-ORDER", cid, BAD, f"`{short(a)}` is in level order (full resolution first): overview data would follow the main image data", sc.where(n)))
        elif tag == "RESORTED":
            out.append(Instance("R-ORDER", cid, BAD, f"the list behind `{short(a)}` is re-ordered in place (sort/reverse/insert/shuffle) after the level reversal: the stream order now depends on a run-time key, overview tiles are no longer guaranteed to precede full-resolution tiles", sc.where(n)))
        else:
            out.append(Instance("R-ORDER", cid, UNDET, f"cannot determine the order of `{short(a)}`", sc.where(n)))
    # CogMeta.cog_tidx enumerates layers reversed too
    ct = prog.maybe_func("cog._shared:CogMeta.cog_tidx")
    if ct is not None:
        rev = any(isinstance(n, ast.Subscript) and isinstance(n.slice, ast.Slice) and n.slice.step is not None and const_num(n.slice.step) == -1 for n in walk_own(ct.node)) or any(isinstance(n, ast.Call) and call_name(n) == "reversed" for n in walk_own(ct.node))
        out.append(Instance("R-ORDER", f"{ct.qual}#layers-reversed", OK if rev else BAD, "tile enumeration walks levels from the smallest overview" if rev else "cog_tidx no longer reverses the level list", ct.where()))
    return out


def _order_tag(e: ast.AST, fi: FuncInfo, rd: ReachingDefs, at: Optional[ast.stmt], depth: int) -> str:
    if depth > 6:
        return "?"
    if isinstance(e, ast.Subscript) and isinstance(e.slice, ast.Slice):
        step = const_num(e.slice.step) if e.slice.step is not None else None
        base = _order_tag(e.value, fi, rd, at, depth + 1)
        if base == "RESORTED":
            return base
        if step == -1 and e.slice.lower is None and e.slice.upper is None:
            return {"ASC": "DESC", "DESC": "ASC"}.get(base, "?")
        if step is None:
            return base  # prefix / suffix keeps order
        return "?"
    if isinstance(e, ast.Call) and call_name(e) == "reversed" and e.args:
        return {"ASC": "DESC", "DESC": "ASC"}.get(_order_tag(e.args[0], fi, rd, at, depth + 1), "?")
    if isinstance(e, ast.Call) and call_name(e) in ("list", "tuple") and e.args:
        return _order_tag(e.args[0], fi, rd, at, depth + 1)
    if isinstance(e, ast.List):
        tags = set()
        for el in e.elts:
            x = el.value if isinstance(el, ast.Starred) else el
            if isinstance(x, ast.Call) and call_name(x) == "concat" and x.args:
                tags.add(_order_tag(x.args[0], fi, rd, at, depth + 1))
            else:
                tags.add(_order_tag(x, fi, rd, at, depth + 1))
        tags.discard("ELEM")
        if "RESORTED" in tags:
            return "RESORTED"
        return tags.pop() if len(tags) == 1 else "?"
    if isinstance(e, ast.Name):
        defs = rd.reaching(at, e.id) if at is not None else []
        tags = set()
        # in-place reordering of the list between its definition and the hand-off
        flips = 0
        for n in walk_own(fi.node):
            if isinstance(n, ast.Call) and isinstance(n.func, ast.Attribute) and isinstance(n.func.value, ast.Name) and n.func.value.id == e.id and n.func.attr in ("sort", "insert"):
                return "RESORTED"
            if isinstance(n, ast.Call) and isinstance(n.func, ast.Attribute) and isinstance(n.func.value, ast.Name) and n.func.value.id == e.id and n.func.attr == "reverse":
                if not isinstance(parent(n), ast.Expr) or parent(parent(n)) is not fi.node:
                    return "?"  # conditional in-place reversal: not modelled
                flips += 1
            if isinstance(n, ast.Call) and call_name(n) == "shuffle" and n.args and isinstance(n.args[0], ast.Name) and n.args[0].id == e.id:
                return "RESORTED"
        for name, st, val, kind in defs:
            if kind == "assign" and val is not None:
                if isinstance(val, ast.List) and not val.elts:
                    # accumulator: filled by .append inside loops -> order of the loop nest
                    tags.add(_append_order(e.id, fi))
                else:
                    tags.add(_order_tag(val, fi, rd, st if isinstance(st, ast.stmt) else at, depth + 1))
            elif kind == "param":
                tags.add("?")
            else:
                tags.add("?")
        if "RESORTED" in tags:
            return "RESORTED"
        t = tags.pop() if len(tags) == 1 else "?"
        if flips % 2:
            t = {"ASC": "DESC", "DESC": "ASC"}.get(t, t)
        return t
    return "?"


def _append_order(name: str, fi: FuncInfo) -> str:
    """Order of a list filled by ``name.append(...)`` inside ``for i, (..) in enumerate(zip(levels..))``."""
    for n in walk_own(fi.node):
        if isinstance(n, ast.Call) and isinstance(n.func, ast.Attribute) and n.func.attr == "append" and isinstance(n.func.value, ast.Name) and n.func.value.id == name:
            # outermost enclosing for
            p = parent(n)
            outer = None
            while p is not None and p is not fi.node:
                if isinstance(p, ast.For):
                    outer = p
                p = parent(p)
            if outer is None:
                return "?"
            it = short(outer.iter)
            if "[::-1]" in it or "reversed(" in it:
                return "DESC"
            if "flatten()" in it or "enumerate(" in it or "layers" in it:
                return "ASC"  # level 0 (full resolution) first
            return "?"
    return "?"


def rule_filesink(prog: Program) -> List[Instance]:
    """C18: MPUFileSink.finalise = first part becomes the destination, the rest are appended in the
    given order and unlinked; an append-mode open of the destination is only sound after the
    destination was replaced by the first part."""
    out: List[Instance] = []
    f = prog.func("cog._mpu_fs:MPUFileSink.finalise")
    parts_p = f.param_names()[1]
    org = Origins(f)
    # first / rest split of the parts list in the given order
    split = None
    for n in walk_own(f.node):
        if isinstance(n, ast.Assign) and isinstance(n.targets[0], ast.Tuple) and short(n.value) == parts_p and len(n.targets[0].elts) == 2 and isinstance(n.targets[0].elts[1], ast.Starred):
            split = (short(n.targets[0].elts[0]), short(n.targets[0].elts[1].value))
    opens = [n for n in walk_own(f.node) if isinstance(n, ast.Call) and call_name(n) == "open" and len(n.args) >= 2 and isinstance(n.args[1], ast.Constant) and "a" in str(n.args[1].value)]
    replaced = [n for n in walk_own(f.node) if isinstance(n, ast.Call) and call_name(n) in ("rename", "replace", "move", "copyfile", "copy")]
    if opens:
        first_open = min(o.lineno for o in opens)
        ok = split is not None and any(r.lineno < first_open and split[0] in org.deps_names(r) for r in replaced)
        out.append(Instance("R-MPU", f"{f.qual}#SINK:append-after-replace", OK if ok else BAD,
                            "destination is opened for append only after the first part was moved onto it" if ok
                            else "destination is opened in append mode without first being replaced by the first part: bytes of a pre-existing destination survive in front of the new data", f.where(opens[0])))
    else:
        out.append(Instance("R-MPU", f"{f.qual}#SINK:append-after-replace", INFO, "no append-mode open", f.where(), nontrivial=False))
    # the parts directory is configurable (parts_base) and can be on another filesystem than the destination:
    # os.rename / Path.rename / os.replace fail with EXDEV there, only a move that falls back to copy is sound
    for r in replaced:
        if split is not None and split[0] in org.deps_names(r):
            xdev = call_name(r) in ("rename", "replace") and not (isinstance(r.func, ast.Attribute) and isinstance(r.func.value, ast.Name) and r.func.value.id == "shutil")
            out.append(Instance("R-MPU", f"{f.qual}#SINK:cross-device", BAD if xdev else OK,
                                f"`{short(r, 50)}` moves the first part onto the destination with a plain rename: parts_base may be on another filesystem (OSError 18, destination never produced)" if xdev
                                else f"`{short(r, 50)}` moves the first part with a copy fallback (works across filesystems)", f.where(r)))
    # a part can be empty (the sink accepts b''): mmap of a zero-length file raises
    for n in walk_own(f.node):
        if isinstance(n, ast.Call) and (dotted(n.func) or "").endswith("mmap.mmap"):
            guarded = any(isinstance(x, ast.If) and any(isinstance(c, ast.Compare) and ("Size" in short(c) or "st_size" in short(c) or "len(" in short(c)) for c in ast.walk(x.test)) and any(y is n for y in ast.walk(x)) for x in walk_own(f.node))
            out.append(Instance("R-MPU", f"{f.qual}#SINK:empty-part", OK if guarded else BAD,
                                "mmap only of non-empty parts" if guarded else f"`{short(n, 50)}` maps every part, but a zero-length part (accepted by __call__) cannot be mmapped: finalise fails half way with 'cannot mmap an empty file'", f.where(n)))
    # the loop walks the rest in the given order (no sorted/reversed) and unlinks inside the loop
    loops = [n for n in walk_own(f.node) if isinstance(n, ast.For)]
    okl = False
    seen_loop = False
    # the append loop may live in a private helper that is handed the remaining parts
    for g, lp in prog.closure_nodes(f):
        if g is f or not isinstance(lp, ast.For) or not isinstance(lp.iter, ast.Name) or split is None:
            continue
        pos = [a.arg for a in g.positional_params()]
        for cs_, call_ in prog.callers_of(g):
            if cs_ is not f or lp.iter.id not in pos:
                continue
            i_ = pos.index(lp.iter.id) - (1 if g.is_method and not g.is_static else 0)
            a_ = call_.args[i_] if 0 <= i_ < len(call_.args) else next((k.value for k in call_.keywords if k.arg == lp.iter.id), None)
            if isinstance(a_, ast.Name) and a_.id in (split[1], parts_p):
                seen_loop = True
                writes = any(isinstance(x, ast.Call) and call_name(x) in ("write", "writelines", "copyfileobj", "sendfile") for x in ast.walk(lp))
                unl = any(isinstance(x, ast.Call) and call_name(x) == "unlink" for x in ast.walk(lp))
                okl = okl or (writes and unl)
    for lp in loops:
        it = lp.iter
        if split is not None and isinstance(it, ast.Name) and it.id not in (split[1], parts_p):
            # a local derived lazily from the remaining parts: (Path(p["Path"]) for p in rest)
            dv = [v for _, v in org.defs.get(it.id, [])]
            if len(dv) == 1 and isinstance(dv[0], (ast.GeneratorExp, ast.ListComp)) and len(dv[0].generators) == 1 and isinstance(dv[0].generators[0].iter, ast.Name) and dv[0].generators[0].iter.id in (split[1], parts_p):
                it = dv[0].generators[0].iter
            else:
                continue
        seen_loop = True
        if split is not None and isinstance(it, ast.Name) and it.id in (split[1], parts_p):
            # any way of pushing the part's bytes into the append handle
            writes = any(isinstance(x, ast.Call) and call_name(x) in ("write", "writelines", "copyfileobj", "sendfile") for x in ast.walk(lp))
            unl = any(isinstance(x, ast.Call) and call_name(x) == "unlink" for x in ast.walk(lp))
            okl = writes and unl
    if not seen_loop:
        out.append(Instance("R-MPU", f"{f.qual}#SINK:in-order", UNDET, "no loop over the remaining parts found in finalise or a private helper it hands them to", f.where()))
    else:
      out.append(Instance("R-MPU", f"{f.qual}#SINK:in-order", OK if okl else BAD,
                        "remaining parts are appended in the order given and unlinked inside the loop" if okl else "parts are not appended in the given order (or not removed) by the finalise loop", f.where()))
    # __call__: the receipt names the part number and the path actually written
    c = prog.func("cog._mpu_fs:MPUFileSink.__call__")
    pp = c.param_names()
    rets = [n.value for n in walk_own(c.node) if isinstance(n, ast.Return) and isinstance(n.value, ast.Dict)]
    ok = False
    if rets:
        d = {k.value: v for k, v in zip(rets[0].keys, rets[0].values) if isinstance(k, ast.Constant)}
        opened = [n.args[0] for n in walk_own(c.node) if isinstance(n, ast.Call) and call_name(n) == "open" and n.args]
        part_p = [x for x in pp if x != "self"][0]
        ok = "PartNumber" in d and short(d["PartNumber"]) == part_p and "Path" in d and bool(opened) and names_in(opened[0]) <= names_in(d["Path"])
    out.append(Instance("R-MPU", f"{c.qual}#SINK:receipt", OK if ok else BAD, "receipt carries the part number and the path that was written" if ok else "receipt does not name the part number / the file that was written", c.where()))
    return out


def rule_rechunk(prog: Program) -> List[Instance]:
    """C05: a tile is compressed from exactly one source chunk, so the source must have the chunking
    the layout prescribes. Each `data = data.rechunk(T)` is either unconditional or skipped only when
    the *whole* chunk shape already equals the same T; a weaker test (some axes only, another target)
    lets a differently chunked source through and tiles are cut from partial chunks."""
    out: List[Instance] = []
    n_sites = 0
    for fi in prog.all_functions({"cog._tifffile"}):
        cond = None
        for n in walk_own(fi.node):
            if not (isinstance(n, ast.Call) and call_name(n) == "rechunk" and isinstance(n.func, ast.Attribute) and n.args):
                continue
            n_sites += 1
            recv, target = n.func.value, n.args[0]
            if cond is None:
                cond = Conditions(fi.body)
            st = enclosing_stmt(n)
            guards = [(e, p) for e, p in conds_at(cond, st) if short(recv) in {short(x) for x in ast.walk(e) if isinstance(x, (ast.Name, ast.Attribute))}]
            cid = f"{fi.qual}#rechunk-guard:{short(target, 30)}"
            if not guards:
                out.append(Instance("R-GUARDSEQ", cid, OK, f"`{short(n, 50)}` is not skipped on account of the current chunking", fi.where(n)))
                continue
            ok = False
            largest_only = False
            for e, p in guards:
                if isinstance(e, ast.Compare) and len(e.ops) == 1 and ((isinstance(e.ops[0], ast.NotEq) and p) or (isinstance(e.ops[0], ast.Eq) and not p)):
                    sides = [e.left, e.comparators[0]]
                    # `.chunksize` is only the LARGEST chunk per axis: an irregular chunking ((16, 32, 22) with 32 px
                    # tiles, any raster cropped with xx[16:]) compares equal and is not rechunked. The comparison must be
                    # on the full `.chunks` structure against the normalised target.
                    whole = [s_ for s_ in sides if isinstance(s_, ast.Attribute) and s_.attr == "chunks" and short(s_.value) == short(recv)]
                    other = [s_ for s_ in sides if s_ not in whole]
                    if len(whole) == 1 and len(other) == 1:
                        o = other[0]
                        if isinstance(o, ast.Call) and call_name(o) == "normalize_chunks" and o.args and short(o.args[0], 200) == short(target, 200):
                            ok = True
                    if any(isinstance(s_, ast.Attribute) and s_.attr == "chunksize" for s_ in sides):
                        largest_only = True
            out.append(Instance("R-GUARDSEQ", cid, OK if ok else BAD,
                                f"rechunk to `{short(target, 40)}` skipped only when the full chunk structure already equals the normalised target" if ok else
                                (f"`{short(n, 50)}` is skipped under `{short(guards[0][0], 60)}`: `.chunksize` is only the largest chunk per axis, so an irregular chunking whose largest chunk equals the tile (any cropped raster) is not rechunked and tile (y, x) is cut from block (y, x), which covers other pixels" if largest_only else
                                 f"`{short(n, 50)}` is skipped under `{short(guards[0][0], 60)}`, which is not `<recv>.chunks != normalize_chunks({short(target, 30)}, <recv>.shape)`: a source whose chunking differs where the test does not look is not rechunked and tiles are built from partial chunks"), fi.where(n)))
    if n_sites == 0:
        out.append(Instance("R-GUARDSEQ", "cog._tifffile#rechunk-guard", INFO, "no rechunk call found", "", nontrivial=False))
    return out


def _axes_perm(e: ast.AST, subject: str) -> Optional[Tuple[int, ...]]:
    """Permutation applied to a 3-d array `subject` by a transpose-like call; None if not recognised.
    perm[i] = source axis that ends up at position i (numpy transpose convention)."""
    if not isinstance(e, ast.Call):
        return None
    nm = call_name(e)
    args = list(e.args)
    if isinstance(e.func, ast.Attribute) and short(e.func.value) == subject:
        pass
    elif args and short(args[0]) == subject:
        args = args[1:]
    else:
        return None

    def ints(xs) -> Optional[List[int]]:
        out = []
        for x in xs:
            v = const_num(x)
            if v is None or int(v) != v:
                return None
            out.append(int(v) % 3)
        return out

    if nm == "transpose":
        if len(args) == 1 and isinstance(args[0], (ast.Tuple, ast.List)):
            p = ints(args[0].elts)
        else:
            p = ints(args)
        return tuple(p) if p is not None and sorted(p) == [0, 1, 2] else None
    if nm == "swapaxes" and len(args) == 2:
        p = ints(args)
        if p is None:
            return None
        perm = [0, 1, 2]
        perm[p[0]], perm[p[1]] = perm[p[1]], perm[p[0]]
        return tuple(perm)
    if nm == "moveaxis" and len(args) == 2:
        p = ints(args)
        if p is None:
            return None
        rest = [i for i in range(3) if i != p[0]]
        rest.insert(p[1], p[0])
        return tuple(rest)
    if nm == "rollaxis" and len(args) in (1, 2):
        p = ints(args)
        if p is None:
            return None
        start = p[1] if len(p) > 1 else 0
        rest = [i for i in range(3) if i != p[0]]
        rest.insert(start, p[0])
        return tuple(rest)
    return None


def rule_rio_layout(prog: Program) -> List[Instance]:
    """C15: (a) band-last input (Y, X, B) is brought to the band-first layout GDAL writes, (B, Y, X): the
    permutation must be exactly (2, 0, 1) - swapping axes 0 and 2 also puts bands first but transposes
    every band; (b) write_cog_layers creates exactly one side-car memory file per layer: the layers are
    written by zipping them with the files, so a shorter tuple of files silently drops layers."""
    out: List[Instance] = []
    w = prog.func("cog._rio:_write_cog")
    pix = w.param_names()[0]
    cond = Conditions(w.body)
    n_perm = 0
    for n in walk_own(w.node):
        if isinstance(n, ast.Assign) and len(n.targets) == 1 and short(n.targets[0]) == pix and isinstance(n.value, ast.Call):
            cs = conds_at(cond, n)

            def _is_band_last_test(e: ast.AST) -> bool:
                return isinstance(e, ast.Compare) and isinstance(e.ops[0], ast.Eq) and isinstance(e.left, ast.Subscript) and short(e.left.value) == f"{pix}.shape" \
                    and isinstance(e.left.slice, ast.Slice) and e.left.slice.lower is None and const_num(e.left.slice.upper) == 2

            band_last = any(p and _is_band_last_test(e) for e, p in cs)
            # ... or a flag computed from that test / from the caller's ydim
            for e, p in cs:
                if p and isinstance(e, ast.Name):
                    for x in walk_own(w.node):
                        if isinstance(x, ast.Assign) and any(isinstance(t, ast.Name) and t.id == e.id for t in x.targets) and (any(_is_band_last_test(y) for y in ast.walk(x.value)) or "ydim" in names_in(x.value)):
                            band_last = True
            if not band_last:
                continue
            n_perm += 1
            perm = _axes_perm(n.value, pix)
            cid = f"{w.qual}#band-last-to-first"
            if perm is None:
                out.append(Instance("R-AXIS", cid, INFO, f"`{short(n.value)}` not recognised as an axis permutation", w.where(n), nontrivial=False))
            else:
                ok = perm == (2, 0, 1)
                out.append(Instance("R-AXIS", cid, OK if ok else BAD,
                                    "band-last input is permuted (Y, X, B) -> (B, Y, X)" if ok else
                                    f"`{short(n.value)}` permutes (Y, X, B) to axes {perm}, i.e. ({', '.join('YXB'[i] for i in perm)}) instead of (B, Y, X): every band is written transposed (and non-square images fail the shape check)", w.where(n)))
    if n_perm == 0:
        out.append(Instance("R-AXIS", f"{w.qual}#band-last-to-first", INFO, "no re-layout of band-last input found", w.where(), nontrivial=False))
    # (a') default pyramid: none for images under 512 pixels (the property's own number), whatever the block size
    ovp = next((p_ for p_ in w.param_names() if "overview_levels" == p_), None)
    for n in walk_own(w.node):
        if not (isinstance(n, ast.Assign) and ovp and short(n.targets[0]) == ovp and isinstance(n.value, ast.List) and not n.value.elts):
            continue
        cs = conds_at(cond, n)
        if not any(p and isinstance(e, ast.Compare) and isinstance(e.ops[0], ast.Is) and short(e.left) == ovp for e, p in cs):
            continue
        thr = [(e, p) for e, p in cs if p and isinstance(e, ast.Compare) and isinstance(e.ops[0], (ast.Lt, ast.LtE, ast.Gt, ast.GtE)) and len(e.comparators) == 1]
        cid = f"{w.qual}#default-overviews-threshold"
        if len(thr) != 1:
            out.append(Instance("R-GUARDSEQ", cid, INFO, "default overview decision not a single size comparison", w.where(n), nontrivial=False))
            continue
        e, _p = thr[0]
        sides = [e.left, e.comparators[0]]
        consts = []
        for sd in sides:
            v = const_num(sd)
            if v is None and isinstance(sd, ast.Name):
                mc = w.mod.tree.body
                for st in mc:
                    if isinstance(st, ast.Assign) and any(isinstance(t, ast.Name) and t.id == sd.id for t in st.targets):
                        v = const_num(st.value)
            consts.append(v)
        known = [v for v in consts if v is not None]
        if known:
            ok = known[0] == 512 and isinstance(e.ops[0], (ast.Lt, ast.Gt))
            out.append(Instance("R-GUARDSEQ", cid, OK if ok else BAD,
                                "no default overviews strictly below 512 pixels" if ok else f"default overviews are dropped under `{short(e)}`: the documented threshold is `< 512` pixels", w.where(n)))
        else:
            var = [sd for sd in sides if not any(isinstance(x, ast.Call) for x in ast.walk(sd))]
            out.append(Instance("R-GUARDSEQ", cid, BAD, f"default overviews are dropped under `{short(e)}`, a threshold that varies with `{short(var[0]) if var else short(e)}`: the documented rule is none below 512 pixels, the requested pyramid otherwise", w.where(n)))
    # (a'') windowed writes: every block window of the destination is written - the write call is reached on
    # every path through the loop body (no continue / break / conditional skip)
    for nf in [w] + list(w.nested.values()):
        for lp in (n for n in walk_own(nf.node) if isinstance(n, ast.For) and any(isinstance(c, ast.Call) and call_name(c) == "block_windows" for c in ast.walk(n.iter))):
            writes = [c for c in ast.walk(lp) if isinstance(c, ast.Call) and isinstance(c.func, ast.Attribute) and c.func.attr == "write" and any(k.arg == "window" for k in c.keywords)]
            cid = f"{nf.qual}#every-window-written"
            if not writes:
                out.append(Instance("R-GUARDSEQ", cid, BAD, "loop over block_windows() without a windowed write", nf.where(lp)))
                continue
            wst = enclosing_stmt(writes[0])
            top_level = wst in lp.body
            skips = [x for st in lp.body for x in ast.walk(st) if isinstance(x, (ast.Continue, ast.Break)) and (x.lineno < wst.lineno)]
            ok = top_level and not skips
            out.append(Instance("R-GUARDSEQ", cid, OK if ok else BAD,
                                "every block window is written (the write is unconditional in the loop body)" if ok else
                                f"the windowed write `{short(writes[0], 50)}` is skipped on some iterations ({'continue/break before it' if skips else 'it sits under a condition'}): windows left unwritten read back as GDAL's default, not as the array's values", nf.where(writes[0])))
    # (a3) every final copy names its driver: rasterio otherwise guesses it from the file name
    copies = [(fi, n) for fi in prog.all_functions({"cog._rio"}) for n in walk_own(fi.node) if isinstance(n, ast.Call) and call_name(n) == "rio_copy"]
    for k, (fi, n) in enumerate(copies):
        has = any(kw.arg == "driver" for kw in n.keywords)
        out.append(Instance("R-SIBLING", f"{fi.qual}#copy-driver:{k}", OK if has else BAD,
                            "final copy names the GTiff driver" if has else
                            f"`{short(n, 50)}` leaves the driver to be guessed from the destination's file name while the sibling copies pass driver=GTiff: names without .tif/.tiff fail ('Unable to detect driver') or silently produce another format", fi.where(n)))
    # (b)
    f = prog.func("cog._rio:write_cog_layers")
    org = Origins(f)
    for wn in walk_own(f.node):
        if not isinstance(wn, ast.With):
            continue
        for item in wn.items:
            c = item.context_expr
            if isinstance(c, ast.Call) and call_name(c) == "_memfiles_ovr" and c.args and isinstance(item.optional_vars, ast.Name):
                mm = item.optional_vars.id
                zipped = None
                for z in ast.walk(wn):
                    if isinstance(z, ast.Call) and call_name(z) == "zip" and any(isinstance(a, ast.Name) and a.id == mm for a in z.args):
                        zipped = next((a for a in z.args if not (isinstance(a, ast.Name) and a.id == mm)), None)
                arg = c.args[0]
                defs = [arg]
                if isinstance(arg, ast.Name):
                    defs = [v for _, v in org.defs.get(arg.id, [])] or [arg]
                cid = f"{f.qual}#one-file-per-layer"
                if zipped is None:
                    out.append(Instance("R-GUARDSEQ", cid, INFO, "side-car files are not consumed through zip()", f.where(c), nontrivial=False))
                    continue
                def _len_carrier(e: ast.AST) -> ast.AST:
                    # wrappers that keep the number of elements: map(f, X), list(X), tuple(X), reversed(X), sorted(X)
                    while isinstance(e, ast.Call) and isinstance(e.func, ast.Name) and ((e.func.id == "map" and len(e.args) == 2) or (e.func.id in ("list", "tuple", "reversed", "sorted", "iter") and len(e.args) == 1)):
                        e = e.args[-1]
                    return e

                zipped = _len_carrier(zipped)
                ok = all(isinstance(d, ast.Call) and call_name(d) == "len" and d.args and short(_len_carrier(d.args[0])) == short(zipped) for d in defs)
                if not ok:
                    # positive evidence of a different count: arithmetic on a length, a literal, the length of another parameter
                    zroots = org.roots(zipped)
                    differs = any(isinstance(d, (ast.BinOp, ast.Constant)) or (isinstance(d, ast.Call) and call_name(d) in ("max", "min")) or
                                  (isinstance(d, ast.Call) and call_name(d) == "len" and d.args and zroots and not (org.roots(d.args[0]) & zroots)) for d in defs)
                    if not differs:
                        out.append(Instance("R-GUARDSEQ", cid, UNDET, f"count `{short(defs[0], 40)}` and zipped sequence `{short(zipped, 40)}` are spelled differently but derive from the same value: not compared", f.where(c)))
                        continue
                out.append(Instance("R-GUARDSEQ", cid, OK if ok else BAD,
                                    f"_memfiles_ovr(len({short(zipped)})): as many side-car files as layers zipped with them" if ok else
                                    f"`{short(c)}` does not create len({short(zipped)}) files (count is `{short(defs[0])}`): zip() stops at the shorter sequence and the last layer(s) are silently not written", f.where(c)))
    return out


def rule_tiles_within_source(prog: Program) -> List[Instance]:
    """C05: the tile loop of _compress_tiles walks the *layout* (meta.tidx: padded to a multiple of
    2**levels) and names blocks of the *source* array. The padding can exceed the free space of the last
    tile, so the layout has tile rows/columns for which the source has no chunk. Every source-block key
    built from a layout index must therefore be guarded by a bound on the source's chunk grid (or the
    source must have been padded to the layout's shape first); an unguarded key that does not exist stays
    a literal tuple in the graph and the compressor fails on it."""
    out: List[Instance] = []
    f = prog.func("cog._tifffile:_compress_tiles")
    org = Origins(f)
    loops = [n for n in walk_own(f.node) if isinstance(n, ast.For) and any(isinstance(c, ast.Call) and call_name(c) == "tidx" for c in ast.walk(n.iter))]
    if not loops:
        return [Instance("R-GUARDSEQ", f"{f.qual}#tiles-within-source", UNDET, "no loop over the layout's tile index (meta.tidx) found", f.where())]
    # names holding the source collection / its name
    data_names = {t.id for n in walk_own(f.node) if isinstance(n, ast.Assign) for t in n.targets if isinstance(t, ast.Name) and isinstance(n.value, ast.Attribute) and n.value.attr == "data"}
    src_key_fns = {nf.name for nf in f.nested.values() if any(isinstance(r, ast.Return) and isinstance(r.value, ast.Tuple) for r in walk_own(nf.node))}
    padded = any(isinstance(n, ast.Assign) and any(isinstance(t, ast.Name) and t.id in data_names for t in n.targets) and any(isinstance(c, ast.Call) and call_name(c) == "pad" for c in ast.walk(n.value)) for n in walk_own(f.node))
    for lp in loops:
        idx_names = {t.id for t in ast.walk(lp.target) if isinstance(t, ast.Name)}
        refs = [c for c in ast.walk(lp) if isinstance(c, ast.Call) and call_name(c) in src_key_fns and names_in(c) & idx_names]
        if not refs:
            out.append(Instance("R-GUARDSEQ", f"{f.qual}#tiles-within-source", INFO, "tile loop does not build source block keys through a local helper", f.where(lp), nontrivial=False))
        for k, c in enumerate(refs):
            guarded = False
            p = parent(c)
            child = c
            while p is not None and p is not lp:
                test = None
                if isinstance(p, ast.IfExp) and child is p.body:
                    test = p.test
                elif isinstance(p, ast.If) and child in p.body:
                    test = p.test
                if test is not None:
                    for cmp_ in ast.walk(test):
                        if isinstance(cmp_, ast.Compare) and len(cmp_.ops) == 1 and isinstance(cmp_.ops[0], (ast.Lt, ast.LtE)) and names_in(cmp_.left) & idx_names:
                            bound_deps = org.deps_names(cmp_.comparators[0])
                            if bound_deps & data_names:
                                guarded = True
                child, p = p, parent(p)
            ok = guarded or padded
            out.append(Instance("R-GUARDSEQ", f"{f.qual}#tiles-within-source:{k}", OK if ok else BAD,
                                (f"source block `{short(c)}` is named only for layout indexes inside the source's chunk grid" if guarded else "source is padded to the layout before the tile loop") if ok else
                                f"`{short(c)}` names a source block for every tile of the padded layout: where the padding adds whole tile rows/columns (528x528 with 16px tiles, 100000x100000 with 256px tiles) the block does not exist and compute fails with AttributeError: 'tuple' object has no attribute 'ndim'", f.where(c)))
    return out


def rule_cog_levels(prog: Program) -> List[Instance]:
    """C05: (a) the per-level loop of _make_empty_cog prepares the shape/geobox of the *next* level only when
    there is one - after the last level a side of 1 shrinks to 0 and zoom_to divides by it (every 1xN / Nx1
    image); (b) yaxis_from_shape applies its RGB(A) shape heuristic (last axis 3 or 4 long) only where the
    GeoBox cannot tell which axes are spatial."""
    out: List[Instance] = []
    f = prog.func("cog._tifffile:_make_empty_cog")
    cond = Conditions(f.body)
    loops = [n for n in walk_own(f.node) if isinstance(n, ast.For) and any(isinstance(c, ast.Call) and call_name(c) == "range" and any(isinstance(x, ast.BinOp) and isinstance(x.op, ast.Add) and const_num(x.right) == 1 for x in ast.walk(c)) for c in ast.walk(n.iter))]
    n_sites = 0
    for lp in loops:
        idx_names = {t.id for t in ast.walk(lp.target) if isinstance(t, ast.Name)}
        for c in ast.walk(lp):
            if isinstance(c, ast.Call) and call_name(c) in ("shrink2", "zoom_to") and isinstance(c.func, ast.Attribute):
                n_sites += 1
                st = enclosing_stmt(c)
                guarded = any(isinstance(e, ast.Compare) and names_in(e) & idx_names and ((isinstance(e.ops[0], (ast.Lt, ast.NotEq)) and p) or (isinstance(e.ops[0], (ast.GtE, ast.Eq)) and not p)) for e, p in conds_at(cond, st))
                out.append(Instance("R-GUARDSEQ", f"{f.qual}#next-level-only:{call_name(c)}", OK if guarded else BAD,
                                    f"`{short(c, 40)}` prepares the next level only while the loop index is below the level count" if guarded else
                                    f"`{short(c, 40)}` also runs after the last level: a side of 1 pixel shrinks to 0 and zoom_to divides by it - every single-row/column image (and every image whose short side is <= 2**levels) raises ZeroDivisionError", f.where(c)))
    if n_sites == 0:
        out.append(Instance("R-GUARDSEQ", f"{f.qual}#next-level-only", INFO, "per-level shrink/zoom idiom not recognised", f.where(), nontrivial=False))
    y = prog.func("cog._shared:yaxis_from_shape")
    gp = y.param_names()[1] if len(y.param_names()) > 1 else "gbox"
    condy = Conditions(y.body)
    org = Origins(y)
    heur = []
    for r in walk_own(y.node):
        if not isinstance(r, ast.Return):
            continue
        for e, p in conds_at(condy, r):
            if p and isinstance(e, ast.Compare) and isinstance(e.ops[0], ast.In) and isinstance(e.comparators[0], (ast.Tuple, ast.List, ast.Set)) and {const_num(x) for x in e.comparators[0].elts} == {3, 4}:
                heur.append(r)
    for k, r in enumerate(heur):
        facts = conds_at(condy, r)
        knows = any(gp in org.deps_names(e) and not (isinstance(e, ast.Compare) and isinstance(e.ops[0], ast.In)) for e, _p in facts)
        # ... or a test on the geobox dominates the heuristic: an earlier top-level `if` on it that leaves
        # (returns / raises) whenever the geobox decides
        top = enclosing_stmt(r)
        while parent(top) is not None and parent(top) is not y.node:
            top = parent(top)
        for st in y.body:
            if st is top:
                break
            if isinstance(st, ast.If) and gp in org.deps_names(st.test) and any(isinstance(x, (ast.Return, ast.Raise)) for x in ast.walk(st)):
                knows = True
        out.append(Instance("R-GUARDSEQ", f"{y.qual}#geobox-before-heuristic:{k}", OK if knows else BAD,
                            "the RGB(A) shape heuristic is reached only after the GeoBox was consulted (absent or ambiguous)" if knows else
                            f"`{short(r)}` under the last-axis-is-3-or-4 heuristic is reached without consulting `{gp}`: a band-first image that is 3 or 4 pixels wide is written as pixel-interleaved RGB(A)", y.where(r)))
    if not heur:
        out.append(Instance("R-GUARDSEQ", f"{y.qual}#geobox-before-heuristic", INFO, "no RGB(A) shape heuristic found", y.where(), nontrivial=False))
    return out
