"""R-API: every reference into a third-party library resolves in the library installed in /venv.

The only rule that consults something besides /repo's source: the public namespace of the
installed third-party modules (importlib + getattr, which honours module ``__getattr__`` the way
the interpreter does).  No odc-geo code is imported.
"""
from __future__ import annotations

import ast
import importlib
import importlib.util
import warnings
from typing import Dict, List, Optional, Set, Tuple

from ..loader import FuncInfo, ModuleInfo, Program, dotted, func_of, parent
from ..report import BAD, INFO, OK, UNDET, Instance

STDLIB_SKIP = {"typing", "__future__"}
_mod_cache: Dict[str, object] = {}


def _import(name: str):
    if name in _mod_cache:
        return _mod_cache[name]
    try:
        with warnings.catch_warnings():
            warnings.simplefilter("ignore")
            m = importlib.import_module(name)
    except ModuleNotFoundError as e:
        # distinguish "library not installed" from "submodule vanished"
        top = name.split(".")[0]
        if e.name == top or importlib.util.find_spec(top) is None:
            m = "NOT-INSTALLED"
        else:
            m = None
    except Exception:  # pylint: disable=broad-except
        m = "IMPORT-ERROR"
    _mod_cache[name] = m
    return m


def _resolve(dotted_name: str) -> Tuple[str, str]:
    """('ok'|'missing'|'not-installed'|'unknown', detail)."""
    parts = dotted_name.split(".")
    # longest importable module prefix
    obj = None
    i = len(parts)
    first = _import(parts[0])
    if first == "NOT-INSTALLED":
        return "not-installed", parts[0]
    if first is None or first == "IMPORT-ERROR":
        return "unknown", f"cannot import {parts[0]}"
    obj = first
    k = 1
    while k < len(parts):
        nm = parts[k]
        try:
            with warnings.catch_warnings():
                warnings.simplefilter("ignore")
                nxt = getattr(obj, nm)
            obj = nxt
        except AttributeError:
            sub = _import(".".join(parts[: k + 1])) if hasattr(obj, "__path__") or hasattr(obj, "__spec__") else None
            if sub is None or sub in ("NOT-INSTALLED", "IMPORT-ERROR") or isinstance(sub, str):
                return "missing", f"`{'.'.join(parts[:k])}` has no attribute `{nm}` in the installed version"
            obj = sub
        except Exception as e:  # pylint: disable=broad-except
            return "unknown", f"getattr raised {type(e).__name__}"
        k += 1
        # stop descending into instances of arbitrary classes: only modules / classes / functions
    return "ok", ""


def _resolve_import(ref: str, frm: Optional[Tuple[str, str]]) -> Tuple[str, str]:
    """Resolve the way the import system does: modules through sys.modules, not getattr."""
    modname = frm[0] if frm is not None else ref
    m = _import(modname)
    if m == "NOT-INSTALLED":
        return "not-installed", modname.split(".")[0]
    if m is None:
        return "missing", f"module `{modname}` does not exist in the installed version"
    if m == "IMPORT-ERROR":
        return "unknown", f"importing {modname} raised"
    if frm is None:
        return "ok", ""
    name = frm[1]
    try:
        with warnings.catch_warnings():
            warnings.simplefilter("ignore")
            getattr(m, name)
        return "ok", ""
    except AttributeError:
        sub = _import(f"{modname}.{name}")
        if sub is not None and not isinstance(sub, str):
            return "ok", ""
        return "missing", f"`{modname}` has no attribute `{name}` in the installed version"
    except Exception as e:  # pylint: disable=broad-except
        return "unknown", f"getattr raised {type(e).__name__}"


def rule_api(prog: Program, modules: Optional[Set[str]] = None) -> List[Instance]:
    out: List[Instance] = []
    seen: Set[Tuple[str, str]] = set()
    for mi in sorted(prog.modules.values(), key=lambda m: m.name):
        if modules is not None and mi.name not in modules:
            continue
        # 1. import statements
        for n in ast.walk(mi.tree):
            refs: List[Tuple[str, ast.AST, Optional[Tuple[str, str]]]] = []
            if isinstance(n, ast.Import):
                for a in n.names:
                    refs.append((a.name, n, None))
            elif isinstance(n, ast.ImportFrom) and n.level == 0 and n.module and not n.module.startswith("odc."):
                for a in n.names:
                    if a.name != "*":
                        refs.append((f"{n.module}.{a.name}", n, (n.module, a.name)))
            for ref, node, frm in refs:
                top = ref.split(".")[0]
                if top in STDLIB_SKIP or top == "odc":
                    continue
                fi = func_of(node)
                ctx = fi.qual if fi is not None else f"{mi.name}:<module>"
                if _under_type_checking(node):
                    continue
                key = (ctx, ref)
                if key in seen:
                    continue
                seen.add(key)
                st, detail = _resolve_import(ref, frm)
                cid = f"{ctx}#import:{ref}"
                where = f"{mi.relpath}:{node.lineno}"
                if st == "ok":
                    out.append(Instance("R-API", cid, OK, f"`{ref}` resolves in the installed environment", where))
                elif st == "missing":
                    out.append(Instance("R-API", cid, BAD, f"import of `{ref}` cannot succeed: {detail}", where))
                elif st == "not-installed":
                    out.append(Instance("R-API", cid, INFO, f"optional library `{detail}` is not installed: undecided", where, nontrivial=False))
                else:
                    out.append(Instance("R-API", cid, INFO, f"`{ref}`: {detail}", where, nontrivial=False))
        # 2. attribute chains rooted at an imported external module alias
        ext_alias = {k: v[1] for k, v in mi.imports.items() if v[0] == "ext"}
        for n in ast.walk(mi.tree):
            if not isinstance(n, ast.Attribute):
                continue
            if isinstance(parent(n), ast.Attribute):
                continue  # only maximal chains
            if not isinstance(n.ctx, ast.Load):
                continue  # monkey-patching assignment, not a lookup
            d = dotted(n)
            if d is None:
                continue
            head, *rest = d.split(".")
            if head not in ext_alias:
                continue
            fi = func_of(n)
            # the alias may be shadowed by a local/parameter of the same name
            if fi is not None and _shadowed(fi, head):
                continue
            target = ext_alias[head]
            top = target.split(".")[0]
            if top in STDLIB_SKIP:
                continue
            base = _import(target) if "." not in target or _is_module(target) else None
            # only follow chains while we are inside modules/classes: trim to module-ish prefix
            full = ".".join([target, *rest])
            trimmed = _trim_to_static(full)
            if trimmed is None:
                continue
            ctx = fi.qual if fi is not None else f"{mi.name}:<module>"
            key = (ctx, trimmed)
            if key in seen:
                continue
            seen.add(key)
            st, detail = _resolve(trimmed)
            cid = f"{ctx}#attr:{trimmed}"
            where = f"{mi.relpath}:{n.lineno}"
            if st == "ok":
                out.append(Instance("R-API", cid, OK, f"`{trimmed}` exists in the installed environment", where))
            elif st == "missing":
                out.append(Instance("R-API", cid, BAD, f"`{d}`: {detail}", where))
            elif st == "not-installed":
                out.append(Instance("R-API", cid, INFO, f"optional library `{detail}` is not installed: undecided", where, nontrivial=False))
    return out


def _is_module(name: str) -> bool:
    m = _import(name)
    return m is not None and not isinstance(m, str) and hasattr(m, "__name__") and type(m).__name__ == "module"


def _trim_to_static(full: str) -> Optional[str]:
    """Keep the prefix of the chain that stays inside modules/classes/functions (static namespace)."""
    parts = full.split(".")
    first = _import(parts[0])
    if first == "NOT-INSTALLED":
        return full
    if first is None or isinstance(first, str):
        return None
    obj = first
    keep = [parts[0]]
    for nm in parts[1:]:
        kind = type(obj).__name__
        if kind != "module" and not isinstance(obj, type):
            break  # attribute of a function/instance: dynamic, not checked
        keep.append(nm)
        try:
            with warnings.catch_warnings():
                warnings.simplefilter("ignore")
                obj = getattr(obj, nm)
        except AttributeError:
            sub = _import(".".join(keep))
            if sub is None or isinstance(sub, str):
                return ".".join(keep)  # will be reported missing by _resolve
            obj = sub
        except Exception:  # pylint: disable=broad-except
            return None
    return ".".join(keep) if len(keep) > 1 else None


def _shadowed(fi: FuncInfo, name: str) -> bool:
    f: Optional[FuncInfo] = fi
    while f is not None:
        if name in f.param_names():
            return True
        f = f.parent
    return False


def _under_type_checking(node: ast.AST) -> bool:
    n = parent(node)
    while n is not None:
        if isinstance(n, ast.If):
            t = dotted(n.test) or ""
            if t.split(".")[-1] == "TYPE_CHECKING":
                return True
        n = parent(n)
    return False
