"""Generic slip rules, second batch (round 4): numbers that arrive as numpy scalars.

odc-geo's public functions are called with values taken out of arrays (`arr.shape`, `np.arange`, a
DataArray's `.values`, a float32 geolocation grid).  Such a value is not a Python int/float: arithmetic
stays in its dtype (NEP 50), so `-np.uint8(3)` is 253, `1 - np.uint8(3)` is 254, `2 ** np.int64(-2)`
raises, a running sum aliased to a 0-d array updates the caller's array in place, and
`isinstance(np.int64(3), int)` is False.  Every one of these was demonstrated against the real code in
round 4 (F61, F63, F69, F74, F79, F87, F88).  The rules below name the constructs; the accepted idiom is the
one the repository itself uses after the repairs: re-bind the parameter through `int()`, `float()` or
`operator.index()` before doing arithmetic with it, and test kinds with `numbers.Integral` / `Real`.

R-NUMNORM  (a) unary minus of, or <constant> minus, an int-annotated parameter that still holds the
               caller's object (no re-binding reaches the use);
           (b) the same for a local computed arithmetically from such parameters;
           (c) an augmented assignment (`d += step`) to a local that is a plain alias of a parameter
               (`d = resolution`): for an array argument this mutates the caller's object, and for a
               narrow dtype it accumulates in that dtype.
R-ISNUM    `isinstance(p, int)` / `isinstance(p, (int, float))` deciding between the scalar and the
           sequence/other form of a parameter: numpy scalars take the wrong branch.
"""
from __future__ import annotations

import ast
from typing import Dict, List, Optional, Set

from ..cfg import ReachingDefs
from ..loader import FuncInfo, Program, enclosing_stmt, parent, short, walk_own
from ..report import BAD, INFO, OK, Instance

INT_ANN = {"int", "MaybeInt", "Optional[int]", "int | None", "Union[int, None]", "Optional[MaybeInt]"}
NORMALISERS = {"int", "float", "index", "operator.index", "round", "len", "bool"}


def _int_params(fi: FuncInfo) -> Set[str]:
    out: Set[str] = set()
    for p in fi.params():
        if p.annotation is None:
            continue
        try:
            t = ast.unparse(p.annotation)
        except Exception:  # pragma: no cover
            continue
        if t in INT_ANN:
            out.add(p.arg)
    return out


def _still_param(rd: ReachingDefs, name: str, at: ast.AST) -> bool:
    st = enclosing_stmt(at)
    try:
        defs = rd.reaching(st, name)
    except Exception:
        return False
    return bool(defs) and all(k == "param" for (_n, _s, _v, k) in defs)


def _raw_names(e: ast.AST, ints: Set[str], rd: ReachingDefs, at: ast.AST) -> List[str]:
    """int-annotated parameters used in `e` (outside a normalising call) that still hold the caller's object."""
    out: List[str] = []

    def walk(x: ast.AST) -> None:
        if isinstance(x, ast.Call):
            f = x.func
            nm = f.id if isinstance(f, ast.Name) else (f.attr if isinstance(f, ast.Attribute) else "")
            if nm in NORMALISERS:
                return
        if isinstance(x, ast.Name) and x.id in ints and _still_param(rd, x.id, at):
            out.append(x.id)
        for ch in ast.iter_child_nodes(x):
            walk(ch)

    walk(e)
    return out


def _public(fi: FuncInfo) -> bool:
    """Reachable by users under its own name: no leading underscore on the function (dunders count as public)
    nor on an enclosing function/class. Private helpers get their numbers from public wrappers, which is where
    the normalisation belongs."""
    f: Optional[FuncInfo] = fi
    while f is not None:
        nm = f.name
        if nm.startswith("_") and not (nm.startswith("__") and nm.endswith("__")):
            return False
        f = f.parent
    return not (fi.cls is not None and fi.cls.name.startswith("_"))


def rule_numnorm(prog: Program, modules: Optional[Set[str]] = None) -> List[Instance]:
    out: List[Instance] = []
    n_fn = n_sites = 0
    for fi in prog.all_functions(modules):
        if not _public(fi):
            continue
        ints = _int_params(fi)
        params = set(fi.param_names())
        augs = [n for n in walk_own(fi.node) if isinstance(n, ast.AugAssign) and isinstance(n.target, ast.Name) and isinstance(n.op, (ast.Add, ast.Sub, ast.Mult))]
        if not ints and not augs:
            continue
        n_fn += 1
        rd = ReachingDefs(fi.node)
        seen: Set[str] = set()
        if ints:
            # locals computed arithmetically from raw int parameters (one level)
            derived: Dict[str, List[str]] = {}
            for n in walk_own(fi.node):
                if isinstance(n, ast.Assign) and len(n.targets) == 1 and isinstance(n.targets[0], ast.Name) and isinstance(n.value, ast.BinOp):
                    # integer arithmetic only: every leaf is an int parameter or an int constant, operators + - * //
                    # (a product with a float local is a float, its negation cannot wrap)
                    leaves_ok = all(
                        (isinstance(x, ast.Name) and x.id in ints)
                        or (isinstance(x, ast.Constant) and isinstance(x.value, int))
                        or isinstance(x, (ast.BinOp, ast.BoolOp, ast.Add, ast.Sub, ast.Mult, ast.FloorDiv, ast.Or, ast.And, ast.Load, ast.UnaryOp, ast.USub, ast.UAdd))
                        for x in ast.walk(n.value)
                    )
                    raw = _raw_names(n.value, ints, rd, n) if leaves_ok else []
                    if raw:
                        derived[n.targets[0].id] = raw
            for n in walk_own(fi.node):
                operand = None
                why = ""
                if isinstance(n, ast.UnaryOp) and isinstance(n.op, ast.USub):
                    operand, why = n.operand, "negation"
                elif isinstance(n, ast.BinOp) and isinstance(n.op, ast.Sub) and isinstance(n.left, ast.Constant) and isinstance(n.left.value, int):
                    operand, why = n.right, "constant minus value"
                if operand is None:
                    continue
                n_sites += 1
                raw = _raw_names(operand, ints, rd, n)
                via = ""
                if not raw and isinstance(operand, ast.Name) and operand.id in derived:
                    defs = rd.reaching(enclosing_stmt(n), operand.id)
                    if defs and all(k == "assign" and isinstance(v, ast.BinOp) for (_n, _s, v, k) in defs):
                        raw, via = derived[operand.id], f" (through `{operand.id}`)"
                if raw:
                    cid = f"{fi.qual}#numnorm:{short(n, 30)}"
                    if cid in seen:
                        continue
                    seen.add(cid)
                    out.append(Instance("R-NUMNORM", cid, BAD,
                                        f"`{short(n, 50)}`: {why} of the int parameter {sorted(set(raw))}{via} in whatever type the caller passed: for an unsigned numpy integer the result wraps around (-np.uint8(3) == 253), re-bind it through int()/operator.index() first", fi.where(n)))
        for n in augs:
            n_sites += 1
            t = n.target.id  # type: ignore[union-attr]
            defs = rd.reaching(n, t)
            alias_of = None
            for (_nm, st_, v, k) in defs:
                if k == "assign" and isinstance(v, ast.Name) and v.id in params and st_ is not None and _still_param(rd, v.id, st_):
                    alias_of = v.id
            if alias_of is not None:
                out.append(Instance("R-NUMNORM", f"{fi.qual}#numnorm:alias:{t}", BAD,
                                    f"`{short(n, 40)}` updates `{t}` in place while it is an alias of the parameter `{alias_of}`: a 0-d array argument is modified for the caller (and doubles the step each time it is added to itself), a narrow numpy scalar accumulates in its own dtype", fi.where(n)))
    out.append(Instance("R-NUMNORM", f"{'+'.join(sorted(modules)) if modules else 'package'}#numnorm-scan", OK if not any(i.status == BAD for i in out) else INFO,
                        f"{n_fn} functions with int-annotated parameters or augmented assignments, {n_sites} negation / constant-minus / in-place sites examined", ""))
    return out


# dispatch sites that are not reachable with a numpy scalar, one reason each (confirmed by reading)
ISNUM_EXEMPT = {
    "cog._tifffile:geotiff_metadata/_dtype_as_int": "tifffile tag dtypes: an enum member or the plain int tifffile itself produced, never user input",
    "crs:_make_crs": "only called from CRS.__init__, which re-binds numbers.Integral codes through int() first (checked below)",
    "crs:_make_crs_key": "cache-key twin of _make_crs, same caller",
}


def _crs_init_normalises(prog: Program) -> bool:
    f = prog.maybe_func("crs:CRS.__init__")
    if f is None:
        return False
    for n in walk_own(f.node):
        if isinstance(n, ast.If) and any(isinstance(c, ast.Call) and isinstance(c.func, ast.Name) and c.func.id == "isinstance" and any(isinstance(x, ast.Name) and x.id in ("Integral", "Number", "integer") or isinstance(x, ast.Attribute) and x.attr in ("Integral", "integer") for x in ast.walk(c.args[1])) for c in ast.walk(n.test)):
            if any(isinstance(c, ast.Call) and isinstance(c.func, ast.Name) and c.func.id == "int" for st in n.body for c in ast.walk(st)):
                return True
    return False


def rule_isnum(prog: Program, modules: Optional[Set[str]] = None) -> List[Instance]:
    out: List[Instance] = []
    n_sites = 0
    crs_ok = _crs_init_normalises(prog)
    for fi in prog.all_functions(modules):
        if fi.qual in ISNUM_EXEMPT and (not fi.qual.startswith("crs:") or crs_ok):
            out.append(Instance("R-ISNUM", f"{fi.qual}#isnum-exempt", INFO, ISNUM_EXEMPT[fi.qual], fi.where(), nontrivial=False))
            continue
        params = set(fi.param_names())
        if fi.parent is not None:
            params |= set(fi.parent.param_names())
        for n in walk_own(fi.node):
            if not (isinstance(n, ast.Call) and isinstance(n.func, ast.Name) and n.func.id == "isinstance" and len(n.args) == 2):
                continue
            subj, kinds = n.args
            ks = kinds.elts if isinstance(kinds, ast.Tuple) else [kinds]
            names = {k.id for k in ks if isinstance(k, ast.Name)}
            if not names or not names <= {"int", "float"} or len(names) != len(ks):
                continue
            if not (isinstance(subj, ast.Name) and subj.id in params):
                continue
            n_sites += 1
            # only where the test *dispatches* (if / elif / ternary / boolean operand), not inside an assert
            p = parent(n)
            in_assert = False
            q = n
            while q is not None and not isinstance(q, ast.stmt):
                q = parent(q)
            if isinstance(q, ast.Assert):
                in_assert = True
            if in_assert:
                continue
            del p
            out.append(Instance("R-ISNUM", f"{fi.qual}#isnum:{subj.id}", BAD,
                                f"`{short(n)}` decides which form of `{subj.id}` was passed by testing for the built-in {sorted(names)}: a numpy scalar (np.int64 from a shape or np.arange, np.float32 from an array) is neither and takes the other branch; test numbers.Integral / numbers.Real", fi.where(n)))
    out.append(Instance("R-ISNUM", f"{'+'.join(sorted(modules)) if modules else 'package'}#isnum-scan", OK if not any(i.status == BAD for i in out) else INFO,
                        f"{n_sites} isinstance(<parameter>, int/float) dispatch sites", ""))
    return out
