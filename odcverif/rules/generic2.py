"""Generic slip rules, second batch (round 4): numbers that arrive as numpy scalars.

odc-geo's public functions are called with values taken out of arrays (`arr.shape`, `np.arange`, a
DataArray's `.values`, a float32 geolocation grid).  Such a value is not a Python int/float: arithmetic
stays in its dtype (NEP 50), so `-np.uint8(3)` is 253, `1 - np.uint8(3)` is 254, `2 ** np.int64(-2)`
raises, a running sum aliased to a 0-d array updates the caller's array in place, and
`isinstance(np.int64(3), int)` is False.  Every one of these was demonstrated against the real code in
round 4 (F61, F63, F69, F74, F79, F87, F88).  The rules below name the constructs; the accepted idiom is the
one the repository itself uses after the repairs: re-bind the parameter through `int()`, `float()` or
`operator.index()` before doing arithmetic with it, and test kinds with `numbers.Integral` / `Real`.

R-NUMNORM  (a) unary minus of, or <constant> minus, an int-annotated parameter that still holds the
               caller's object (no re-binding reaches the use);
           (b) the same for a local computed arithmetically from such parameters;
           (c) an augmented assignment (`d += step`) to a local that is a plain alias of a parameter
               (`d = resolution`): for an array argument this mutates the caller's object, and for a
               narrow dtype it accumulates in that dtype.
R-ISNUM    `isinstance(p, int)` / `isinstance(p, (int, float))` deciding between the scalar and the
           sequence/other form of a parameter: numpy scalars take the wrong branch.
"""
from __future__ import annotations

import ast
from typing import Dict, List, Optional, Set

from ..astutil import Origins, with_folded
from ..cfg import ReachingDefs
from ..loader import ClassInfo, FuncInfo, Program, enclosing_stmt, parent, short, walk_own
from ..report import BAD, INFO, OK, Instance

INT_ANN = {"int", "MaybeInt", "Optional[int]", "int | None", "Union[int, None]", "Optional[MaybeInt]"}
NORMALISERS = {"int", "float", "index", "operator.index", "round", "len", "bool"}


def _int_params(fi: FuncInfo) -> Set[str]:
    out: Set[str] = set()
    for p in fi.params():
        if p.annotation is None:
            continue
        try:
            t = ast.unparse(p.annotation)
        except Exception:  # pragma: no cover
            continue
        if t in INT_ANN:
            out.add(p.arg)
    return out


def _still_param(rd: ReachingDefs, name: str, at: ast.AST) -> bool:
    st = enclosing_stmt(at)
    try:
        defs = rd.reaching(st, name)
    except Exception:
        return False
    return bool(defs) and all(k == "param" for (_n, _s, _v, k) in defs)


def _raw_names(e: ast.AST, ints: Set[str], rd: ReachingDefs, at: ast.AST) -> List[str]:
    """int-annotated parameters used in `e` (outside a normalising call) that still hold the caller's object."""
    out: List[str] = []

    def walk(x: ast.AST) -> None:
        if isinstance(x, ast.Call):
            f = x.func
            nm = f.id if isinstance(f, ast.Name) else (f.attr if isinstance(f, ast.Attribute) else "")
            if nm in NORMALISERS:
                return
        if isinstance(x, ast.Name) and x.id in ints and _still_param(rd, x.id, at):
            out.append(x.id)
        for ch in ast.iter_child_nodes(x):
            walk(ch)

    walk(e)
    return out


def _public(fi: FuncInfo) -> bool:
    """Reachable by users under its own name: no leading underscore on the function (dunders count as public)
    nor on an enclosing function/class. Private helpers get their numbers from public wrappers, which is where
    the normalisation belongs."""
    f: Optional[FuncInfo] = fi
    while f is not None:
        nm = f.name
        if nm.startswith("_") and not (nm.startswith("__") and nm.endswith("__")):
            return False
        f = f.parent
    return not (fi.cls is not None and fi.cls.name.startswith("_"))


def rule_numnorm(prog: Program, modules: Optional[Set[str]] = None) -> List[Instance]:
    out: List[Instance] = []
    n_fn = n_sites = 0
    for fi in prog.all_functions(modules):
        if not _public(fi):
            continue
        ints = _int_params(fi)
        params = set(fi.param_names())
        augs = [n for n in walk_own(fi.node) if isinstance(n, ast.AugAssign) and isinstance(n.target, ast.Name) and isinstance(n.op, (ast.Add, ast.Sub, ast.Mult))]
        if not ints and not augs:
            continue
        n_fn += 1
        rd = ReachingDefs(fi.node)
        seen: Set[str] = set()
        if ints:
            # locals computed arithmetically from raw int parameters (one level)
            derived: Dict[str, List[str]] = {}
            for n in walk_own(fi.node):
                if isinstance(n, ast.Assign) and len(n.targets) == 1 and isinstance(n.targets[0], ast.Name) and isinstance(n.value, ast.BinOp):
                    # integer arithmetic only: every leaf is an int parameter or an int constant, operators + - * //
                    # (a product with a float local is a float, its negation cannot wrap)
                    leaves_ok = all(
                        (isinstance(x, ast.Name) and x.id in ints)
                        or (isinstance(x, ast.Constant) and isinstance(x.value, int))
                        or isinstance(x, (ast.BinOp, ast.BoolOp, ast.Add, ast.Sub, ast.Mult, ast.FloorDiv, ast.Or, ast.And, ast.Load, ast.UnaryOp, ast.USub, ast.UAdd))
                        for x in ast.walk(n.value)
                    )
                    raw = _raw_names(n.value, ints, rd, n) if leaves_ok else []
                    if raw:
                        derived[n.targets[0].id] = raw
            for n in walk_own(fi.node):
                operand = None
                why = ""
                if isinstance(n, ast.UnaryOp) and isinstance(n.op, ast.USub):
                    operand, why = n.operand, "negation"
                elif isinstance(n, ast.BinOp) and isinstance(n.op, ast.Sub) and isinstance(n.left, ast.Constant) and isinstance(n.left.value, int):
                    operand, why = n.right, "constant minus value"
                if operand is None:
                    continue
                n_sites += 1
                raw = _raw_names(operand, ints, rd, n)
                via = ""
                if not raw and isinstance(operand, ast.Name) and operand.id in derived:
                    defs = rd.reaching(enclosing_stmt(n), operand.id)
                    if defs and all(k == "assign" and isinstance(v, ast.BinOp) for (_n, _s, v, k) in defs):
                        raw, via = derived[operand.id], f" (through `{operand.id}`)"
                if raw:
                    cid = f"{fi.qual}#numnorm:{short(n, 30)}"
                    if cid in seen:
                        continue
                    seen.add(cid)
                    out.append(Instance("R-NUMNORM", cid, BAD,
                                        f"`{short(n, 50)}`: {why} of the int parameter {sorted(set(raw))}{via} in whatever type the caller passed: for an unsigned numpy integer the result wraps around (-np.uint8(3) == 253), re-bind it through int()/operator.index() first", fi.where(n)))
        for n in augs:
            n_sites += 1
            t = n.target.id  # type: ignore[union-attr]
            defs = rd.reaching(n, t)
            alias_of = None
            for (_nm, st_, v, k) in defs:
                if k == "assign" and isinstance(v, ast.Name) and v.id in params and st_ is not None and _still_param(rd, v.id, st_):
                    alias_of = v.id
            if alias_of is not None:
                out.append(Instance("R-NUMNORM", f"{fi.qual}#numnorm:alias:{t}", BAD,
                                    f"`{short(n, 40)}` updates `{t}` in place while it is an alias of the parameter `{alias_of}`: a 0-d array argument is modified for the caller (and doubles the step each time it is added to itself), a narrow numpy scalar accumulates in its own dtype", fi.where(n)))
    out.append(Instance("R-NUMNORM", f"{'+'.join(sorted(modules)) if modules else 'package'}#numnorm-scan", OK if not any(i.status == BAD for i in out) else INFO,
                        f"{n_fn} functions with int-annotated parameters or augmented assignments, {n_sites} negation / constant-minus / in-place sites examined", ""))
    return out


# dispatch sites that are not reachable with a numpy scalar, one reason each (confirmed by reading)
ISNUM_EXEMPT = {
    "cog._tifffile:geotiff_metadata/_dtype_as_int": "tifffile tag dtypes: an enum member or the plain int tifffile itself produced, never user input",
    "crs:_make_crs": "only called from CRS.__init__, which re-binds numbers.Integral codes through int() first (checked below)",
    "crs:_make_crs_key": "cache-key twin of _make_crs, same caller",
}


def _crs_init_normalises(prog: Program) -> bool:
    f = prog.maybe_func("crs:CRS.__init__")
    if f is None:
        return False
    for n in walk_own(f.node):
        if isinstance(n, ast.If) and any(isinstance(c, ast.Call) and isinstance(c.func, ast.Name) and c.func.id == "isinstance" and any(isinstance(x, ast.Name) and x.id in ("Integral", "Number", "integer") or isinstance(x, ast.Attribute) and x.attr in ("Integral", "integer") for x in ast.walk(c.args[1])) for c in ast.walk(n.test)):
            if any(isinstance(c, ast.Call) and isinstance(c.func, ast.Name) and c.func.id == "int" for st in n.body for c in ast.walk(st)):
                return True
    return False


def rule_isnum(prog: Program, modules: Optional[Set[str]] = None) -> List[Instance]:
    out: List[Instance] = []
    n_sites = 0
    crs_ok = _crs_init_normalises(prog)
    for fi in prog.all_functions(modules):
        if fi.qual in ISNUM_EXEMPT and (not fi.qual.startswith("crs:") or crs_ok):
            out.append(Instance("R-ISNUM", f"{fi.qual}#isnum-exempt", INFO, ISNUM_EXEMPT[fi.qual], fi.where(), nontrivial=False))
            continue
        params = set(fi.param_names())
        if fi.parent is not None:
            params |= set(fi.parent.param_names())
        org = None
        for n in walk_own(fi.node):
            if not (isinstance(n, ast.Call) and isinstance(n.func, ast.Name) and n.func.id == "isinstance" and len(n.args) == 2):
                continue
            subj, kinds = n.args
            ks = kinds.elts if isinstance(kinds, ast.Tuple) else [kinds]
            names = {k.id for k in ks if isinstance(k, ast.Name)}
            if not names or not names <= {"int", "float"} or len(names) != len(ks):
                continue
            if not isinstance(subj, ast.Name):
                continue
            if subj.id not in params:
                # an element of a parameter (loop / comprehension variable over it, unpacked item): same values
                if org is None:
                    org = Origins(fi)
                loopvar = any(isinstance(x, (ast.comprehension, ast.For)) and any(isinstance(y, ast.Name) and y.id == subj.id for y in ast.walk(x.target)) for x in ast.walk(fi.node))
                if not (org.roots(subj) & params) or not loopvar:
                    continue
            n_sites += 1
            # only where the test *dispatches* (if / elif / ternary / boolean operand), not inside an assert
            p = parent(n)
            in_assert = False
            q = n
            while q is not None and not isinstance(q, ast.stmt):
                q = parent(q)
            if isinstance(q, ast.Assert):
                in_assert = True
            if in_assert:
                continue
            del p
            out.append(Instance("R-ISNUM", f"{fi.qual}#isnum:{subj.id}", BAD,
                                f"`{short(n)}` decides which form of `{subj.id}` was passed by testing for the built-in {sorted(names)}: a numpy scalar (np.int64 from a shape or np.arange, np.float32 from an array) is neither and takes the other branch; test numbers.Integral / numbers.Real", fi.where(n)))
    out.append(Instance("R-ISNUM", f"{'+'.join(sorted(modules)) if modules else 'package'}#isnum-scan", OK if not any(i.status == BAD for i in out) else INFO,
                        f"{n_sites} isinstance(<parameter>, int/float) dispatch sites", ""))
    return out


# ---------------------------------------------------------------------------------------------
# R-VALUEOBJ EQSYM: cross-type equality has to be accepted from both sides
# ---------------------------------------------------------------------------------------------
def rule_eqsym(prog: Program, modules: Optional[Set[str]] = None) -> List[Instance]:
    """`a == b` calls `type(a).__eq__` (unless type(b) is a subclass of type(a)). If `A.__eq__` has a branch that
    accepts instances of an unrelated package class B (`isinstance(other, B)` leading to anything but `return
    False` / NotImplemented), then `B.__eq__` must accept A the same way, otherwise `a == b` and `b == a`
    differ (and, through containers that compare members, so does equality of everything holding them).
    Decides which types each `__eq__` lets in, not what it compares."""
    out: List[Instance] = []

    def accepted(ci: ClassInfo) -> Set[str]:
        eq = ci.methods.get("__eq__")
        if eq is None:
            return set()
        pp = eq.positional_params()
        if len(pp) < 2:
            return set()
        other = pp[1].arg
        acc: Set[str] = set()
        for n in walk_own(eq.node):
            if isinstance(n, ast.Call) and isinstance(n.func, ast.Name) and n.func.id == "isinstance" and len(n.args) == 2 and isinstance(n.args[0], ast.Name) and n.args[0].id == other:
                ks = n.args[1].elts if isinstance(n.args[1], ast.Tuple) else [n.args[1]]
                for k in ks:
                    nm = k.id if isinstance(k, ast.Name) else (k.attr if isinstance(k, ast.Attribute) else None)
                    if nm:
                        acc.add(nm)
        return acc

    by_name: Dict[str, List[ClassInfo]] = {}
    for ci in prog.classes.values():
        by_name.setdefault(ci.name, []).append(ci)
    n = 0
    for ci in sorted(prog.classes.values(), key=lambda c: c.qual):
        if modules is not None and ci.mod.name not in modules:
            continue
        acc = accepted(ci)
        if not acc:
            continue
        fam = {c.name for c in ci.mro()}
        for nm in sorted(acc - fam):
            for other_ci in by_name.get(nm, []):
                if ci.name in {c.name for c in other_ci.mro()}:
                    continue  # subclass of ci: Python tries the subclass' __eq__ first
                n += 1
                back = accepted(other_ci)
                # the other side lets A in if it names A or one of A's bases
                ok = bool(back & fam) or "__eq__" not in other_ci.methods and False
                eq = ci.methods["__eq__"]
                out.append(Instance("R-VALUEOBJ", f"{ci.qual}#EQSYM:{nm}", OK if ok else BAD,
                                    f"{ci.name}.__eq__ accepts {nm} and {nm}.__eq__ accepts {sorted(back & fam)}" if ok else
                                    f"{ci.name}.__eq__ has a branch for {nm} instances but {nm}.__eq__ lets in only {sorted(back) or 'nothing'}: `{ci.name.lower()} == {nm.lower()}` can be True while `{nm.lower()} == {ci.name.lower()}` is False - equality is not symmetric (and not transitive through the third class)", eq.where()))
    out.append(Instance("R-VALUEOBJ", f"{'+'.join(sorted(modules)) if modules else 'package'}#EQSYM-scan", OK if not any(i.status == BAD for i in out) else INFO,
                        f"{n} cross-type equality branches between unrelated package classes", ""))
    return out


# ---------------------------------------------------------------------------------------------
# R-SHIFTIDX: a shifted index (`a[i + 1]`) is used where the guard above it admits negative i
# ---------------------------------------------------------------------------------------------
def rule_shiftidx(prog: Program, modules: Optional[Set[str]] = None) -> List[Instance]:
    """numpy/list indexing wraps negative positions, so `a[i]` with -n <= i < 0 is the i-th element from the
    end - but `a[i + 1]` is then *not* the element after it once i + 1 reaches 0 (`a[-1 + 1]` is `a[0]`).
    Where the path condition at a shifted subscript states a range for the index whose lower bound is negative
    (`-n <= i < n`: the author's own belief that negative indexes arrive here), the index has to be re-based
    (`i = n + i`) first. Contradiction rule: fires only when the guard itself admits negatives."""
    from ..cfg import Conditions
    from .guards import conds_at

    out: List[Instance] = []
    n_sites = 0
    for fi in prog.all_functions(modules):
        subs = []
        for n in walk_own(fi.node):
            if isinstance(n, ast.Subscript) and isinstance(n.slice, ast.BinOp) and isinstance(n.slice.op, (ast.Add, ast.Sub)):
                l, r = n.slice.left, n.slice.right
                if isinstance(l, ast.Name) and isinstance(r, ast.Constant) and isinstance(r.value, int) and r.value != 0:
                    subs.append((n, l.id))
        if not subs:
            continue
        cond = Conditions(fi.body)
        for n, var in subs:
            n_sites += 1
            neg_lower = None
            for e, pol in conds_at(cond, enclosing_stmt(n)):
                if not pol or not isinstance(e, ast.Compare):
                    continue
                terms = [e.left] + list(e.comparators)
                for k, op in enumerate(e.ops):
                    a, b = terms[k], terms[k + 1]
                    # lower bound of var:  L <= var / L < var   or   var >= L / var > L
                    lo = None
                    if isinstance(b, ast.Name) and b.id == var and isinstance(op, (ast.LtE, ast.Lt)):
                        lo = a
                    if isinstance(a, ast.Name) and a.id == var and isinstance(op, (ast.GtE, ast.Gt)):
                        lo = b
                    if lo is not None and (isinstance(lo, ast.UnaryOp) and isinstance(lo.op, ast.USub) or (isinstance(lo, ast.Constant) and isinstance(lo.value, (int, float)) and lo.value < 0)):
                        neg_lower = e
            if neg_lower is not None:
                out.append(Instance("R-SHIFTIDX", f"{fi.qual}#shiftidx:{short(n, 30)}", BAD,
                                    f"`{short(n)}` shifts an index that the guard `{short(neg_lower)}` allows to be negative: for {var} = -1 the shifted position is 0, the first element, not the one after the last - negative indexes must be re-based ({var} = n + {var}) before they are shifted", fi.where(n)))
    out.append(Instance("R-SHIFTIDX", f"{'+'.join(sorted(modules)) if modules else 'package'}#shiftidx-scan", OK if not any(i.status == BAD for i in out) else INFO,
                        f"{n_sites} shifted subscripts (a[i + k]), none under a guard that admits a negative index", ""))
    return out


# ---------------------------------------------------------------------------------------------
# R-SWALLOW: a refusal turned into a definite answer
# ---------------------------------------------------------------------------------------------
def rule_swallow(prog: Program, modules: Optional[Set[str]] = None) -> List[Instance]:
    """A package helper that cannot answer raises (roi_shape: "Can't determine shape of the slice with open
    right-hand side"). A predicate (`-> bool`) that wraps such a call in try/except and returns a boolean
    constant from the handler turns "cannot tell" into a definite yes/no. Comparison dunders are exempt (an
    operand that cannot be interpreted is simply unequal)."""
    out: List[Instance] = []
    n_sites = 0
    for fi in prog.all_functions(modules):
        top = fi
        while top.parent is not None:
            top = top.parent
        ann = top.node.returns if hasattr(top.node, "returns") else None
        own_ann = fi.node.returns if hasattr(fi.node, "returns") else None
        is_pred = any(a is not None and short(a) == "bool" for a in (ann, own_ann))
        if not is_pred or (fi.name.startswith("__") and fi.name.endswith("__")) or (top.name.startswith("__") and top.name.endswith("__")):
            continue
        for n in walk_own(fi.node):
            if not isinstance(n, ast.Try):
                continue
            # only where the guarded call is a package function (its raise is a refusal we can read)
            guarded = [c for st in n.body for c in ast.walk(st) if isinstance(c, ast.Call)]
            pkg = [c for c in guarded if prog.resolve_call(c, fi)]
            if not pkg:
                continue
            for h in n.handlers:
                n_sites += 1
                rets = [r for st in h.body for r in ast.walk(st) if isinstance(r, ast.Return) and isinstance(r.value, ast.Constant) and isinstance(r.value.value, bool)]
                if rets:
                    out.append(Instance("R-SWALLOW", f"{fi.qual}#swallow:{short(h.type) if h.type is not None else 'bare'}", BAD,
                                        f"`except {short(h.type) if h.type is not None else ''}: return {rets[0].value.value}` in a predicate: `{short(pkg[0], 40)}` raises when it cannot tell, the handler answers {rets[0].value.value} instead - for some inputs that definite answer is wrong", fi.where(h)))
    out.append(Instance("R-SWALLOW", f"{'+'.join(sorted(modules)) if modules else 'package'}#swallow-scan", OK if not any(i.status == BAD for i in out) else INFO,
                        f"{n_sites} exception handlers around package calls inside predicates, none returns a boolean constant", ""))
    return out


# ---------------------------------------------------------------------------------------------
# R-UNITS: densification step handed to to_crs() is in the units of the geometry being converted
# ---------------------------------------------------------------------------------------------
def rule_units(prog: Program, modules: Optional[Set[str]] = None) -> List[Instance]:
    """`g.to_crs(target, resolution=E)` densifies g *before* projecting: E is a length in g's own CRS. A step
    computed from the target side (the grid's tile size / pixel size, i.e. from what the target CRS expression
    itself depends on) is in the wrong units - degrees vs metres - and silently switches densification off
    (or floods the geometry with vertices). Accepted: "auto", or anything derived from g."""
    out: List[Instance] = []
    n_sites = 0
    for fi in prog.all_functions(modules):
        org = None
        for n in walk_own(fi.node):
            if not (isinstance(n, ast.Call) and isinstance(n.func, ast.Attribute) and n.func.attr == "to_crs" and n.args):
                continue
            res = next((k.value for k in n.keywords if k.arg == "resolution"), n.args[1] if len(n.args) > 1 else None)
            if res is None or isinstance(res, ast.Constant):
                continue
            if org is None:
                org = Origins(fi)
            n_sites += 1
            # what the converted geometry is: the names in the receiver and the parameters it originates from (not
            # everything an earlier/later re-binding of the same name mentions - `g = g.to_crs(self.crs, ..)`)
            geom_names = {x.id for x in ast.walk(n.func.value) if isinstance(x, ast.Name)} | org.roots(n.func.value)
            tgt_names = org.deps_names(n.args[0]) - geom_names
            res_names = org.deps_names(res)
            wrong = sorted(res_names & tgt_names)
            if wrong and not (res_names & geom_names - tgt_names):
                out.append(Instance("R-UNITS", f"{fi.qual}#units:{short(res, 30)}", BAD,
                                    f"`{short(n, 70)}`: the densification step `{short(res)}` comes from {wrong}, the side that defines the *target* CRS, but it is applied in the CRS of `{short(n.func.value)}` before projecting: for a lon/lat polygon and a metre grid it is read as degrees and nothing is densified", fi.where(n)))
    out.append(Instance("R-UNITS", f"{'+'.join(sorted(modules)) if modules else 'package'}#units-scan", OK if not any(i.status == BAD for i in out) else INFO,
                        f"{n_sites} to_crs calls with a computed densification step, none computed from the target side", ""))
    return out


# ---------------------------------------------------------------------------------------------
# R-REVRANGE: the reversed twin of range(a, b) is range(b - 1, a - 1, -1)
# ---------------------------------------------------------------------------------------------
def rule_revrange(prog: Program, modules: Optional[Set[str]] = None) -> List[Instance]:
    """Two alternatives (arms of a conditional expression, or if/else assigning the same name) that walk the same
    half-open interval forwards `range(a, b)` and backwards `range(p, q, -1)` visit the same elements only if
    p is b - 1 and q is a - 1. Sibling-agreement rule; fires only when both forms occur as alternatives."""
    out: List[Instance] = []
    n_sites = 0

    def rng(e: ast.AST):
        return e if isinstance(e, ast.Call) and isinstance(e.func, ast.Name) and e.func.id == "range" else None

    def minus1(e: ast.AST, base: ast.AST) -> bool:
        return isinstance(e, ast.BinOp) and isinstance(e.op, ast.Sub) and isinstance(e.right, ast.Constant) and e.right.value == 1 and short(e.left) == short(base)

    for fi in prog.all_functions(modules):
        pairs = []
        for n in with_folded(walk_own(fi.node)):
            if isinstance(n, ast.IfExp) and rng(n.body) and rng(n.orelse):
                pairs.append((n.body, n.orelse, n))
            if isinstance(n, ast.If) and len(n.body) == 1 and len(n.orelse) == 1 and all(isinstance(s, ast.Assign) and len(s.targets) == 1 for s in (n.body[0], n.orelse[0])):
                a, b = n.body[0], n.orelse[0]
                if short(a.targets[0]) == short(b.targets[0]) and rng(a.value) and rng(b.value):
                    pairs.append((a.value, b.value, n))
        for x, y, node in pairs:
            fwd = next((r for r in (x, y) if len(r.args) == 2), None)
            bwd = next((r for r in (x, y) if len(r.args) == 3 and isinstance(r.args[2], ast.UnaryOp) and isinstance(r.args[2].op, ast.USub) and const_is(r.args[2].operand, 1)), None)
            if fwd is None or bwd is None:
                continue
            n_sites += 1
            a, b = fwd.args
            ok = minus1(bwd.args[0], b) and minus1(bwd.args[1], a)
            out.append(Instance("R-REVRANGE", f"{fi.qual}#revrange:{short(bwd, 30)}", OK if ok else BAD,
                                f"`{short(bwd)}` is `{short(fwd)}` backwards" if ok else
                                f"`{short(bwd)}` is offered as the reverse of `{short(fwd)}` but visits {short(bwd.args[0])} .. {short(bwd.args[1])}+1: the reverse of a half-open range is range({short(b)} - 1, {short(a)} - 1, -1) - one element is skipped at one end and one outside the interval is visited at the other", fi.where(bwd)))
    out.append(Instance("R-REVRANGE", f"{'+'.join(sorted(modules)) if modules else 'package'}#revrange-scan", OK if not any(i.status == BAD for i in out) else INFO,
                        f"{n_sites} forward/backward range alternatives", ""))
    return out


def const_is(e: ast.AST, v) -> bool:
    return isinstance(e, ast.Constant) and e.value == v


# ---------------------------------------------------------------------------------------------
# R-IMPORTTIME: a "unique" name computed once at import
# ---------------------------------------------------------------------------------------------
UNIQUE_MAKERS = {"uuid4", "uuid1", "mkdtemp", "mkstemp", "token_hex", "token_urlsafe", "getpid", "time", "time_ns", "monotonic", "random", "randint"}


def rule_importtime(prog: Program, modules: Optional[Set[str]] = None) -> List[Instance]:
    """uuid4() & co. are called to get a name nobody else uses. Evaluated at module level the value is fixed at
    import: every call of the functions that use it - and every thread - shares the one name (temporary files of
    overlapping calls overwrite each other)."""
    out: List[Instance] = []
    n_mods = 0
    for mname, mi in sorted(prog.modules.items()):
        if modules is not None and mname not in modules:
            continue
        n_mods += 1
        for st in mi.tree.body:
            if isinstance(st, (ast.FunctionDef, ast.AsyncFunctionDef, ast.ClassDef, ast.Import, ast.ImportFrom)):
                continue
            for c in ast.walk(st):
                if isinstance(c, ast.Call):
                    f = c.func
                    nm = f.id if isinstance(f, ast.Name) else (f.attr if isinstance(f, ast.Attribute) else "")
                    if nm in UNIQUE_MAKERS:
                        out.append(Instance("R-IMPORTTIME", f"{mname}#importtime:{short(st, 40)}", BAD,
                                            f"`{short(st, 70)}` evaluates {nm}() once, when the module is imported: what was meant to be unique per call is shared by every call and every thread of the process", f"{mi.relpath}:{st.lineno}"))
    out.append(Instance("R-IMPORTTIME", f"{'+'.join(sorted(modules)) if modules else 'package'}#importtime-scan", OK if not any(i.status == BAD for i in out) else INFO,
                        f"{n_mods} modules, no unique-name generator evaluated at import", ""))
    return out
