"""Absence-of-guard clauses behind recorded (known, not repaired) findings.

Each clause names a guard whose absence is the structural cause of a finding a sub-agent demonstrated on
the unchanged tree and that was judged not to be a small, safe repair (library limitation, design
tolerance, a redesign of the sampling). The clause is BAD on today's tree and listed in
known_findings.json, so the check prints KNOWN-FINDING for it and exits 0; if somebody adds the guard the
instance turns OK and the entry simply stops printing; a *different* violation of the same property is
still reported by the property's other rules.
"""
from __future__ import annotations

import ast
from typing import List

from ..astutil import call_name, const_num, names_in
from ..loader import Program, enclosing_stmt, parent, short, walk_own
from ..report import BAD, INFO, OK, Instance


def paste_shape_aware(prog: Program) -> List[Instance]:
    """C10/C03: _can_paste decides from the pixel-to-pixel affine alone. A scale within stol of an integer
    (1.0005) drifts by |s-1|*N pixels across an N pixel raster; eligibility that never sees the raster
    extent cannot bound that drift."""
    f = prog.func("overlap:_can_paste")
    fq = "overlap:_can_paste"  # construct ids stay keyed by the anchor name (known findings are keyed by it)
    sees_extent = any(("shape" in p.arg) or ("size" in p.arg) or p.arg in ("src", "dst", "nx", "ny") for p in f.params())
    return [Instance("R-GUARDSEQ", f"{fq}#extent-aware", OK if sees_extent else BAD,
                     "paste eligibility is given the raster extent" if sees_extent else
                     "paste eligibility is decided from the affine alone (parameters: " + ", ".join(f.param_names()) + "): a near-integer scale within stol is accepted whatever the raster size, the accumulated drift |s-1|*N exceeds half a pixel for N > 0.5/|s-1|", f.where())]


def scale_guard_tolerance(prog: Program) -> List[Instance]:
    """C16: pixel_translation accepts scale terms with numpy.isclose's default rtol=1e-5: 10 m and
    10.00005 m grids pass, over 1e6 pixels that is a 5 pixel mismatch."""
    f = prog.func("geobox:pixel_translation")
    fq = "geobox:pixel_translation"  # construct ids stay keyed by the anchor name (known findings are keyed by it)
    out: List[Instance] = []
    calls = [n for n in walk_own(f.node) if isinstance(n, ast.Call) and call_name(n) == "isclose"]
    loose = [n for n in calls if not any(k.arg in ("rtol", "atol", "rel_tol", "abs_tol") for k in n.keywords) and len(n.args) <= 2]
    if not calls:
        return [Instance("R-GUARDSEQ", f"{fq}#scale-tolerance", INFO, "no isclose guard", f.where(), nontrivial=False)]
    out.append(Instance("R-GUARDSEQ", f"{fq}#scale-tolerance", BAD if loose else OK,
                        f"{len(loose)} of {len(calls)} grid-compatibility guards use numpy.isclose with its default rtol=1e-5 / atol=1e-8, independent of the GeoBox size: pixel sizes differing by 5e-6 (10 m vs 10.00005 m) are accepted and drift by whole pixels over 1e6 px" if loose
                        else "grid-compatibility guards state their tolerances", f.where(calls[0])))
    return out


def boundary_sampling(prog: Program) -> List[Instance]:
    """C03: on the cross-CRS path the regions are the padded envelope of a fixed number of boundary samples
    per side. With the count a literal, an edge that is curved in the other pixel space and has its extreme
    between two samples is under-covered by more than the constant padding."""
    f = prog.func("overlap:compute_reproject_roi")
    fq = "overlap:compute_reproject_roi"  # construct ids stay keyed by the anchor name (known findings are keyed by it)
    out: List[Instance] = []
    for n in walk_own(f.node):
        if isinstance(n, ast.Assign) and len(n.targets) == 1 and isinstance(n.targets[0], ast.Name) and "pts" in n.targets[0].id:
            lit = const_num(n.value) is not None
            out.append(Instance("R-GUARDSEQ", f"{fq}#boundary-sampling", BAD if lit else OK,
                                f"`{short(n)}`: the number of boundary samples per side is a constant, independent of raster size and curvature: for a 4000x4000 km EPSG:3577 destination over a lon/lat source roi_src is 9 rows short" if lit
                                else f"`{short(n)}` adapts the boundary sampling to the rasters", f.where(n)))
    if not out:
        out.append(Instance("R-GUARDSEQ", f"{fq}#boundary-sampling", INFO, "boundary sample count not found as a local", f.where(), nontrivial=False))
    return out


def gdal_identity_transform(prog: Program) -> List[Instance]:
    """C10: rasterio (1.5) treats a transform almost equal to the identity or to Affine(1,0,0,0,-1,0) as
    'no georeferencing' and replaces it, dropping the -1 y scale. _rio_reproject hands the transforms over
    without looking at them."""
    f = prog.func("warp:_rio_reproject")
    fq = "warp:_rio_reproject"  # construct ids stay keyed by the anchor name (known findings are keyed by it)
    guarded = any(isinstance(n, ast.Attribute) and n.attr in ("is_identity", "almost_equals") for n in walk_own(f.node)) or any(isinstance(n, ast.Call) and call_name(n) in ("almost_equals",) for n in walk_own(f.node))
    return [Instance("R-GUARDSEQ", f"{fq}#identity-transform", OK if guarded else BAD,
                     "transforms are checked against rasterio's identity special case" if guarded else
                     "src/dst transforms go to rasterio.warp.reproject unexamined: a north-up grid with 1-unit pixels whose corner is the CRS origin (affine (1,0,0,0,-1,0)) is treated by rasterio as unreferenced and comes back vertically mirrored although planning reported paste_ok", f.where())]


def int64_nodata(prog: Program) -> List[Instance]:
    """C15: GDAL stores nodata as a double (text %.17g): 64-bit integer nodata of magnitude >= 2**53 does not
    survive. _write_cog passes the value through without looking at the dtype."""
    f = prog.func("cog._rio:_write_cog")
    fq = "cog._rio:_write_cog"  # construct ids stay keyed by the anchor name (known findings are keyed by it)
    upd = [n for n in walk_own(f.node) if isinstance(n, ast.Call) and call_name(n) == "update" and any(k.arg == "nodata" for k in n.keywords)]
    if not upd:
        return [Instance("R-GUARDSEQ", f"{fq}#nodata-representable", INFO, "nodata option not set through rio_opts.update", f.where(), nontrivial=False)]
    st = enclosing_stmt(upd[0])
    checked = False
    p = parent(st)
    while p is not None and p is not f.node:
        if isinstance(p, ast.If) and any(isinstance(x, ast.Attribute) and x.attr in ("dtype", "itemsize", "kind") for x in ast.walk(p.test)):
            checked = True
        p = parent(p)
    checked = checked or any(isinstance(n, (ast.Raise, ast.Call)) and "nodata" in names_in(n) and any(isinstance(x, ast.Attribute) and x.attr in ("itemsize", "kind") for x in ast.walk(n)) for n in walk_own(f.node) if isinstance(n, ast.If))
    return [Instance("R-GUARDSEQ", f"{fq}#nodata-representable", OK if checked else BAD,
                     "nodata is checked against the dtype before it is handed to GDAL" if checked else
                     "nodata is handed to GDAL whatever the dtype: for int64/uint64 a value of magnitude >= 1e17 (np.iinfo(int64).min) is stored as a double and reads back as -9.0 / None", f.where(upd[0]))]


def lonlat_footprint_validity(prog: Program) -> List[Instance]:
    """C12/C13: the general path of grid_intersect intersects the two rasters' lon/lat footprints. For a
    raster containing a pole or crossing the antimeridian that ring is self-intersecting and `&` raises
    GEOSException; nothing validates or catches."""
    f = prog.func("geobox:GeoboxTiles.grid_intersect")
    fq = "geobox:GeoboxTiles.grid_intersect"  # construct ids stay keyed by the anchor name (known findings are keyed by it)
    ands = [n for n in walk_own(f.node) if isinstance(n, ast.BinOp) and isinstance(n.op, ast.BitAnd) and any(isinstance(c, ast.Call) and call_name(c) == "footprint" for c in ast.walk(n))]
    if not ands:
        return [Instance("R-EMPTY", f"{fq}#footprint-validity", INFO, "no footprint intersection", f.where(), nontrivial=False)]
    n = ands[0]
    safe = any(isinstance(p_, ast.Try) for p_ in _ancestors(n, f.node)) or any(isinstance(c, ast.Call) and call_name(c) in ("make_valid", "buffer") for c in ast.walk(n))
    return [Instance("R-EMPTY", f"{fq}#footprint-validity", OK if safe else BAD,
                     "lon/lat footprints are made valid (or the failure is handled) before they are intersected" if safe else
                     f"`{short(n, 70)}` intersects raw lon/lat footprints: for a polar-stereographic raster containing the pole, or a raster reaching the antimeridian, the ring is invalid and GEOS raises TopologyException instead of a dependency graph", f.where(n))]


def footprint_sampling(prog: Program) -> List[Instance]:
    """C11: the enclosing grid is the bounding box of the source footprint sampled with a fixed number of
    points per side. A projected edge is a curve; its extreme lies between two samples, and the shortfall is
    fixed in CRS units, so in output pixels it grows with the raster (4 px for a 100k px continental raster
    against a promised 0.01 px)."""
    f = prog.func("overlap:compute_output_geobox")
    fq = "overlap:compute_output_geobox"  # construct ids stay keyed by the anchor name (known findings are keyed by it)
    out: List[Instance] = []
    for n in walk_own(f.node):
        if isinstance(n, ast.Call) and call_name(n) == "footprint":
            np_ = next((k.value for k in n.keywords if k.arg == "npoints"), n.args[2] if len(n.args) > 2 else None)
            lit = np_ is None or const_num(np_) is not None
            out.append(Instance("R-GUARDSEQ", f"{fq}#footprint-sampling", BAD if lit else OK,
                                f"`{short(n, 60)}`: the number of footprint samples per side is a constant, independent of the raster's size in pixels: for rasters beyond ~60k px per side rows/columns of source pixel centres project 1.5-4 output pixels outside the computed grid" if lit
                                else f"`{short(n, 60)}` adapts the footprint sampling to the raster", f.where(n)))
    if not out:
        out.append(Instance("R-GUARDSEQ", f"{fq}#footprint-sampling", INFO, "no footprint() call", f.where(), nontrivial=False))
    return out[:1]


def region_densification(prog: Program) -> List[Instance]:
    """C08: from_geopolygon projects the region after densifying it with the relative 'auto' step (about 25
    segments per side), whatever the requested pixel size or tol: the bounding box of the projected ring is
    short by the sagitta of one segment, a fixed length that is many pixels at fine resolutions."""
    f = prog.func("geobox:GeoBox.from_geopolygon")
    fq = "geobox:GeoBox.from_geopolygon"  # construct ids stay keyed by the anchor name (known findings are keyed by it)
    out: List[Instance] = []
    for n in walk_own(f.node):
        if isinstance(n, ast.Call) and call_name(n) == "to_crs":
            r = next((k.value for k in n.keywords if k.arg == "resolution"), None)
            if r is None:
                continue
            lit = isinstance(r, ast.Constant)
            out.append(Instance("R-GUARDSEQ", f"{fq}#densify-vs-pixel", BAD if lit else OK,
                                f"`{short(n, 60)}`: the densification step does not depend on the requested resolution/tol: a lon/lat box over Europe at 10 m in EPSG:3035 sticks out of the grid by 6.8 pixels (tol promises 0.01)" if lit
                                else f"`{short(n, 60)}` ties the densification to the requested grid", f.where(n)))
    if not out:
        out.append(Instance("R-GUARDSEQ", f"{fq}#densify-vs-pixel", INFO, "region is not re-projected with a densification step", f.where(), nontrivial=False))
    return out[:1]


def _ancestors(n: ast.AST, stop: ast.AST):
    p = parent(n)
    while p is not None and p is not stop:
        yield p
        p = parent(p)


def declared(prog: Program, pid: str) -> List[Instance]:
    """Findings demonstrated against the real code for which no structural clause exists (they are
    value-level: a wrap-around of longitudes, a zone choice, an off-by-one by design). They are NOT decided
    by static analysis; they are listed in known_findings.json with `declared: true` and an anchor function,
    and printed as KNOWN-FINDING for the record as long as that anchor still exists. Removing an entry from
    the file removes the line; nothing here can raise a violation."""
    from ..report import known_for

    out: List[Instance] = []
    for k in known_for(pid):
        if not k.get("declared"):
            continue
        anchor = k.get("anchor", "")
        exists = anchor in prog.functions
        if exists:
            out.append(Instance(k["rule"], k["construct"], BAD, k["what"], prog.functions[anchor].where()))
        else:
            out.append(Instance(k["rule"], k["construct"], INFO, f"anchor {anchor} of a declared finding no longer exists: re-verify the finding and drop or re-anchor the entry", "", nontrivial=False))
    return out
