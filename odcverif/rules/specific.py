"""Smaller repository-specific rules: R-DISPL, R-CORNERS, R-LATTICE, R-EMPTY, R-CAST, R-FILL,
R-SIBLING, R-KEYS, R-SIGNROLE, R-EXHAUST, R-IMMUT."""
from __future__ import annotations

import ast
from typing import Dict, FrozenSet, List, Optional, Set, Tuple

from ..astutil import Origins, call_name, const_num, expand_locals, names_in, with_folded
from ..cfg import Conditions, Flow, ReachingDefs
from ..loader import ClassInfo, FuncInfo, Program, dotted, enclosing_stmt, parent, short, walk_own
from ..report import BAD, INFO, OK, UNDET, Instance
from .guards import conds_at, has_call

# ---------------------------------------------------------------------------------------------
# R-DISPL  affine-space typing of the edge-length predicate in geom.densify
# ---------------------------------------------------------------------------------------------


def _displ_type(e: ast.AST, pts: Set[str]):
    """('pos', p, i) | ('disp', axes) | ('sq', axes) | ('len', axes) | ('num',) | ('ill', why)"""
    if isinstance(e, ast.Subscript) and isinstance(e.value, ast.Name) and e.value.id in pts:
        i = const_num(e.slice)
        if i is not None:
            return ("pos", e.value.id, int(i))
    if isinstance(e, ast.Constant) and isinstance(e.value, (int, float)):
        return ("num",)
    if isinstance(e, ast.BinOp):
        l, r = _displ_type(e.left, pts), _displ_type(e.right, pts)
        if l[0] == "ill":
            return l
        if r[0] == "ill":
            return r
        if isinstance(e.op, ast.Sub):
            if l[0] == "pos" and r[0] == "pos":
                if l[1] == r[1]:
                    return ("ill", f"`{short(e)}` subtracts a point from itself")
                if l[2] != r[2]:
                    return ("ill", f"`{short(e)}` subtracts coordinates of different axes")
                return ("disp", frozenset({l[2]}))
            return ("ill", f"`{short(e)}` is not a difference of two point coordinates")
        if isinstance(e.op, ast.Pow):
            if l[0] == "disp" and const_num(e.right) == 2:
                return ("sq", l[1])
            if l[0] == "pos":
                return ("ill", f"`{short(e)}` squares an absolute coordinate: not invariant under translation")
            if l[0] == "sq" and const_num(e.right) == 0.5:
                return ("len", l[1])
            return ("ill", f"`{short(e)}`")
        if isinstance(e.op, ast.Mult):
            if l[0] == "disp" and r[0] == "disp" and short(e.left) == short(e.right):
                return ("sq", l[1])
            return ("ill", f"`{short(e)}`")
        if isinstance(e.op, ast.Add):
            if l[0] == "sq" and r[0] == "sq":
                return ("sq", l[1] | r[1])
            if l[0] == "pos" or r[0] == "pos":
                return ("ill", f"`{short(e)}` adds absolute coordinates")
            return ("ill", f"`{short(e)}`")
    if isinstance(e, ast.Call):
        nm = call_name(e)
        args = [_displ_type(a, pts) for a in e.args]
        if nm == "hypot" and len(args) == 2 and all(a[0] == "disp" for a in args):
            return ("len", args[0][1] | args[1][1])
        if nm == "sqrt" and len(args) == 1 and args[0][0] == "sq":
            return ("len", args[0][1])
        if nm == "dist" and len(e.args) == 2 and all(isinstance(a, ast.Name) and a.id in pts for a in e.args):
            return ("len", frozenset({0, 1}))
        if nm == "abs" and len(args) == 1 and args[0][0] == "disp":
            return ("len", args[0][1])
    return ("ill", f"`{short(e)}` is not a length expression over the two end points")


def dst_geobox_locals(prog: Program, f: FuncInfo) -> Set[str]:
    """Locals of `f` holding the destination geobox of a reprojection: assigned from `<x>.output_geobox(...)` /
    `compute_output_geobox(...)` directly or from a private helper that ends in such a call."""
    out: Set[str] = set()
    for n in walk_own(f.node):
        if isinstance(n, ast.Assign) and isinstance(n.targets[0], ast.Name) and isinstance(n.value, ast.Call):
            if call_name(n.value) in ("output_geobox", "compute_output_geobox") or any(
                g is not f and isinstance(x, ast.Call) and call_name(x) in ("output_geobox", "compute_output_geobox") for g, x in prog.closure_nodes(f, n.value)
            ):
                out.add(n.targets[0].id)
    return out


def rule_displ(prog: Program) -> List[Instance]:
    out: List[Instance] = []
    d = prog.func("geom:densify")
    res = d.param_names()[1]
    preds = [nf for nf in d.nested.values() if len(nf.positional_params()) == 2]
    # squared resolution locals
    sq_names = set()
    for n in walk_own(d.node):
        if isinstance(n, ast.Assign) and len(n.targets) == 1 and isinstance(n.targets[0], ast.Name):
            v = n.value
            if (isinstance(v, ast.BinOp) and isinstance(v.op, ast.Pow) and short(v.left) == res and const_num(v.right) == 2) or (
                isinstance(v, ast.BinOp) and isinstance(v.op, ast.Mult) and short(v.left) == res and short(v.right) == res
            ):
                sq_names.add(n.targets[0].id)
    cmp_found = False
    for pf in preds:
        p1, p2 = [p.arg for p in pf.positional_params()]
        for r in (n for n in walk_own(pf.node) if isinstance(n, ast.Return)):
            v = r.value
            if not (isinstance(v, ast.Compare) and len(v.ops) == 1):
                continue
            cmp_found = True
            cid = f"{pf.qual}#R-DISPL"
            lhs, rhs, op = v.left, v.comparators[0], v.ops[0]
            lhs = expand_locals(pf.node, lhs, keep={p1, p2})
            t = _displ_type(lhs, {p1, p2})
            if t[0] == "ill":
                out.append(Instance("R-DISPL", cid, BAD, f"edge-length test is ill-typed: {t[1]}; whether an edge is densified depends on where it lies, not how long it is", pf.where(r)))
                continue
            axes = t[1] if len(t) > 1 else frozenset()
            if axes != frozenset({0, 1}):
                out.append(Instance("R-DISPL", cid, BAD, f"edge-length test `{short(lhs)}` only measures axis {sorted(axes)}: edges along the other axis are never densified", pf.where(r)))
                continue
            rhs_sq = isinstance(rhs, ast.Name) and rhs.id in sq_names or (isinstance(rhs, ast.BinOp) and isinstance(rhs.op, ast.Pow) and short(rhs.left) == res)
            rhs_lin = isinstance(rhs, ast.Name) and rhs.id == res
            unit_ok = (t[0] == "sq" and rhs_sq) or (t[0] == "len" and rhs_lin)
            dir_ok = isinstance(op, (ast.Lt, ast.LtE))
            if not unit_ok:
                out.append(Instance("R-DISPL", cid, BAD, f"`{short(v)}` compares a {'squared ' if t[0] == 'sq' else ''}length with `{short(rhs)}`, which is not the {'squared ' if t[0] == 'sq' else ''}resolution", pf.where(r)))
            elif not dir_ok:
                out.append(Instance("R-DISPL", cid, BAD, f"`{short(v)}`: a predicate meaning 'short enough' must be length < resolution", pf.where(r)))
            else:
                out.append(Instance("R-DISPL", cid, OK, f"`{short(v)}` is a translation-invariant {'squared ' if t[0] == 'sq' else ''}length over both axes compared with the {'squared ' if t[0] == 'sq' else ''}resolution", pf.where(r)))
            # use site: densify when NOT short enough
            for n in walk_own(d.node):
                if isinstance(n, ast.If) and has_call(n.test, pf.name):
                    neg = isinstance(n.test, ast.UnaryOp) and isinstance(n.test.op, ast.Not)
                    c = n.test.operand if neg else n.test
                    args_ok = isinstance(c, ast.Call) and len(c.args) == 2 and short(c.args[0]) != short(c.args[1])
                    interp = any(isinstance(x, ast.Call) and call_name(x) == "interpolate" for _f, x in prog.closure_nodes(d, n))
                    out.append(Instance("R-DISPL", f"{d.qual}#use-of-{pf.name}", OK if neg and args_ok and interp else BAD,
                                        "points are interpolated exactly when the edge is not short enough" if neg and args_ok and interp else f"`if {short(n.test)}` does not add points for long edges", d.where(n)))
    if not cmp_found:
        # maybe inlined: look for a comparison in densify itself
        out.append(Instance("R-DISPL", f"{d.qual}#R-DISPL", UNDET, "edge-length predicate (nested two-point function returning a comparison) not found", d.where()))

    # original vertices retained in order: first vertex seeds the list, each p2 appended on every iteration
    seeds = [n for n in walk_own(d.node) if isinstance(n, ast.Assign) and isinstance(n.value, ast.List) and len(n.value.elts) == 1 and short(n.value.elts[0]).endswith("[0]")]
    loops = [n for n in d.node.body if isinstance(n, ast.For)]
    ok = bool(seeds) and bool(loops)
    if ok:
        lp = loops[0]
        last = lp.body[-1]
        tgt = lp.target
        second = short(tgt.elts[1]) if isinstance(tgt, ast.Tuple) and len(tgt.elts) == 2 else None
        ok = isinstance(last, ast.Expr) and isinstance(last.value, ast.Call) and call_name(last.value) == "append" and short(last.value.args[0]) == second
        z = lp.iter
        # consecutive pairs: zip(c[:-1], c[1:]) or zip(c, c[1:]) (zip stops at the shorter one)
        zip_ok = isinstance(z, ast.Call) and call_name(z) == "zip" and len(z.args) == 2 and short(z.args[1]).endswith("[1:]") and short(z.args[0]) in (short(z.args[1])[:-4] + "[:-1]", short(z.args[1])[:-4])
        if not zip_ok and isinstance(z, ast.Call) and call_name(z) == "zip" and len(z.args) == 2 and isinstance(z.args[1], ast.Call) and call_name(z.args[1]) == "islice" and len(z.args[1].args) == 3:
            a1 = z.args[1].args  # zip(c, islice(c, 1, None))
            zip_ok = short(a1[0]) == short(z.args[0]) and const_num(a1[1]) == 1 and isinstance(a1[2], ast.Constant) and a1[2].value is None
        ok = ok and zip_ok
    if not seeds or not loops:
        out.append(Instance("R-DISPL", f"{d.qual}#vertices-retained", UNDET, "densify does not build its result as `[first] + loop appending each edge's end point` (generator / helper): not read", d.where()))
    else:
      out.append(Instance("R-DISPL", f"{d.qual}#vertices-retained", OK if ok else BAD,
                        "first vertex seeds the output and every edge's end vertex is appended unconditionally" if ok else "original vertices are not all retained in order (seed / unconditional append of the end point / consecutive pairs)", d.where()))
    # interpolation distances: start at resolution, step resolution, strictly inside the segment
    wl = [n for n in walk_own(d.node) if isinstance(n, ast.While)]
    if wl:
        w = wl[0]
        step = [n for n in ast.walk(w) if isinstance(n, ast.AugAssign) and isinstance(n.op, ast.Add)]
        t = w.test
        ok = isinstance(t, ast.Compare) and isinstance(t.ops[0], ast.Lt) and bool(step) and short(step[0].value) == res and short(step[0].target) == short(t.left)
        init = [n for n in walk_own(d.node) if isinstance(n, ast.Assign) and short(n.targets[0]) == short(t.left) if isinstance(t, ast.Compare)]
        ok = ok and bool(init) and short(init[0].value) == res
        out.append(Instance("R-DISPL", f"{d.qual}#interpolation-step", OK if ok else BAD,
                            "added vertices lie at multiples of the resolution strictly inside the edge" if ok else "interpolation loop no longer steps by the resolution from the resolution up to the edge length", d.where(w)))
    # segmented: all shapely kinds dispatched, polygon interiors densified
    seg = prog.func("geom:Geometry.segmented")
    # the dispatch lives in a nested closure or in a private helper segmented() calls
    seg_parts = {g.qual: g for g, _n in prog.closure_nodes(seg) if g is not seg}
    seg_parts.update({nf.qual: nf for nf in seg.nested.values()})
    kinds = {c.value for nf in list(seg_parts.values()) + [seg] for c in ast.walk(nf.node) if isinstance(c, ast.Constant) and isinstance(c.value, str) and c.value[:1].isupper() and " " not in c.value}
    need = {"Point", "MultiPoint", "GeometryCollection", "MultiPolygon", "MultiLineString", "LineString", "LinearRing", "Polygon"}
    out.append(Instance("R-EXHAUST", f"{seg.qual}#geometry-kinds", OK if need <= kinds else BAD,
                        "all eight shapely geometry kinds are dispatched" if need <= kinds else f"geometry kinds not handled: {sorted(need - kinds)}", seg.where()))
    poly_ok = False
    for nf in seg_parts.values():
        for n in walk_own(nf.node):
            if isinstance(n, ast.Call) and call_name(n) == "Polygon" and len(n.args) == 2:
                a0, a1 = (expand_locals(nf.node, a) for a in n.args)  # rings may be named locals first
                if isinstance(a0, ast.Name) and isinstance(a1, ast.Name):
                    # shell, *holes = (densify(ring.coords, resolution) for ring in chain([g.exterior], g.interiors))
                    for a_ in walk_own(nf.node):
                        if isinstance(a_, ast.Assign) and isinstance(a_.targets[0], (ast.Tuple, ast.List)) and {a0.id, a1.id} <= {x.id for x in ast.walk(a_.targets[0]) if isinstance(x, ast.Name)} \
                                and isinstance(a_.value, (ast.GeneratorExp, ast.ListComp)) and len(a_.value.generators) == 1:
                            it_txt = short(a_.value.generators[0].iter, 300)
                            if has_call(a_.value.elt, "densify") and "exterior" in it_txt and "interiors" in it_txt and all(short(c.args[1]) == "resolution" for c in ast.walk(a_.value.elt) if isinstance(c, ast.Call) and call_name(c) == "densify" and len(c.args) > 1):
                                poly_ok = True
                    if poly_ok:
                        continue
                    has_poly_ctor = False  # rings reach the constructor through locals this clause does not follow
                    continue
                poly_ok = has_call(a0, "densify") and "exterior" in short(a0) and has_call(a1, "densify") and "interiors" in short(a1)
                res_ok = all(short(c.args[1]) == "resolution" for a_ in (a0, a1) for c in ast.walk(a_) if isinstance(c, ast.Call) and call_name(c) == "densify" and len(c.args) > 1)
                poly_ok = poly_ok and res_ok
    seg_parts[seg.qual] = seg
    has_poly_ctor = poly_ok or any(isinstance(n, ast.Call) and call_name(n) == "Polygon" and len(n.args) == 2 and not all(isinstance(a, ast.Name) for a in n.args) for nf in seg_parts.values() for n in walk_own(nf.node))
    if not has_poly_ctor:
        out.append(Instance("R-DISPL", f"{seg.qual}#polygon-rings", UNDET, "no two-argument Polygon(exterior, interiors) construction found in segmented or its helpers", seg.where()))
    else:
      out.append(Instance("R-DISPL", f"{seg.qual}#polygon-rings", OK if poly_ok else BAD,
                        "exterior and every interior ring are densified with the same resolution" if poly_ok else "polygon branch does not densify both the exterior and the interior rings with the resolution", seg.where()))
    ret = [n for n in walk_own(seg.node) if isinstance(n, ast.Return) and isinstance(n.value, ast.Call) and call_name(n.value) == "Geometry"]
    ok = bool(ret) and len(ret[0].value.args) == 2 and short(ret[0].value.args[1]) == f"{seg.self_name}.crs"
    out.append(Instance("R-RETAG", f"{seg.qual}#retag", OK if ok else BAD, "segmented geometry keeps the receiver's CRS" if ok else "segmented result is not tagged with self.crs", seg.where()))
    return out


# ---------------------------------------------------------------------------------------------
# R-CORNERS
# ---------------------------------------------------------------------------------------------


def _corner_sets(fi: FuncInfo) -> List[Tuple[ast.AST, FrozenSet[Tuple[str, str]]]]:
    """List literals of 2-tuples over {0, X, Y} with X/Y named by the .xy unpack in the function."""
    axis: Dict[str, str] = {}
    for n in walk_own(fi.node):
        if isinstance(n, ast.Assign) and isinstance(n.targets[0], ast.Tuple) and len(n.targets[0].elts) == 2:
            s = short(n.value)
            order = None
            if s.endswith(".xy") or s.endswith(".wh"):
                order = ("X", "Y")
            elif s.endswith(".yx") or s.endswith(".shape"):
                order = ("Y", "X")
            if order:
                for e, a in zip(n.targets[0].elts, order):
                    if isinstance(e, ast.Name):
                        axis[e.id] = a
    out = []
    for n in walk_own(fi.node):
        if isinstance(n, (ast.List, ast.Tuple)) and len(n.elts) >= 2 and all(isinstance(e, ast.Tuple) and len(e.elts) == 2 for e in n.elts):
            pts = set()
            ok = True
            for e in n.elts:
                c = []
                for x in e.elts:
                    if const_num(x) == 0:
                        c.append("0")
                    elif isinstance(x, ast.Name) and x.id in axis:
                        c.append(axis[x.id])
                    else:
                        ok = False
                pts.add(tuple(c))
            if ok:
                out.append((n, frozenset(pts)))
    return out


FOUR = frozenset({("0", "0"), ("X", "0"), ("X", "Y"), ("0", "Y")})


def _minmax_box(fi: FuncInfo, ret: ast.Call) -> Tuple[bool, str]:
    """BoundingBox(min(xx), min(yy), max(xx), max(yy), ...) with xx first / yy second components."""
    comp: Dict[str, int] = {}
    for n in walk_own(fi.node):
        if isinstance(n, ast.Assign) and isinstance(n.targets[0], ast.Name) and isinstance(n.value, ast.ListComp):
            g = n.value.generators[0]
            if isinstance(g.target, ast.Tuple) and len(g.target.elts) == 2 and isinstance(n.value.elt, ast.Name):
                for i, e in enumerate(g.target.elts):
                    if isinstance(e, ast.Name) and e.id == n.value.elt.id:
                        comp[n.targets[0].id] = i
        # xx, yy = zip(*<points>): first / second component of every point
        if isinstance(n, ast.Assign) and isinstance(n.targets[0], ast.Tuple) and len(n.targets[0].elts) == 2 and isinstance(n.value, ast.Call) and call_name(n.value) == "zip" \
                and len(n.value.args) == 1 and isinstance(n.value.args[0], ast.Starred):
            for i, e in enumerate(n.targets[0].elts):
                if isinstance(e, ast.Name):
                    comp[e.id] = i
    want = [("min", 0), ("min", 1), ("max", 0), ("max", 1)]
    got = []
    for a in ret.args[:4]:
        if isinstance(a, ast.Call) and call_name(a) in ("min", "max") and len(a.args) == 1 and isinstance(a.args[0], ast.Name) and a.args[0].id in comp:
            got.append((call_name(a), comp[a.args[0].id]))
        else:
            got.append(("?", -1))
    return got == want, f"{[f'{f}(component {c})' for f, c in got]}"


def rule_corners(prog: Program) -> List[Instance]:
    out: List[Instance] = []
    pf = prog.func("geom:polygon_from_transform")
    bf = prog.func("geom:BoundingBox.from_transform")
    sets = {}
    for f in (pf, bf):
        cs = _corner_sets(f)
        if not cs:
            # two-corner form: transform * (0,0) and transform * shape.xy
            n_tr = sum(1 for n in walk_own(f.node) if isinstance(n, ast.BinOp) and isinstance(n.op, ast.Mult) and "transform" in short(n.left))
            out.append(Instance("R-CORNERS", f"{f.qual}#corners", BAD if 2 <= n_tr <= 3 else UNDET,
                                f"no four-corner list found ({n_tr} point(s) pushed through the transform): a rotated or sheared raster's extreme corners are missed" if 2 <= n_tr <= 3 else
                                "corner points are not given as a literal list of four (x, y) pairs: not decided", f.where()))
            continue
        node, pts = max(cs, key=lambda x: len(x[1]))
        sets[f.qual] = pts
        ok = pts == FOUR
        out.append(Instance("R-CORNERS", f"{f.qual}#corners", OK if ok else BAD,
                            "pushes all four pixel corners (0,0),(nx,0),(nx,ny),(0,ny) through the transform" if ok else f"corner set {sorted(pts)} is not the four pixel corners", f.where(node)))
    if len(sets) == 2:
        a, b = sets.values()
        out.append(Instance("R-CORNERS", "geom#footprint-vs-bbox-corners", OK if a == b else BAD,
                            "footprint polygon and bounding box are derived from the same corner set" if a == b else f"footprint uses {sorted(a)} but bounding box uses {sorted(b)}", pf.where()))
    for q in ("geom:BoundingBox.from_transform", "geom:BoundingBox.transform"):
        f = prog.func(q)
        rets = [n.value for n in walk_own(f.node) if isinstance(n, ast.Return) and isinstance(n.value, ast.Call) and call_name(n.value) == "BoundingBox"]
        if not rets:
            out.append(Instance("R-CORNERS", f"{q}#minmax", BAD if q.endswith("from_transform") else UNDET, "result is not BoundingBox(min(xs), min(ys), max(xs), max(ys))", f.where()))
            continue
        ok, got = _minmax_box(f, rets[0])
        out.append(Instance("R-CORNERS", f"{q}#minmax", OK if ok else (UNDET if "?" in got else BAD),
                            "box = (min x, min y, max x, max y) over the projected corners" if ok else f"box built from {got}", f.where(rets[0])))
    # BoundingBox.points: all four combinations
    bp = prog.func("geom:BoundingBox.points")
    ok = any(isinstance(n, ast.Call) and call_name(n) == "product" and len(n.args) == 2 and short(n.args[0]) == "(x0, x1)" and short(n.args[1]) == "(y0, y1)" for n in walk_own(bp.node))
    out.append(Instance("R-CORNERS", f"{bp.qual}#four-points", OK if ok else BAD, "points = product((x0,x1),(y0,y1))" if ok else "BoundingBox.points no longer enumerates the four corners as product((x0,x1),(y0,y1))", bp.where()))
    # GeoBoxBase.boundingbox / extent use shape+affine+crs of self
    gb = prog.func("geobox:GeoBoxBase.boundingbox")
    for n in walk_own(gb.node):
        if isinstance(n, ast.Call) and call_name(n) == "from_transform":
            a = [short(x) for x in n.args] + [short(k.value) for k in n.keywords]
            ok = a == ["self._shape", "self._affine", "self._crs"]
            out.append(Instance("R-CORNERS", f"{gb.qual}#args", OK if ok else BAD, "from_transform(self._shape, self._affine, crs=self._crs)" if ok else f"from_transform({a})", gb.where(n)))
    ex = prog.func("geobox:GeoBoxBase.extent")
    for n in walk_own(ex.node):
        if isinstance(n, ast.Call) and call_name(n) == "polygon_from_transform":
            a = [short(x) for x in n.args]
            ok = a == ["self._shape", "self._affine", "self._crs"]
            out.append(Instance("R-CORNERS", f"{ex.qual}#args", OK if ok else BAD, "polygon_from_transform(self._shape, self._affine, self._crs)" if ok else f"polygon_from_transform({a})", ex.where(n)))
    return out


# ---------------------------------------------------------------------------------------------
# R-LATTICE
# ---------------------------------------------------------------------------------------------


def rule_lattice(prog: Program) -> List[Instance]:
    out: List[Instance] = []
    for q, lo_fn, hi_fn in (("geom:bbox_union", "min", "max"), ("geom:bbox_intersection", "max", "min")):
        f = prog.func(q)
        acc: List[str] = []
        elem: List[str] = []
        loop = None
        for n in f.node.body:
            if isinstance(n, ast.Assign) and isinstance(n.targets[0], ast.Tuple) and len(n.targets[0].elts) == 4 and all(isinstance(e, ast.Name) for e in n.targets[0].elts):
                acc = [e.id for e in n.targets[0].elts]
            if isinstance(n, ast.For):
                loop = n
        if loop is not None:
            for n in loop.body:
                if isinstance(n, ast.Assign) and isinstance(n.targets[0], ast.Tuple) and len(n.targets[0].elts) == 4:
                    elem = [e.id for e in n.targets[0].elts if isinstance(e, ast.Name)]
        if len(acc) != 4 or len(elem) != 4 or loop is None:
            out.append(Instance("R-LATTICE", f"{q}#fold", UNDET, "accumulator / element unpack of four components not found", f.where()))
            continue
        for i, (A, e) in enumerate(zip(acc, elem)):
            want = lo_fn if i < 2 else hi_fn
            upd = [n for n in loop.body if isinstance(n, ast.Assign) and isinstance(n.targets[0], ast.Name) and n.targets[0].id == A]
            cid = f"{q}#component:{i}"
            if len(upd) != 1 or not isinstance(upd[0].value, ast.Call):
                out.append(Instance("R-LATTICE", cid, BAD, f"accumulator {A} is not updated exactly once per box", f.where(loop)))
                continue
            c = upd[0].value
            args = {short(a) for a in c.args}
            ok = call_name(c) == want and args == {A, e}
            out.append(Instance("R-LATTICE", cid, OK if ok else BAD,
                                f"{A} = {want}({e}, {A})" if ok else f"`{short(upd[0])}`: component {i} of a {'union' if lo_fn == 'min' else 'intersection'} must be {want}({e}, {A})", f.where(upd[0])))
        skips = [x for x in ast.walk(loop) if isinstance(x, (ast.Continue, ast.Break))]
        out.append(Instance("R-LATTICE", f"{q}#every-box-contributes", BAD if skips else OK,
                            f"the fold loop can skip a box (`{type(skips[0]).__name__.lower()}` at line {skips[0].lineno}): the result then depends on operand order and need not {'contain' if lo_fn == 'min' else 'be contained in'} each operand" if skips
                            else "every box of the stream updates the accumulators", f.where(loop)))
        ret = [n for n in f.node.body if isinstance(n, ast.Return)]
        ok = bool(ret) and isinstance(ret[0].value, ast.Call) and [short(a) for a in ret[0].value.args[:4]] == acc
        out.append(Instance("R-LATTICE", f"{q}#result-order", OK if ok else BAD, f"BoundingBox({', '.join(acc)}, crs)" if ok else "result components are not returned in (left, bottom, right, top) order", f.where()))
    # empty-intersection normalisation in geobox_intersection_conservative: right:=left, top:=bottom
    gi = prog.func("geobox:geobox_intersection_conservative")
    n_fix = 0
    for n in walk_own(gi.node):
        if isinstance(n, ast.If) and isinstance(n.test, ast.Compare) and isinstance(n.test.ops[0], ast.Gt):
            l, r = short(n.test.left), short(n.test.comparators[0])
            for c in ast.walk(n):
                if isinstance(c, ast.Call) and call_name(c) == "BoundingBox":
                    kws = {k.arg: short(k.value) for k in c.keywords}
                    n_fix += 1
                    if l.endswith(".left") and r.endswith(".right"):
                        ok = kws.get("right") == l and kws.get("left") == l and kws.get("bottom", "").endswith(".bottom") and kws.get("top", "").endswith(".top")
                        out.append(Instance("R-LATTICE", f"{gi.qual}#empty-x", OK if ok else BAD, "empty x-range collapses to zero width at left" if ok else f"empty x-range normalisation builds {kws}", gi.where(c)))
                    elif l.endswith(".bottom") and r.endswith(".top"):
                        ok = kws.get("top") == l and kws.get("bottom") == l and kws.get("left", "").endswith(".left") and kws.get("right", "").endswith(".right")
                        out.append(Instance("R-LATTICE", f"{gi.qual}#empty-y", OK if ok else BAD, "empty y-range collapses to zero height at bottom" if ok else f"empty y-range normalisation builds {kws}", gi.where(c)))
    if n_fix < 2:
        # some other spelling of the normalisation (one rebuild guarded by both comparisons, conditional expressions per bound ..)?
        def _cmp_pair(c: ast.AST, a: str, b: str) -> bool:
            return isinstance(c, ast.Compare) and len(c.ops) == 1 and isinstance(c.ops[0], (ast.Gt, ast.GtE, ast.Lt, ast.LtE)) and {a, b} <= {short(x).split(".")[-1] for x in [c.left, c.comparators[0]]}
        def _mm_pair(c: ast.AST, a: str, b: str) -> bool:
            return isinstance(c, ast.Call) and call_name(c) in ("max", "min") and len(c.args) == 2 and {a, b} <= {short(x).split(".")[-1] for x in c.args}
        other = any(_cmp_pair(c, "left", "right") or _mm_pair(c, "left", "right") for _g, c in prog.closure_nodes(gi)) and any(_cmp_pair(c, "bottom", "top") or _mm_pair(c, "bottom", "top") for _g, c in prog.closure_nodes(gi))
        out.append(Instance("R-LATTICE", f"{gi.qual}#empty-normalisation", UNDET if other else BAD,
                            "both axes compare their lower with their upper bound, but not in the two-rebuild form this clause reads" if other else
                            "intersection of disjoint geoboxes is no longer normalised to an empty geobox on both axes", gi.where()))
    for q in ("geobox:geobox_union_conservative", "geobox:geobox_intersection_conservative"):
        f = prog.func(q)
        stream = f.param_names()[0]
        # reference = first element of the stream; box = result of the bbox fold
        ref = box = None
        for n in walk_own(f.node):
            if isinstance(n, ast.Assign) and isinstance(n.targets[0], ast.Tuple) and n.targets[0].elts and isinstance(n.targets[0].elts[0], ast.Name) and short(n.value) == stream:
                ref = n.targets[0].elts[0].id
            if isinstance(n, ast.Assign) and isinstance(n.targets[0], ast.Name) and any(isinstance(c, ast.Call) and call_name(c) in ("bbox_union", "bbox_intersection") for c in ast.walk(n.value)):
                box = n.targets[0].id
        if ref is None or box is None:
            out.append(Instance("R-LATTICE", f"{q}#origin", UNDET, "reference geobox / folded box not identified", f.where()))
            continue
        want_fold = "bbox_union" if "union" in q else "bbox_intersection"
        fold_ok = any(isinstance(n, ast.Call) and call_name(n) == want_fold for n in walk_own(f.node))
        out.append(Instance("R-LATTICE", f"{q}#fold", OK if fold_ok else BAD, f"pixel boxes folded with {want_fold}" if fold_ok else f"{f.name} does not fold the pixel boxes with {want_fold}", f.where()))
        for n in walk_own(f.node):
            if isinstance(n, ast.Call) and call_name(n) == "translation" and n.args and isinstance(n.args[0], ast.Starred):
                v = n.args[0].value
                ok = isinstance(v, ast.Subscript) and short(v.value) == box and isinstance(v.slice, ast.Slice) and v.slice.lower is None and const_num(v.slice.upper) == 2
                p = parent(n)
                ok = ok and isinstance(p, ast.BinOp) and isinstance(p.op, ast.Mult) and p.right is n and names_in(p.left) == {ref}
                out.append(Instance("R-LATTICE", f"{q}#origin", OK if ok else BAD, "result origin = reference affine * translation(left, bottom of the folded pixel box)" if ok else f"result origin computed as `{short(p)}`", f.where(n)))
        for n in walk_own(f.node):
            if isinstance(n, ast.Return) and isinstance(n.value, ast.Call) and call_name(n.value) == "GeoBox":
                kws = {k.arg: k.value for k in n.value.keywords}
                ok = "shape" in kws and names_in(kws["shape"]) == {box} and "crs" in kws and names_in(kws["crs"]) == {ref}
                out.append(Instance("R-LATTICE", f"{q}#result", OK if ok else BAD, "result shape from the folded box, CRS from the reference" if ok else f"result built from {({k: short(v) for k, v in kws.items()})}", f.where(n)))
    return out


# ---------------------------------------------------------------------------------------------
# R-EMPTY
# ---------------------------------------------------------------------------------------------


def rule_empty(prog: Program) -> List[Instance]:
    out: List[Instance] = []
    n_inst = 0
    for fi in prog.all_functions({"geobox"}):
        maybe_empty: Set[str] = set()
        # names bound to an outline (footprint()/extent of a geobox), so that `a & b` on such names is recognised
        outline: Set[str] = set()
        for n in walk_own(fi.node):
            if isinstance(n, ast.Assign) and len(n.targets) == 1 and isinstance(n.targets[0], ast.Name):
                if has_call(n.value, "footprint") or any(isinstance(x, ast.Attribute) and x.attr in ("extent", "geographic_extent") for x in ast.walk(n.value)):
                    outline.add(n.targets[0].id)

        def is_outline(e: ast.AST) -> bool:
            return has_call(e, "footprint") or "extent" in short(e) or (isinstance(e, ast.Name) and e.id in outline)

        for n in walk_own(fi.node):
            if isinstance(n, ast.Assign) and len(n.targets) == 1 and isinstance(n.targets[0], ast.Name):
                for x in ast.walk(n.value):
                    if isinstance(x, ast.BinOp) and isinstance(x.op, ast.BitAnd) and (is_outline(x.left) or is_outline(x.right)):
                        maybe_empty.add(n.targets[0].id)
                    if isinstance(x, ast.Call) and call_name(x) in ("intersection", "difference") and isinstance(x.func, ast.Attribute):
                        maybe_empty.add(n.targets[0].id)
        if not maybe_empty:
            continue
        cond = Conditions(fi.body)
        for n in walk_own(fi.node):
            use = None
            if isinstance(n, ast.Call) and call_name(n) in ("tiles", "range_from_bbox", "_tiles_from_pix_bbox"):
                for a in n.args:
                    if isinstance(a, ast.Name) and a.id in maybe_empty:
                        use = a.id
                    if isinstance(a, ast.Attribute) and isinstance(a.value, ast.Name) and a.value.id in maybe_empty and a.attr == "boundingbox":
                        use = a.value.id
            if use is None:
                continue
            n_inst += 1
            st = enclosing_stmt(n)
            cs = conds_at(cond, st)
            # the callee may take care of empty queries itself (GeoboxTiles.tiles returns nothing for one)
            callee_safe = False
            if call_name(n) == "tiles":
                tq = prog.maybe_func("geobox:GeoboxTiles.tiles")
                if tq is not None:
                    callee_safe = any(isinstance(x, ast.If) and any(isinstance(a, ast.Attribute) and a.attr == "is_empty" for a in ast.walk(x.test)) and any(isinstance(y, ast.Return) for y in x.body) for x in walk_own(tq.node))
            if callee_safe:
                out.append(Instance("R-EMPTY", f"{fi.qual}#{use}->{call_name(n)}", OK, f"`{use}` may be empty, and `{call_name(n)}()` itself returns nothing for an empty query", fi.where(n)))
                continue
            ok = any(
                ((not p) and isinstance(e, ast.Attribute) and e.attr == "is_empty" and short(e.value) == use)
                or (p and isinstance(e, ast.Name) and e.id == use)
                for e, p in cs
            )
            out.append(Instance("R-EMPTY", f"{fi.qual}#{use}->{call_name(n)}", OK if ok else BAD,
                                f"`{use}` (an intersection, possibly empty) is tested with is_empty before `{short(n, 40)}`" if ok
                                else f"`{use}` is the intersection of two footprints and may be empty, but `{short(n, 40)}` takes its bounds unconditionally: disjoint rasters raise instead of yielding an empty result", fi.where(n)))
    if n_inst == 0:
        out.append(Instance("R-EMPTY", "geobox#maybe-empty-flows", UNDET, "no flow of a geometry intersection into a tile query found (grid_intersect general path moved?)", ""))
    return out


# ---------------------------------------------------------------------------------------------
# R-CAST
# ---------------------------------------------------------------------------------------------

INT_DTYPES = {"int8", "int16", "int32", "int64", "uint8", "uint16", "uint32", "uint64", "intp", "int"}
CAST_TABLE = {
    "roi:VariableSizedTiles.__init__": "chunk sizes are integers already, bounded by the image size",
    "_xr_interop:_mk_crs_coord": "EPSG code, an integer bounded by the EPSG range",
    "roi:polygon_path": "edge indexes from edge_index(), small non-negative integers",
    "_rgba:": "colour channels, clipped by construction",
}


def _is_int_dtype(e: ast.AST) -> bool:
    if isinstance(e, ast.Constant) and isinstance(e.value, str):
        return e.value in INT_DTYPES
    d = dotted(e) or ""
    return d.split(".")[-1] in INT_DTYPES


def _bounded(e: ast.AST, fi: FuncInfo, depth: int = 0) -> bool:
    """expression is the result of a clamp (np.clip / clamp / min&max pair)."""
    if depth > 4:
        return False
    if isinstance(e, ast.Call) and call_name(e) in ("clip", "clamp"):
        return True
    if isinstance(e, ast.Call) and call_name(e) in ("floor", "ceil", "round", "rint", "asarray", "array") and e.args:
        return _bounded(e.args[0], fi, depth + 1)
    if isinstance(e, ast.Name):
        defs = [n.value for n in walk_own(fi.node) if isinstance(n, ast.Assign) and any(isinstance(t, ast.Name) and t.id == e.id for t in n.targets)]
        return bool(defs) and all(_bounded(d, fi, depth + 1) for d in defs)
    return False


def rule_cast(prog: Program, modules: Set[str]) -> List[Instance]:
    out: List[Instance] = []
    for fi in prog.all_functions(modules):
        k = 0
        for n in walk_own(fi.node):
            operand = None
            if isinstance(n, ast.Call) and isinstance(n.func, ast.Attribute) and n.func.attr == "astype" and n.args and _is_int_dtype(n.args[0]):
                operand = n.func.value
            elif isinstance(n, ast.Call) and call_name(n) in ("asarray", "array") and (any(k_.arg == "dtype" and _is_int_dtype(k_.value) for k_ in n.keywords) or (len(n.args) > 1 and _is_int_dtype(n.args[1]))):
                operand = n.args[0] if n.args else None
            if operand is None:
                continue
            k += 1
            cid = f"{fi.qual}#cast:{short(operand, 40)}"
            reason = next((v for q, v in CAST_TABLE.items() if fi.qual.startswith(q)), None)
            if _bounded(operand, fi):
                out.append(Instance("R-CAST", cid, OK, f"`{short(operand, 60)}` is clamped before the fixed-width integer cast", fi.where(n)))
                # the clamp happens before padding/alignment are applied: its bounds must leave
                # room for every parameter that widens the interval afterwards
                org = Origins(fi)
                clampc = next((x for x in ast.walk(operand) if isinstance(x, ast.Call) and call_name(x) in ("clip", "clamp") and len(x.args) >= 3), None)
                if clampc is not None:
                    bound_deps = org.deps(clampc.args[1]) | org.deps(clampc.args[2])
                    st = enclosing_stmt(n)
                    later: Set[str] = set()
                    params = set(fi.param_names())
                    # parameters combined arithmetically with the cast result in this statement ...
                    for x in ast.walk(st):
                        if isinstance(x, ast.BinOp) and isinstance(x.op, (ast.Add, ast.Sub)) and (n in ast.walk(x.left) or n in ast.walk(x.right)):
                            other = x.right if n in ast.walk(x.left) else x.left
                            later |= names_in(other) & params
                    # ... and in align_up/align_down calls on the variable it is bound to
                    tgt = short(st.targets[0]) if isinstance(st, ast.Assign) else None
                    for x in walk_own(fi.node):
                        if isinstance(x, ast.Call) and call_name(x) in ("align_up", "align_down") and len(x.args) == 2 and tgt and short(x.args[0]) == tgt:
                            later |= names_in(x.args[1]) & params
                    miss = sorted(later - bound_deps)
                    out.append(Instance("R-CAST", cid + "#margin", BAD if miss else OK,
                                        f"clamp bounds `{short(clampc.args[1], 20)}`/`{short(clampc.args[2], 20)}` do not account for {miss}, which widen the interval after the clamp: a far-away envelope is pulled back into the image"
                                        if miss else f"clamp margin accounts for every later widening parameter ({sorted(later)})", fi.where(n)))
            elif reason is not None:
                out.append(Instance("R-CAST", cid, INFO, f"table: {reason}", fi.where(n), nontrivial=False))
            else:
                out.append(Instance("R-CAST", cid, BAD, f"`{short(n, 70)}` casts an unbounded float to a fixed-width integer: values beyond the type's range wrap around silently", fi.where(n)))
    return out


# ---------------------------------------------------------------------------------------------
# R-FILL
# ---------------------------------------------------------------------------------------------


def rule_fill(prog: Program) -> List[Instance]:
    out: List[Instance] = []
    rr = prog.func("warp:rio_reproject")
    # summary: rio_reproject applies the NaN default for float destinations
    has_default = False
    for n in walk_own(rr.node):
        if isinstance(n, ast.If) and "dst_nodata is None" in short(n.test):
            for a in ast.walk(n):
                if isinstance(a, ast.Assign) and short(a.targets[0]) == "dst_nodata" and "nan" in short(a.value).lower():
                    # must be conditional on a float destination
                    anc = parent(a)
                    fl = isinstance(anc, ast.If) and "kind" in short(anc.test) and "'f'" in short(anc.test) and "dst" in short(anc.test)
                    has_default = has_default or fl
    out.append(Instance("R-FILL", f"{rr.qual}#float-nan-default", OK if has_default else BAD,
                        "float destination without nodata is filled with NaN" if has_default else "rio_reproject no longer defaults dst_nodata to NaN for float destinations", rr.where()))
    # the default must be applied before both the 2-d and the n-d branch
    if has_default:
        first_call = next((enclosing_stmt(n) for n in walk_own(rr.node) if isinstance(n, ast.Call) and call_name(n) == "_rio_reproject"), None)
        dflt = next((n for n in rr.node.body if isinstance(n, ast.If) and "dst_nodata is None" in short(n.test)), None)
        body = rr.node.body
        def top(st):
            while parent(st) is not rr.node:
                st = parent(st)
            return st
        ok = dflt is not None and first_call is not None and body.index(dflt) < body.index(top(first_call))
        out.append(Instance("R-FILL", f"{rr.qual}#default-before-warp", OK if ok else BAD, "default resolved before any plane is warped" if ok else "NaN default is resolved after a warp call", rr.where()))
    d = prog.func("_dask:_do_chunked_reproject")
    calls = [n for n in walk_own(d.node) if isinstance(n, ast.Call) and call_name(n) in ("rio_reproject", "_rio_reproject", "reproject")]
    if not calls:
        out.append(Instance("R-FILL", f"{d.qual}#warp-call", UNDET, "no warp call found", d.where()))
    for n in calls:
        via = call_name(n)
        dn = next((k.value for k in n.keywords if k.arg == "dst_nodata"), None)
        resolved = dn is not None and has_call(dn, "resolve_fill_value")
        if isinstance(dn, ast.Name):
            org = Origins(d)
            resolved = any(has_call(v, "resolve_fill_value") for _, v in org.defs.get(dn.id, []))
        ok = (via == "rio_reproject" and has_default) or resolved
        out.append(Instance("R-FILL", f"{d.qual}#covered-chunk-fill", OK if ok else BAD,
                            f"covered chunks are warped through {via} ({'which applies the float NaN default' if via == 'rio_reproject' else 'with a resolved fill value'})" if ok
                            else f"covered chunks call `{via}` with the raw dst_nodata on a zero-initialised block: unreached float pixels become 0 while uncovered chunks and the in-memory path give NaN", d.where(n)))
        # the warp either works plane by plane or is told where the y axis is
        in_plane_loop = False
        q = parent(n)
        while q is not None and q is not d.node:
            if isinstance(q, ast.For) and "planes_yx" in short(q.iter):
                in_plane_loop = True
            q = parent(q)
        yd = next((k.value for k in n.keywords if k.arg == "ydim"), None)
        axis_p = "axis" if "axis" in d.param_names() else None
        ok_axis = in_plane_loop or (yd is not None and axis_p is not None and axis_p in Origins(d).deps(yd))
        out.append(Instance("R-FILL", f"{d.qual}#plane-axis", OK if ok_axis else BAD,
                            "chunks are warped plane by plane (planes_yx)" if in_plane_loop else ("the y-axis position is passed on as ydim" if ok_axis else
                            "the per-chunk warp neither iterates 2-d planes nor passes ydim=axis: rasters with a trailing band axis are warped along the wrong axes"), d.where(n)))
        for kw in ("src_nodata", "dst_nodata", "resampling"):
            kv = next((k.value for k in n.keywords if k.arg == kw), None)
            ok2 = isinstance(kv, ast.Name) and kv.id == kw
            out.append(Instance("R-FILL", f"{d.qual}#forward:{kw}", OK if ok2 else BAD, f"{kw} forwarded" if ok2 else f"{kw} not forwarded to the warp as {kw}", d.where(n)))
    rf = prog.func("_dask:resolve_fill_value")
    pp = rf.param_names()
    # order in which a configured value wins: a walk over the top-level statements collects, in program order, which
    # parameter a `return` under `<p> is not None` hands back (also through `for v in (a, b): if v is not None: return ..v..`)
    events: List[str] = []

    def _notnone_param(t: ast.AST) -> Optional[str]:
        if isinstance(t, ast.Compare) and len(t.ops) == 1 and isinstance(t.ops[0], ast.IsNot) and isinstance(t.left, ast.Name) and isinstance(t.comparators[0], ast.Constant) and t.comparators[0].value is None:
            return t.left.id
        return None

    def _walk(body: List[ast.stmt], alias: Dict[str, str]) -> None:
        for n in body:
            if isinstance(n, ast.If):
                v = _notnone_param(n.test)
                rets = [r for x in n.body for r in ast.walk(x) if isinstance(r, ast.Return) and r.value is not None]
                if v is not None and rets and v in names_in(rets[0].value):
                    events.append(alias.get(v, v))
                elif any(isinstance(c, ast.Attribute) and c.attr == "floating" for c in ast.walk(n.test)) or "nan" in short(n, 200).lower():
                    events.append("default")
                else:
                    _walk(n.body, alias)
                    _walk(n.orelse, alias)
            elif isinstance(n, ast.For) and isinstance(n.target, ast.Name) and isinstance(n.iter, (ast.Tuple, ast.List)) and all(isinstance(e, ast.Name) for e in n.iter.elts):
                for e in n.iter.elts:
                    _walk(n.body, {**alias, n.target.id: e.id})  # type: ignore[attr-defined]
            elif isinstance(n, ast.Return):
                events.append("default")

    _walk(rf.node.body, {})
    ev_p = [e for e in events if e in pp[:2]]
    if set(ev_p) != set(pp[:2]):
        out.append(Instance("R-FILL", f"{rf.qual}#precedence", UNDET, f"could not read the order in which {pp[0]} / {pp[1]} win from the statements of resolve_fill_value (events: {events})", rf.where()))
    else:
        ok = ev_p[:2] == pp[:2] and "default" in events and events.index("default") > max(i for i, e in enumerate(events) if e in pp[:2])
        out.append(Instance("R-FILL", f"{rf.qual}#precedence", OK if ok else BAD,
                            "fill = dst_nodata, else src_nodata, else the dtype's default (NaN for floats, else 0)" if ok else f"fill precedence is {events}: the destination nodata must win over the source nodata, defaults come last", rf.where()))
    dr = prog.func("_dask:_dask_rio_reproject")
    fv = [n for n in walk_own(dr.node) if isinstance(n, ast.Call) and call_name(n) == "resolve_fill_value"]
    ok = bool(fv) and [short(a) for a in fv[0].args[:2]] == ["dst_nodata", "src_nodata"]
    out.append(Instance("R-FILL", f"{dr.qual}#uncovered-chunk-fill", OK if ok else BAD,
                        "uncovered chunks use resolve_fill_value(dst_nodata, src_nodata, dtype)" if ok else "uncovered chunks do not use resolve_fill_value(dst_nodata, src_nodata, ...)", dr.where()))
    dr_nodes = [n for g_ in [dr] + list(dr.nested.values()) for n in walk_own(g_.node)]
    full = [n for n in dr_nodes if isinstance(n, ast.Tuple) and n.elts and short(n.elts[0]) in ("np.full", "numpy.full")]
    fv_name = None
    for n in dr_nodes:
        if isinstance(n, ast.Assign) and isinstance(n.targets[0], ast.Name) and isinstance(n.value, ast.Call) and call_name(n.value) == "resolve_fill_value":
            fv_name = n.targets[0].id
    ok = bool(full) and len(full[0].elts) >= 3 and fv_name is not None and short(full[0].elts[2]) == fv_name
    out.append(Instance("R-FILL", f"{dr.qual}#uncovered-chunk-task", OK if ok else BAD, "chunk without sources is (np.full, shape, fill_value, dtype)" if ok else "chunk without sources is not a constant fill block", dr.where()))
    get = [n for n in dr_nodes if isinstance(n, ast.Call) and call_name(n) == "get" and len(n.args) == 2 and isinstance(n.func, ast.Attribute)
           and any(isinstance(a_, ast.Assign) and isinstance(a_.value, ast.Call) and call_name(a_.value) == "grid_intersect" and short(n.func.value) in {short(t_) for t_ in a_.targets} for a_ in dr_nodes)]
    get = get or [n for n in dr_nodes if isinstance(n, ast.Call) and call_name(n) == "get" and "d2s" in short(n.func)]
    ok = bool(get) and len(get[0].args) == 2 and isinstance(get[0].args[1], (ast.List, ast.Tuple)) and not get[0].args[1].elts
    if not get:
        out.append(Instance("R-FILL", f"{dr.qual}#missing-deps-default", UNDET, "no `.get(idx, <default>)` lookup on the dependency map found", dr.where()))
    else:
      out.append(Instance("R-FILL", f"{dr.qual}#missing-deps-default", OK if ok else BAD, "missing dependency entry means no sources" if ok else "dependency lookup no longer defaults to an empty source list", dr.where()))
    # direction: destination tiles intersect source tiles
    gi = [n for n in walk_own(dr.node) if isinstance(n, ast.Call) and call_name(n) == "grid_intersect"]
    ok = False
    if gi and isinstance(gi[0].func, ast.Attribute) and gi[0].args:
        org_d = Origins(dr)
        pp_d = dr.param_names()  # (src, s_gbox, d_gbox, ...)
        recv_deps, arg_deps = org_d.deps(gi[0].func.value), org_d.deps(gi[0].args[0])
        ok = pp_d[2] in recv_deps and pp_d[1] in arg_deps and pp_d[2] not in arg_deps
    out.append(Instance("R-FILL", f"{dr.qual}#dependency-direction", OK if ok else BAD, "dependencies computed as dst.grid_intersect(src)" if ok else "tile dependency graph computed in the wrong direction", dr.where()))
    # _xr_reproject_da: dst_nodata defaults to src_nodata before either path
    xd = prog.func("_xr_interop:_xr_reproject_da")
    ok = any(isinstance(n, ast.If) and short(n.test) == "dst_nodata is None" and any(isinstance(a, ast.Assign) and short(a.targets[0]) == "dst_nodata" and isinstance(a.value, ast.Name) and a.value.id != "dst_nodata" for a in n.body) for n in xd.node.body)
    out.append(Instance("R-FILL", f"{xd.qual}#dst-defaults-to-src-nodata", OK if ok else BAD, "dst_nodata defaults to src_nodata for both the dask and the in-memory path" if ok else "dst_nodata no longer defaults to src_nodata before the path split", xd.where()))
    return out


# ---------------------------------------------------------------------------------------------
# R-SIBLING
# ---------------------------------------------------------------------------------------------


def rule_sibling(prog: Program) -> List[Instance]:
    out: List[Instance] = []
    for q in ("_xr_interop:_xr_reproject_da", "_xr_interop:_xr_reproject_ds"):
        f = prog.func(q)
        rd = ReachingDefs(f.node)
        # destination geobox variable = the one defined from `how` / output_geobox
        dst = None
        for n in walk_own(f.node):
            if isinstance(n, ast.Assign) and isinstance(n.targets[0], ast.Name) and isinstance(n.value, ast.Call) and call_name(n.value) == "output_geobox":
                dst = n.targets[0].id
        if dst is None:
            out.append(Instance("R-SIBLING", f"{q}#dst-geobox", UNDET, "destination geobox variable not found", f.where()))
            continue
        # (i) coordinates of the returned object derive from xr_coords(dst)
        xc = [n for n in walk_own(f.node) if isinstance(n, ast.Call) and call_name(n) == "xr_coords" and n.args and short(n.args[0]) == dst]
        rets = [n for n in walk_own(f.node) if isinstance(n, ast.Return) and n.value is not None]
        ret_names = {x for r in rets for x in names_in(r.value)}
        flows = False
        for c in xc:
            st = enclosing_stmt(c)
            tnames = set()
            if isinstance(st, ast.Assign):
                tnames = {x for t in st.targets for x in names_in(t)}
            elif isinstance(st, ast.Expr) and isinstance(st.value, ast.Call) and isinstance(st.value.func, ast.Attribute):
                tnames = names_in(st.value.func.value)
            # direct or via one more hop (coords -> DataArray(coords=coords) -> out)
            if tnames & ret_names:
                flows = True
            else:
                for n in walk_own(f.node):
                    if isinstance(n, ast.Assign) and names_in(n.value) & tnames and {x for t in n.targets for x in names_in(t)} & ret_names:
                        flows = True
        raw_map = any(isinstance(r.value, ast.Call) and call_name(r.value) == "map" for r in rets)
        ok = bool(xc) and flows and not raw_map
        out.append(Instance("R-SIBLING", f"{q}#dst-coords", OK if ok else BAD,
                            f"returned object carries xr_coords({dst})" if ok else
                            ("returns the value of Dataset.map(...) as is: container-level coordinates (incl. the source's spatial_ref) are kept by xarray, so the recovered CRS is the source's" if raw_map else f"returned object is not given xr_coords({dst}) at its own level"), f.where()))
        # (ii) attrs filtered by SPATIAL_ATTRIBUTES
        filt = any(isinstance(n, ast.Compare) and isinstance(n.ops[0], ast.NotIn) and short(n.comparators[0]) == "SPATIAL_ATTRIBUTES" for n in walk_own(f.node))
        out.append(Instance("R-SIBLING", f"{q}#attrs-pruned", OK if filt else BAD,
                            "attributes are filtered through SPATIAL_ATTRIBUTES" if filt else "stale spatial attributes (crs, grid_mapping, ...) of the source are not pruned at this level", f.where()))
        # (iii) source CRS coordinate removed
        drop = any(isinstance(n, ast.Call) and call_name(n) == "_is_spatial_ref" for nf in list(f.nested.values()) + [f] for n in walk_own(nf.node)) \
            or any(isinstance(n, ast.Call) and call_name(n) == "_is_spatial_ref" for _g, n in prog.closure_nodes(f))
        if not drop:
            org = Origins(f)
            for n in walk_own(f.node):
                if isinstance(n, ast.Call) and call_name(n) == "drop_vars" and n.args:
                    for nm in names_in(n.args[0]):
                        if any(has_call(v, "_locate_crs_coords") for _, v in org.defs.get(nm, [])):
                            # must be applied to the object that is returned (not only to pass-through variables)
                            recv = n.func.value if isinstance(n.func, ast.Attribute) else None
                            if recv is not None and names_in(recv) & (ret_names | {"out"}):
                                drop = True
        out.append(Instance("R-SIBLING", f"{q}#stale-crs-coord-dropped", OK if drop else BAD,
                            "the source's CRS coordinate is excluded from the result" if drop else "the source's CRS coordinate survives into the result", f.where()))
    # (iv) the Dataset variant must not hand the per-variable results to Dataset.map(): xarray's map owns
    # the attribute policy (copies the *source* variables' attributes back over the results, or clears
    # them), so the attributes computed by the DataArray sibling - spatial ones pruned, nodata updated -
    # never reach the output
    fds = prog.func("_xr_interop:_xr_reproject_ds")
    per_var = {nf.name for nf in fds.nested.values() if any(isinstance(c, ast.Call) and call_name(c) == "_xr_reproject_da" for c in walk_own(nf.node))}
    maps = [n for n in walk_own(fds.node) if isinstance(n, ast.Call) and isinstance(n.func, ast.Attribute) and n.func.attr in ("map", "apply") and any(isinstance(a, ast.Name) and a.id in per_var for a in n.args)]
    direct = [n for n in walk_own(fds.node) if isinstance(n, ast.Call) and not (isinstance(n.func, ast.Attribute) and n.func.attr in ("map", "apply")) and isinstance(n.func, ast.Name) and n.func.id in per_var] + \
             [c for n in ast.walk(fds.node) if isinstance(n, (ast.DictComp, ast.ListComp, ast.GeneratorExp)) for c in ast.walk(n) if isinstance(c, ast.Call) and isinstance(c.func, ast.Name) and c.func.id in per_var]
    if maps:
        out.append(Instance("R-SIBLING", f"{fds.qual}#var-attrs", BAD,
                            f"`{short(maps[0], 50)}` routes the per-variable results through Dataset.map(): the installed xarray copies the source variables' attributes back over them (stale crs/grid_mapping, nodata not updated from dst_nodata)", fds.where(maps[0])))
    elif direct:
        out.append(Instance("R-SIBLING", f"{fds.qual}#var-attrs", OK, "output variables are the per-variable results themselves (attributes as computed by the DataArray sibling)", fds.where(direct[0])))
    else:
        out.append(Instance("R-SIBLING", f"{fds.qual}#var-attrs", INFO, "per-variable reprojection helper not recognised", fds.where(), nontrivial=False))
    # DataArray variant sets grid_mapping encoding
    f = prog.func("_xr_interop:_xr_reproject_da")
    gm = any(isinstance(n, ast.Assign) and isinstance(n.targets[0], ast.Subscript) and "encoding" in short(n.targets[0]) and "grid_mapping" in short(n.targets[0]) for n in walk_own(f.node))
    out.append(Instance("R-SIBLING", f"{f.qual}#grid_mapping", OK if gm else BAD, "output encoding names the CRS coordinate" if gm else "output encoding['grid_mapping'] is not set", f.where()))
    # dims / shape are spliced: leading axes of the source + the destination's two + trailing axes of the source
    src_p = f.param_names()[0]
    dst_names = dst_geobox_locals(prog, f)
    dst_names |= {n.targets[0].id for n in walk_own(f.node) if isinstance(n, ast.Assign) and isinstance(n.targets[0], ast.Name) and isinstance(n.value, ast.Name) and n.value.id in f.param_names()[1:2]}

    def _src_slice(e: ast.AST):
        """*<src>.<attr>[lo:hi] -> (attr, lo, hi)"""
        if isinstance(e, ast.Starred) and isinstance(e.value, ast.Subscript) and isinstance(e.value.slice, ast.Slice) and isinstance(e.value.value, ast.Attribute) \
                and isinstance(e.value.value.value, ast.Name) and e.value.value.value.id == src_p:
            return e.value.value.attr, e.value.slice.lower, e.value.slice.upper
        return None

    for n in walk_own(f.node):
        if not (isinstance(n, ast.Assign) and isinstance(n.targets[0], ast.Name) and isinstance(n.value, ast.Tuple) and len(n.value.elts) == 3):
            continue
        a, m, b = n.value.elts
        sa, sb = _src_slice(a), _src_slice(b)
        if sa is None and sb is None:
            continue
        tname = n.targets[0].id
        ok = False
        why = "not of the form (*src.A[:k], *dst.B, *src.A[k + 2:])"
        if sa is not None and sb is not None and sa[0] == sb[0] and sa[0] in ("dims", "shape"):
            k = sa[2]
            # the split position: a local or an attribute chain (src.odc.ydim), the same on both sides
            lead_ok = sa[1] is None and isinstance(k, (ast.Name, ast.Attribute))
            trail_ok = sb[2] is None and isinstance(sb[1], ast.BinOp) and isinstance(sb[1].op, ast.Add) and isinstance(k, (ast.Name, ast.Attribute)) and short(sb[1].left, 200) == short(k, 200) and const_num(sb[1].right) == 2
            mid_attr = m.value if isinstance(m, ast.Starred) else m
            want_attr = "dimensions" if sa[0] == "dims" else "shape"
            mid_ok = isinstance(mid_attr, ast.Attribute) and mid_attr.attr == want_attr and isinstance(mid_attr.value, ast.Name) and mid_attr.value.id in dst_names
            ok = lead_ok and trail_ok and mid_ok
            why = f"leading ok={lead_ok}, destination part ok={mid_ok}, trailing ok={trail_ok}"
        out.append(Instance("R-SIBLING", f"{f.qual}#splice:{tname}", OK if ok else BAD,
                            f"{tname} = leading source axes + the destination geobox's two + trailing source axes" if ok else f"`{short(n, 80)}` does not splice the destination's axes between the source's leading and trailing ones ({why})", f.where(n)))
    return out


# ---------------------------------------------------------------------------------------------
# R-KEYS
# ---------------------------------------------------------------------------------------------

WRITERS = ["_mk_crs_coord", "_gcps_to_json", "xr_coords", "_mk_pixel_coord", "wrap_xr", "assign_crs", "_xr_reproject_da", "_coord_to_xr"]
READERS = ["_extract_crs", "_extract_geo_transform", "_extract_gcps", "_extract_transform", "_locate_crs_coords", "_get_crs_from_attrs", "_is_spatial_ref"]
EXTERNAL_WRITTEN = {"crs_wkt": "written by pyproj's CRS.to_cf()", "features": "GeoJSON container key written below", "type": "GeoJSON", "geometry": "GeoJSON", "coordinates": "GeoJSON", "units": "display only", "resolution": "display only"}
CORE = {"spatial_ref", "GeoTransform", "gcps", "_transform", "grid_mapping", "crs", "row", "col", "properties", "features"}


def _keys_written(fi: FuncInfo) -> Set[str]:
    ks: Set[str] = set()
    for f in [fi] + list(fi.nested.values()):
        for n in walk_own(f.node):
            if isinstance(n, ast.Dict):
                for k in n.keys:
                    if isinstance(k, ast.Constant) and isinstance(k.value, str):
                        ks.add(k.value)
            if isinstance(n, (ast.Assign, ast.AugAssign)):
                tg = n.targets if isinstance(n, ast.Assign) else [n.target]
                for t in tg:
                    if isinstance(t, ast.Subscript) and isinstance(t.slice, ast.Constant) and isinstance(t.slice.value, str):
                        ks.add(t.slice.value)
            if isinstance(n, ast.Call) and call_name(n) == "update":
                for k in n.keywords:
                    if k.arg:
                        ks.add(k.arg)
    return ks


def _keys_read(fi: FuncInfo) -> Set[str]:
    ks: Set[str] = set()
    for f in [fi] + list(fi.nested.values()):
        for n in walk_own(f.node):
            if isinstance(n, ast.Call) and call_name(n) == "get" and n.args and isinstance(n.args[0], ast.Constant) and isinstance(n.args[0].value, str):
                ks.add(n.args[0].value)
            if isinstance(n, ast.Subscript) and isinstance(n.ctx, ast.Load) and isinstance(n.slice, ast.Constant) and isinstance(n.slice.value, str):
                ks.add(n.slice.value)
            if isinstance(n, ast.Compare) and isinstance(n.ops[0], ast.In) and isinstance(n.left, ast.Constant) and isinstance(n.left.value, str):
                ks.add(n.left.value)
    return ks


def rule_keys(prog: Program) -> List[Instance]:
    out: List[Instance] = []
    mod = "_xr_interop"
    written: Dict[str, Set[str]] = {}
    read: Dict[str, Set[str]] = {}
    for w in WRITERS:
        f = prog.maybe_func(f"{mod}:{w}")
        if f is None:
            out.append(Instance("R-KEYS", f"{mod}:{w}#writer", UNDET, "writer function not found", ""))
            continue
        for k in _keys_written(f):
            written.setdefault(k, set()).add(w)
    for r in READERS:
        f = prog.maybe_func(f"{mod}:{r}")
        if f is None:
            out.append(Instance("R-KEYS", f"{mod}:{r}#reader", UNDET, "reader function not found", ""))
            continue
        for k in _keys_read(f):
            read.setdefault(k, set()).add(r)
    for k in sorted(read):
        cid = f"{mod}#read:{k}"
        if k in written:
            out.append(Instance("R-KEYS", cid, OK, f"key '{k}' read by {sorted(read[k])} is written by {sorted(written[k])}", f"odc/geo/{mod}.py"))
        elif k in EXTERNAL_WRITTEN:
            out.append(Instance("R-KEYS", cid, INFO, f"key '{k}': {EXTERNAL_WRITTEN[k]}", f"odc/geo/{mod}.py", nontrivial=False))
        else:
            out.append(Instance("R-KEYS", cid, BAD, f"readers {sorted(read[k])} look for key '{k}' that no writer produces: registration written by this library cannot be read back", f"odc/geo/{mod}.py"))
    for k in sorted(CORE):
        cid = f"{mod}#written-and-read:{k}"
        w, r = written.get(k), read.get(k)
        if w and r:
            out.append(Instance("R-KEYS", cid, OK, f"core key '{k}' written by {sorted(w)} and read by {sorted(r)}", f"odc/geo/{mod}.py"))
        else:
            out.append(Instance("R-KEYS", cid, BAD, f"core key '{k}' is {'written' if w else 'not written'} and {'read' if r else 'not read'}: writer/reader tables disagree", f"odc/geo/{mod}.py"))
    # SPATIAL_ATTRIBUTES covers every attr the readers consult on data variables
    sa = prog.module(mod).assigns.get("SPATIAL_ATTRIBUTES")
    if not sa:
        out.append(Instance("R-KEYS", f"{mod}#SPATIAL_ATTRIBUTES", UNDET, "SPATIAL_ATTRIBUTES not found", ""))
    else:
        vals = {e.value for e in ast.walk(sa[-1]) if isinstance(e, ast.Constant) and isinstance(e.value, str)}
        need = {"crs", "crs_wkt", "grid_mapping", "gcps"}
        ok = need <= vals
        out.append(Instance("R-KEYS", f"{mod}#SPATIAL_ATTRIBUTES", OK if ok else BAD,
                            f"SPATIAL_ATTRIBUTES {sorted(vals)} covers the attrs readers consult on variables" if ok else f"SPATIAL_ATTRIBUTES lacks {sorted(need - vals)}: a stale attribute survives reprojection and is read back as the CRS", f"odc/geo/{mod}.py"))
    # GDAL order of the GeoTransform
    gt = prog.func(f"{mod}:_extract_geo_transform")
    unpack = call = None
    for n in walk_own(gt.node):
        if isinstance(n, ast.Assign) and isinstance(n.targets[0], ast.Tuple) and len(n.targets[0].elts) == 6:
            unpack = [short(e) for e in n.targets[0].elts]
        if isinstance(n, ast.Call) and call_name(n) == "from_gdal":
            call = [short(a) for a in n.args]
    ok = unpack is not None and call == unpack
    if unpack is None or call is None:
        out.append(Instance("R-KEYS", f"{gt.qual}#gdal-order", UNDET, "the six numbers are not unpacked into six names / not passed to Affine.from_gdal by name: nothing to compare", gt.where()))
    else:
      out.append(Instance("R-KEYS", f"{gt.qual}#gdal-order", OK if ok else BAD,
                        "six GeoTransform numbers go to Affine.from_gdal in the order they were parsed" if ok else f"parsed as {unpack} but passed to from_gdal as {call}", gt.where()))
    mk = prog.func(f"{mod}:_mk_crs_coord")
    ok = any(isinstance(n, ast.Call) and call_name(n) == "to_gdal" and short(n.func.value) == "transform" for n in walk_own(mk.node))
    out.append(Instance("R-KEYS", f"{mk.qual}#gdal-order", OK if ok else BAD, "GeoTransform written with transform.to_gdal()" if ok else "GeoTransform is not written from transform.to_gdal()", mk.where()))
    # gcp reader pairs col->x, row->y
    eg = prog.func(f"{mod}:_extract_gcps")
    for n in walk_own(eg.node):
        if isinstance(n, ast.Call) and call_name(n) == "xy_" and len(n.args) == 2:
            a = [short(x) for x in n.args]
            ok = "'col'" in a[0] and "'row'" in a[1]
            out.append(Instance("R-KEYS", f"{eg.qual}#col-row-order", OK if ok else BAD, "pixel point = xy_(col, row)" if ok else f"pixel point built as xy_({a[0]}, {a[1]}): rows and columns swapped", eg.where(n)))
    # every wrapper that attaches a crs coord also names it in encoding
    for w in ("wrap_xr", "assign_crs", "_xr_reproject_da"):
        f = prog.func(f"{mod}:{w}")
        ok = "grid_mapping" in _keys_written(f)
        out.append(Instance("R-KEYS", f"{f.qual}#grid_mapping-written", OK if ok else BAD, "grid_mapping encoding written alongside the CRS coordinate" if ok else "attaches a CRS coordinate without naming it in encoding['grid_mapping']", f.where()))
    return out


# ---------------------------------------------------------------------------------------------
# R-SIGNROLE
# ---------------------------------------------------------------------------------------------


def _sign_test(e: ast.AST, name: str) -> Optional[bool]:
    """True if ``e`` tests `name > 0`, False if it tests `name < 0` (either operand order)."""
    if isinstance(e, ast.Compare) and len(e.ops) == 1:
        l, r, op = e.left, e.comparators[0], e.ops[0]
        if isinstance(l, ast.Name) and l.id == name and const_num(r) == 0:
            if isinstance(op, (ast.Gt, ast.GtE)):
                return True
            if isinstance(op, (ast.Lt, ast.LtE)):
                return False
        if isinstance(r, ast.Name) and r.id == name and const_num(l) == 0:
            if isinstance(op, (ast.Lt, ast.LtE)):
                return True
            if isinstance(op, (ast.Gt, ast.GtE)):
                return False
    return None


def rule_signrole(prog: Program) -> List[Instance]:
    """Positive resolution <-> lower edge of the interval; negative <-> upper edge.  Intervals are
    recognised through `lo, hi = <subscript/call>` unpacking and parameter positions, not names."""
    from .axis import Beliefs

    out: List[Instance] = []
    f = prog.func("gridspec:GridSpec._tile_txy")
    bel = Beliefs(f)
    pairs: Dict[str, Tuple[str, str, ast.AST]] = {}
    for n in walk_own(f.node):
        if isinstance(n, ast.Assign) and isinstance(n.targets[0], ast.Tuple) and len(n.targets[0].elts) == 2 and isinstance(n.value, ast.Subscript):
            lo, hi = [short(e) for e in n.targets[0].elts]
            pairs[lo] = (lo, hi, n.value)
            pairs[hi] = (lo, hi, n.value)
    n_i = 0
    for n in with_folded(walk_own(f.node)):
        if isinstance(n, ast.Assign) and isinstance(n.value, ast.IfExp) and isinstance(n.value.test, ast.Compare) and isinstance(n.value.test.left, ast.Name):
            t = n.value.test
            pos = _sign_test(t, t.left.id)
            b, o = short(n.value.body), short(n.value.orelse)
            if pos is None or b not in pairs or o not in pairs or pairs[b][:2] != pairs[o][:2]:
                continue
            lo, hi, src_expr = pairs[b]
            chosen_when_pos = b if pos else o
            ok = chosen_when_pos == lo and {b, o} == {lo, hi}
            # resolution, interval and result must be of one axis (naming belief / attribute axis)
            from .axis import AxisTyper
            ty = AxisTyper(f, bel, prog)
            axes = {ty.tag(t.left), ty.tag(n.targets[0]), ty.tag(src_expr.value), ty.tag(src_expr.slice)}
            axes.discard(None)
            ok_axis = len(axes) <= 1
            n_i += 1
            out.append(Instance("R-SIGNROLE", f"{f.qual}#edge:{short(n.targets[0])}", OK if ok and ok_axis else BAD,
                                f"`{short(n)}`: positive resolution starts at the lower edge of its own axis' interval" if ok and ok_axis
                                else (f"`{short(n)}`: positive resolution must pick the lower edge `{lo}`, negative the upper edge `{hi}`" if not ok else f"`{short(n)}` mixes axes {sorted(axes)}"), f.where(n)))
    # an interval whose edge is picked without looking at the sign of the resolution
    used_cond = set()
    for n in with_folded(walk_own(f.node)):
        if isinstance(n, ast.Assign) and isinstance(n.value, ast.IfExp):
            used_cond |= names_in(n.value.body) | names_in(n.value.orelse)
    seen_pairs = {v[:2] for v in pairs.values()}
    for lo, hi in sorted(seen_pairs):
        if lo in used_cond or hi in used_cond:
            continue
        uncond = [n for n in walk_own(f.node) if isinstance(n, ast.Name) and isinstance(n.ctx, ast.Load) and n.id in (lo, hi)]
        if uncond:
            n_i += 1
            out.append(Instance("R-SIGNROLE", f"{f.qual}#edge:{lo}|{hi}", BAD,
                                f"edge `{uncond[0].id}` of the interval ({lo}, {hi}) is used regardless of the sign of the resolution: with a negative resolution on that axis the tile is placed one tile off", f.where(uncond[0])))
    if n_i < 2:
        out.append(Instance("R-SIGNROLE", f"{f.qual}#edges", UNDET, "expected two sign-dependent edge choices", f.where()))

    # math._snap_edge(x0, x1, res, tol)
    se = prog.func("math:_snap_edge")
    pp = se.param_names()
    resp = pp[2]
    cond = Conditions(se.body)
    pos_ok = neg_ok = False
    for n in walk_own(se.node):
        if isinstance(n, ast.Call) and call_name(n) == "_snap_edge_pos" and len(n.args) >= 3:
            st = enclosing_stmt(n)
            cs = conds_at(cond, st)
            sign = None
            for e, p in cs:
                stt = _sign_test(e, resp)
                if stt is not None:
                    sign = stt if p else (not stt)
            a2 = n.args[2]
            if sign is True:
                pos_ok = isinstance(a2, ast.Name) and a2.id == resp and isinstance(st, ast.Return)
            elif sign is False:
                negated = isinstance(a2, ast.UnaryOp) and isinstance(a2.op, ast.USub) and short(a2.operand) == resp or (isinstance(a2, ast.Call) and call_name(a2) == "abs")
                # returned origin = origin of the positive snap + count * |res|
                tg = st.targets[0] if isinstance(st, ast.Assign) and isinstance(st.targets[0], ast.Tuple) else None
                if negated and tg is not None and len(tg.elts) == 2:
                    o_nm, c_nm = short(tg.elts[0]), short(tg.elts[1])
                    for r in (x for x in walk_own(se.node) if isinstance(x, ast.Return) and x is not st):
                        first = r.value.elts[0] if isinstance(r.value, ast.Tuple) and r.value.elts else None
                        if first is None:
                            continue
                        deps = set(names_in(first))
                        for nm in list(deps):
                            for d in [x.value for x in walk_own(se.node) if isinstance(x, ast.Assign) and short(x.targets[0]) == nm]:
                                deps |= names_in(d)
                        if {o_nm, c_nm, resp} <= deps:
                            neg_ok = True
    if not any(isinstance(n, ast.Call) and call_name(n) == "_snap_edge_pos" for n in walk_own(se.node)):
        # the positive-resolution helper was folded into this function: the two clauses below are written against the
        # call shape and decide nothing here
        out.append(Instance("R-SIGNROLE", f"{se.qual}#snap-edge-shape", UNDET, "no call of _snap_edge_pos: edge selection is not delegated to the positive-resolution helper", se.where()))
        pos_ok = neg_ok = None  # type: ignore[assignment]
    if pos_ok is not None:
      out.append(Instance("R-SIGNROLE", f"{se.qual}#positive-resolution", OK if pos_ok else BAD, "positive resolution snaps directly" if pos_ok else "positive-resolution branch no longer returns the direct snap", se.where()))
    if neg_ok is False and not any(isinstance(n, ast.Assign) and isinstance(n.targets[0], ast.Tuple) and isinstance(n.value, ast.Call) and call_name(n.value) == "_snap_edge_pos" for n in walk_own(se.node)):
        out.append(Instance("R-SIGNROLE", f"{se.qual}#negative-resolution", UNDET, "the result of _snap_edge_pos is not unpacked into (origin, count) here (carried in a record): the origin shift is not followed", se.where()))
        neg_ok = None  # type: ignore[assignment]
    if neg_ok is not None:
      out.append(Instance("R-SIGNROLE", f"{se.qual}#negative-resolution", OK if neg_ok else BAD,
                        "negative resolution snaps with |res| and moves the origin to the upper edge (origin + count*|res|)" if neg_ok else "negative-resolution branch does not snap with |res| and shift the origin by count*|res| to the upper edge", se.where()))

    # snap_grid(x0, x1, res, off_pix, tol)
    sg = prog.func("math:snap_grid")
    pp = sg.param_names()
    x0p, x1p, resp, offp = pp[0], pp[1], pp[2], pp[3]
    cond = Conditions(sg.body)
    for r in (n for n in walk_own(sg.node) if isinstance(n, ast.Return) and isinstance(n.value, ast.Tuple) and len(n.value.elts) == 2):
        cs = conds_at(cond, r)
        none_branch = any(p and isinstance(e, ast.Compare) and isinstance(e.ops[0], ast.Is) and short(e.left) == offp for e, p in cs)
        if not none_branch:
            continue
        sign = None
        for e, p in cs:
            stt = _sign_test(e, resp)
            if stt is not None:
                sign = stt if p else (not stt)
        first = short(r.value.elts[0])
        if sign is None:
            continue
        ok = (sign and first == x0p) or ((not sign) and first == x1p)
        out.append(Instance("R-SIGNROLE", f"{sg.qual}#unsnapped:{'pos' if sign else 'neg'}", OK if ok else BAD,
                            f"origin {first} for {'positive' if sign else 'negative'} resolution" if ok else f"unsnapped grid with {'positive' if sign else 'negative'} resolution starts at `{first}` instead of `{x0p if sign else x1p}`", sg.where(r)))
    # snapped branch: the same offset is subtracted from both ends before snapping and added back
    for n in walk_own(sg.node):
        if isinstance(n, ast.Call) and call_name(n) == "_snap_edge" and len(n.args) >= 3:
            a0, a1 = n.args[0], n.args[1]

            def _shift(a: ast.AST, param: str) -> Optional[str]:
                """name of the offset subtracted from ``param`` before it reaches the snapper"""
                if isinstance(a, ast.BinOp) and isinstance(a.op, ast.Sub) and isinstance(a.right, ast.Name) and short(a.left) == param:
                    return a.right.id
                if isinstance(a, ast.Name) and a.id == param:
                    for x in walk_own(sg.node):
                        if isinstance(x, ast.AugAssign) and isinstance(x.op, ast.Sub) and short(x.target) == param and isinstance(x.value, ast.Name) and x.lineno < n.lineno:
                            return x.value.id
                return None

            o0, o1 = _shift(a0, x0p), _shift(a1, x1p)
            off_nm = o0
            ok = o0 is not None and o0 == o1 and short(n.args[2]) == resp
            out.append(Instance("R-SIGNROLE", f"{sg.qual}#anchor-offset-in", OK if ok else BAD, "anchor offset subtracted from both ends before snapping" if ok else f"`{short(n)}` does not remove one anchor offset from both ends", sg.where(n)))
            if ok:
                st = enclosing_stmt(n)
                tg = st.targets[0] if isinstance(st, ast.Assign) and isinstance(st.targets[0], ast.Tuple) else None
                back = False
                if tg is not None:
                    o_nm = short(tg.elts[0])
                    for r in (x for x in walk_own(sg.node) if isinstance(x, ast.Return) and isinstance(x.value, ast.Tuple)):
                        fe = r.value.elts[0]
                        if isinstance(fe, ast.BinOp) and isinstance(fe.op, ast.Add) and {short(fe.left), short(fe.right)} == {o_nm, off_nm}:
                            back = True
                if not back and tg is None:
                    out.append(Instance("R-SIGNROLE", f"{sg.qual}#anchor-offset-out", UNDET, "the snapped origin is not unpacked from the helper's result into a local (carried in a record): not followed", sg.where(n)))
                    continue
                out.append(Instance("R-SIGNROLE", f"{sg.qual}#anchor-offset-out", OK if back else BAD, "anchor offset added back to the snapped origin" if back else "anchor offset is not added back to the snapped origin", sg.where(n)))
                offd = [x.value for x in walk_own(sg.node) if isinstance(x, ast.Assign) and short(x.targets[0]) == off_nm]
                offx = expand_locals(sg.node, offd[0], keep={offp, resp}) if offd else None  # `pix = abs(res); off = off_pix * pix`
                oku = offx is not None and isinstance(offx, ast.BinOp) and isinstance(offx.op, ast.Mult) and offp in names_in(offx) and any(isinstance(x, ast.Call) and call_name(x) == "abs" and resp in names_in(x) for x in ast.walk(offx))
                out.append(Instance("R-SIGNROLE", f"{sg.qual}#anchor-offset-units", OK if oku else BAD, "anchor fraction converted to CRS units with |res|" if oku else "anchor fraction is not scaled by |res|", sg.where()))
    return out


# ---------------------------------------------------------------------------------------------
# R-EXHAUST / R-IMMUT
# ---------------------------------------------------------------------------------------------


def rule_exhaust(prog: Program) -> List[Instance]:
    out: List[Instance] = []
    # _norm_anchor over the GeoboxAnchor literals
    na = prog.func("geobox:_norm_anchor")
    lits = set()
    ga = prog.module("geobox").assigns.get("GeoboxAnchor")
    if ga:
        for n in ast.walk(ga[-1]):
            if isinstance(n, ast.Subscript) and short(n.value) == "Literal":
                for c in ast.walk(n.slice):
                    if isinstance(c, ast.Constant) and isinstance(c.value, str):
                        lits.add(c.value)
    dicts = [n for n in walk_own(na.node) if isinstance(n, ast.Dict)]
    # the table may be a module-level constant the function indexes
    for n in walk_own(na.node):
        if isinstance(n, ast.Name) and isinstance(n.ctx, ast.Load):
            for v in prog.module("geobox").assigns.get(n.id, []):
                dicts += [d for d in ast.walk(v) if isinstance(d, ast.Dict)]
    handled = {k.value for n in dicts for k in n.keys if isinstance(k, ast.Constant)}
    # string comparisons `anchor == "edge"` / `anchor in ("center", "centre")` handle a literal too
    for n in walk_own(na.node):
        if isinstance(n, ast.Compare):
            handled |= {c.value for x in n.comparators for c in ast.walk(x) if isinstance(c, ast.Constant) and isinstance(c.value, str)}
    if not handled:
        out.append(Instance("R-EXHAUST", f"{na.qual}#anchor-literals", UNDET, "no literal table or comparison found in _norm_anchor", na.where()))
    ok = bool(lits) and lits <= handled
    if handled:
      pass
    if handled:
      out.append(Instance("R-EXHAUST", f"{na.qual}#anchor-literals", OK if ok else BAD, f"every anchor literal {sorted(lits)} is mapped" if ok else f"anchor literals not handled: {sorted(lits - handled)}", na.where()))
    # mapping targets:  center/centre -> CENTER, edge/default -> EDGE, floating -> FLOATING
    for n in walk_own(na.node):
        if isinstance(n, ast.Dict):
            want = {"center": "CENTER", "centre": "CENTER", "edge": "EDGE", "floating": "FLOATING", "default": "EDGE"}
            got = {k.value: short(v).split(".")[-1] for k, v in zip(n.keys, n.values) if isinstance(k, ast.Constant)}
            ok = all(got.get(k) == v for k, v in want.items())
            out.append(Instance("R-EXHAUST", f"{na.qual}#anchor-mapping", OK if ok else BAD, "literal -> AnchorEnum mapping as documented" if ok else f"anchor mapping is {got}", na.where(n)))
    # numeric anchors: 0 -> EDGE, 0.5 -> CENTER
    for n in walk_own(na.node):
        if isinstance(n, ast.If) and isinstance(n.test, ast.Compare) and short(n.test.left) == "anchor" and isinstance(n.test.ops[0], ast.Eq):
            v = const_num(n.test.comparators[0])
            r = short(n.body[0].value).split(".")[-1] if isinstance(n.body[0], ast.Return) else "?"
            ok = (v == 0 and r == "EDGE") or (v == 0.5 and r == "CENTER")
            out.append(Instance("R-EXHAUST", f"{na.qual}#numeric:{v:g}", OK if ok else BAD, f"anchor {v:g} -> {r}" if ok else f"anchor {v:g} mapped to {r}", na.where(n)))
    # from_bbox: EDGE -> (0,0), CENTER -> (0.5,0.5), FLOATING/tight -> None
    fb = prog.func("geobox:GeoBox.from_bbox")
    for n in walk_own(fb.node):
        if isinstance(n, ast.If) and isinstance(n.test, ast.Compare) and "AnchorEnum." in short(n.test):
            which = short(n.test.comparators[0]).split(".")[-1]
            asg = [a for a in n.body if isinstance(a, ast.Assign) and short(a.targets[0]) == "_snap"]
            if asg and isinstance(asg[0].value, ast.Call):
                vals = [const_num(a) for a in asg[0].value.args]
                want = {"EDGE": [0, 0], "CENTER": [0.5, 0.5]}.get(which)
                ok = want is not None and vals == want
                out.append(Instance("R-EXHAUST", f"{fb.qual}#snap:{which}", OK if ok else BAD, f"{which} snaps at pixel fraction {vals}" if ok else f"{which} snaps at {vals}", fb.where(n)))
    # tight=True turns snapping off: somewhere in from_bbox or the private helpers it hands `tight` to, a branch taken when
    # `tight` is true selects the floating anchor (AnchorEnum.FLOATING) or no snap fraction at all (None)
    def _floating(v: Optional[ast.AST]) -> bool:
        return v is not None and ((isinstance(v, ast.Constant) and v.value is None) or short(v).endswith("FLOATING"))

    tight_tests = []
    ok = False
    for g, n in prog.closure_nodes(fb):
        if isinstance(n, ast.If) and "tight" in g.param_names():
            t = n.test
            pos = (isinstance(t, ast.Name) and t.id == "tight") or (isinstance(t, ast.BoolOp) and isinstance(t.op, ast.Or) and any(isinstance(v, ast.Name) and v.id == "tight" for v in t.values))
            if pos:
                tight_tests.append(n)
                pn = parent(n)
                if isinstance(pn, ast.If) and n in pn.orelse:
                    continue  # an `elif`: an earlier arm (an explicit XY anchor ...) pre-empts it, tight does not *force* floating
                for a in n.body:
                    if (isinstance(a, ast.Assign) and _floating(a.value)) or (isinstance(a, ast.Return) and _floating(a.value)):
                        ok = True
    if not tight_tests:
        out.append(Instance("R-EXHAUST", f"{fb.qual}#tight-floating", UNDET, "no branch on `tight` found in from_bbox or its private helpers", fb.where()))
    else:
        out.append(Instance("R-EXHAUST", f"{fb.qual}#tight-floating", OK if ok else BAD, "tight=True turns snapping off" if ok else "tight=True no longer forces the floating anchor", fb.where()))
    # RoiTiles protocol members implemented by both tilings
    proto = prog.cls("roi:RoiTiles")
    members = set(proto.methods)
    for cn in ("roi:Tiles", "roi:VariableSizedTiles"):
        ci = prog.cls(cn)
        miss = sorted(m for m in members if ci.find_method(m) is None)
        out.append(Instance("R-EXHAUST", f"{cn}#RoiTiles-members", BAD if miss else OK, f"missing protocol members {miss}" if miss else f"implements all {len(members)} RoiTiles members", f"{ci.mod.relpath}:{ci.node.lineno}"))
    # CogMeta._pix_shape / _make_empty_cog._sh / block_name total over AxisOrder
    for q in ("cog._shared:CogMeta._pix_shape", "cog._tifffile:_make_empty_cog/_sh"):
        f = prog.maybe_func(q)
        if f is None:
            out.append(Instance("R-EXHAUST", f"{q}#axis-orders", UNDET, "function not found", ""))
            continue
        sp = [p for p in f.param_names() if p != "self"][0]
        cond = Conditions(f.body)
        got = {}
        for r in (n for n in walk_own(f.node) if isinstance(n, ast.Return)):
            axes = [c.value for e, p in conds_at(cond, r) if p and isinstance(e, ast.Compare) and isinstance(e.ops[0], ast.Eq) for c in ast.walk(e) if isinstance(c, ast.Constant) and isinstance(c.value, str)]
            key = axes[-1] if axes else "else"
            v = r.value
            if isinstance(v, ast.Attribute) and short(v.value) == sp:
                got[key] = "plane"
            elif isinstance(v, ast.Tuple) and len(v.elts) == 2:
                a, b = v.elts
                if isinstance(a, ast.Starred) and sp in names_in(a):
                    got[key] = "plane+samples"
                elif isinstance(b, ast.Starred) and sp in names_in(b):
                    got[key] = "samples+plane"
                else:
                    got[key] = "?"
            else:
                got[key] = "?"
        ok = got.get("YX") == "plane" and got.get("YXS") == "plane+samples" and got.get("else", got.get("SYX")) == "samples+plane"
        out.append(Instance("R-EXHAUST", f"{q}#axis-orders", OK if ok else BAD, "YX -> (y,x); YXS -> (y,x,s); otherwise (s,y,x)" if ok else f"axis-order dispatch is {got}", f.where()))
    return out


def rule_immut(prog: Program) -> List[Instance]:
    """_shape/_affine/_crs assigned only in GeoBoxBase.__init__; _extent only in extent."""
    out: List[Instance] = []
    allowed = {"_shape": {"geobox:GeoBoxBase.__init__"}, "_affine": {"geobox:GeoBoxBase.__init__"}, "_crs": {"geobox:GeoBoxBase.__init__"}, "_extent": {"geobox:GeoBoxBase.__init__", "geobox:GeoBoxBase.extent"}}
    seen: Dict[str, Set[str]] = {k: set() for k in allowed}
    for fi in prog.all_functions({"geobox", "gcp"}):
        own = fi.owner_class
        if own is None or not own.is_subclass_of("GeoBoxBase"):
            continue
        me = fi.self_name
        for n in walk_own(fi.node):
            tg: List[ast.AST] = []
            if isinstance(n, ast.Assign):
                tg = list(n.targets)
            elif isinstance(n, (ast.AugAssign, ast.AnnAssign)):
                tg = [n.target]
            for t in tg:
                for x in ast.walk(t):
                    if isinstance(x, ast.Attribute) and isinstance(x.value, ast.Name) and x.value.id == me and x.attr in allowed and isinstance(x.ctx, ast.Store):
                        seen[x.attr].add(fi.qual)
    for fld, where in sorted(seen.items()):
        extra = sorted(where - allowed[fld])
        ok = not extra and bool(where)
        out.append(Instance("R-IMMUT", f"geobox:GeoBoxBase.{fld}#assigned-only-in", OK if ok else BAD,
                            f"{fld} assigned only in {sorted(where)}" if ok else f"{fld} is also assigned in {extra}: the cached footprint / derived views can go stale", "odc/geo/geobox.py"))
    # extent caches what it computes
    ex = prog.func("geobox:GeoBoxBase.extent")
    stores = [n for n in walk_own(ex.node) if isinstance(n, ast.Assign) and short(n.targets[0]) == "self._extent"]
    rets = [n.value for n in walk_own(ex.node) if isinstance(n, ast.Return) and n.value is not None]
    ok = len(stores) == 1 and isinstance(stores[0].value, ast.Name)
    if ok:
        loc = stores[0].value.id
        ok = all(short(r) in ("self._extent", loc) for r in rets) and bool(rets)
    out.append(Instance("R-IMMUT", f"{ex.qual}#cache", OK if ok else BAD, "extent stores and returns the same computed footprint" if ok else "extent cache stores/returns different values", ex.where()))
    return out
