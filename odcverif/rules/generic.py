"""Generic contradiction / slip rules, applied per property to the modules the property is anchored in.

R-DUP     a boolean operator with two structurally identical operands, a comparison of an expression
          with itself, an if/elif chain repeating a test, a conditional expression with identical arms:
          the second copy was meant to look at something else (copy-paste slip), so one case the
          author intended to test is not tested.
R-TRUTHY  a truthiness test (`not x`, `x or default`, `if x:`) on a value whose declared type is an
          optional *number*: zero is a legitimate value of the type and is silently treated like None.
"""
from __future__ import annotations

import ast
from typing import Dict, List, Optional, Set

from ..astutil import call_name
from ..cfg import ReachingDefs
from ..loader import FuncInfo, Program, enclosing_stmt, parent, short, walk_own
from ..report import BAD, INFO, OK, Instance


def _key(e: ast.AST) -> str:
    return ast.dump(e, annotate_fields=False, include_attributes=False)


def _pure(e: ast.AST) -> bool:
    """no call that could have an effect or return something different the second time (next(), pop(), random)"""
    for n in ast.walk(e):
        if isinstance(n, (ast.Await, ast.Yield, ast.YieldFrom, ast.NamedExpr)):
            return False
        if isinstance(n, ast.Call):
            nm = n.func.attr if isinstance(n.func, ast.Attribute) else getattr(n.func, "id", "")
            if nm in ("next", "pop", "popleft", "read", "random", "rand", "uuid4", "time", "get_nowait", "recv"):
                return False
    return True


def rule_dup(prog: Program, modules: Optional[Set[str]] = None) -> List[Instance]:
    out: List[Instance] = []
    for mname in sorted(prog.modules):
        if modules is not None and mname not in modules:
            continue
        n_checked = 0
        bad: List[Instance] = []
        for fi in prog.all_functions({mname}):
            for n in walk_own(fi.node):
                if isinstance(n, ast.BoolOp):
                    n_checked += 1
                    seen: Dict[str, ast.AST] = {}
                    for v in n.values:
                        k = _key(v)
                        if k in seen and _pure(v):
                            bad.append(Instance("R-DUP", f"{fi.qual}#boolop:{short(v, 40)}", BAD,
                                                f"`{short(n, 80)}` tests `{short(v, 40)}` twice: the second operand was meant to test something else, which is now never examined", fi.where(n)))
                        seen[k] = v
                elif isinstance(n, ast.Compare) and len(n.ops) == 1 and not isinstance(n.ops[0], (ast.NotEq, ast.Eq)):
                    # (x == x / x != x are the NaN idiom and left alone)
                    n_checked += 1
                    if _key(n.left) == _key(n.comparators[0]) and _pure(n.left):
                        bad.append(Instance("R-DUP", f"{fi.qual}#compare:{short(n, 40)}", BAD, f"`{short(n, 60)}` compares an expression with itself", fi.where(n)))
                elif isinstance(n, ast.IfExp):
                    n_checked += 1
                    if _key(n.body) == _key(n.orelse):
                        bad.append(Instance("R-DUP", f"{fi.qual}#ifexp:{short(n, 40)}", BAD, f"`{short(n, 60)}` has identical arms: the condition has no effect", fi.where(n)))
                elif isinstance(n, ast.If):
                    # if/elif chain with a repeated test
                    chain = [n]
                    cur = n
                    if isinstance(parent(n), ast.If) and parent(n).orelse == [n]:
                        continue  # handled from the head of the chain
                    while len(cur.orelse) == 1 and isinstance(cur.orelse[0], ast.If):
                        cur = cur.orelse[0]
                        chain.append(cur)
                    if len(chain) > 1:
                        n_checked += 1
                        seen2: Set[str] = set()
                        for c in chain:
                            k = _key(c.test)
                            if k in seen2 and _pure(c.test):
                                bad.append(Instance("R-DUP", f"{fi.qual}#elif:{short(c.test, 40)}", BAD, f"if/elif chain repeats the test `{short(c.test, 60)}`: the later branch is dead", fi.where(c)))
                            seen2.add(k)
        out.extend(bad)
        if n_checked:
            out.append(Instance("R-DUP", f"{mname}#dup-scan", OK if not bad else INFO, f"{n_checked} boolean operators / comparisons / conditional chains scanned for repeated operands", prog.modules[mname].relpath))
    return out


NUMERIC_ANN = {"int", "float", "Nodata", "MaybeInt", "MaybeFloat", "SomeNodata"}


def _optional_numeric(ann: Optional[ast.AST], prog: Program, mi) -> bool:
    """annotation is Optional[number] / Union[number, None] / an alias of those."""
    if ann is None:
        return False
    txt = ast.unparse(ann) if not isinstance(ann, ast.Constant) else str(ann.value)
    txt = txt.replace("typing.", "")
    # resolve module-level aliases one step
    alias = getattr(mi, "aliases", {}).get(txt) if hasattr(mi, "aliases") else None
    if alias:
        txt = alias
    if txt in ("Nodata", "MaybeInt", "MaybeFloat", "MaybeNodata"):
        return True
    import re

    m = re.fullmatch(r"Optional\[(.*)\]", txt)
    inner = None
    if m:
        inner = m.group(1)
    else:
        m = re.fullmatch(r"Union\[(.*), None\]", txt)
        if m:
            inner = m.group(1)
        elif txt.endswith("| None"):
            inner = txt[: -len("| None")].strip()
    if inner is None:
        return False
    parts = [p.strip() for p in re.split(r",|\|", re.sub(r"^Union\[(.*)\]$", r"\1", inner))]
    return bool(parts) and all(p in ("int", "float", "Nodata") for p in parts)


DIVISOR_CALLS = {"align_up", "align_down"}


def _divisor_uses(fi: FuncInfo, name: str) -> List[ast.AST]:
    out: List[ast.AST] = []
    for n in walk_own(fi.node):
        if isinstance(n, ast.BinOp) and isinstance(n.op, (ast.Mod, ast.FloorDiv, ast.Div)) and isinstance(n.right, ast.Name) and n.right.id == name:
            out.append(n)
        if isinstance(n, ast.Call) and (n.func.attr if isinstance(n.func, ast.Attribute) else getattr(n.func, "id", "")) in DIVISOR_CALLS and len(n.args) >= 2 and isinstance(n.args[1], ast.Name) and n.args[1].id == name:
            out.append(n)
    return out


def _used_as_divisor(fi: FuncInfo, name: str) -> bool:
    return bool(_divisor_uses(fi, name))


def rule_zerodiv(prog: Program, modules: Optional[Set[str]] = None) -> List[Instance]:
    """R-ZERODIV: an optional integer parameter used as a divisor / alignment (x % p, x // p, align_up(x, p))
    must be excluded from being zero on the way there, not only from being None: numpy integer `% 0` does
    not raise (it yields 0 with a RuntimeWarning), so align_up(x, 0) silently evaluates to x - 1."""
    from ..cfg import Conditions
    from .guards import conds_at

    out: List[Instance] = []
    for mname in sorted(prog.modules):
        if modules is not None and mname not in modules:
            continue
        mi = prog.modules[mname]
        for fi in prog.all_functions({mname}):
            for p in fi.params():
                if not _optional_numeric(p.annotation, prog, mi):
                    continue
                uses = _divisor_uses(fi, p.arg)
                if not uses:
                    continue
                cond = Conditions(fi.body)
                for u in uses:
                    cs = conds_at(cond, enclosing_stmt(u))
                    nonzero = False
                    for e, pol in cs:
                        if isinstance(e, ast.Name) and e.id == p.arg and pol:
                            nonzero = True
                        if isinstance(e, ast.Compare) and len(e.ops) == 1 and isinstance(e.left, ast.Name) and e.left.id == p.arg:
                            op, c = e.ops[0], e.comparators[0]
                            if isinstance(op, ast.Gt) and pol and isinstance(c, ast.Constant) and c.value == 0:
                                nonzero = True
                            if isinstance(op, ast.NotEq) and pol and isinstance(c, ast.Constant) and c.value == 0:
                                nonzero = True
                            if isinstance(op, ast.In) and not pol and isinstance(c, (ast.Tuple, ast.List, ast.Set)) and any(isinstance(x, ast.Constant) and x.value == 0 and x.value is not False for x in c.elts):
                                nonzero = True
                    out.append(Instance("R-ZERODIV", f"{fi.qual}#{p.arg}:{short(u, 30)}", OK if nonzero else BAD,
                                        f"`{short(u, 40)}` is reached only with {p.arg} non-zero" if nonzero else
                                        f"`{short(u, 40)}` divides/aligns by the optional parameter `{p.arg}`, which is only known not to be None there: {p.arg}=0 does not raise with numpy integers (x % 0 == 0), the result is silently off by one", fi.where(u)))
    return out


def rule_truthy(prog: Program, modules: Optional[Set[str]] = None) -> List[Instance]:
    out: List[Instance] = []
    for mname in sorted(prog.modules):
        if modules is not None and mname not in modules:
            continue
        mi = prog.modules[mname]
        n_params = 0
        bad: List[Instance] = []
        for fi in prog.all_functions({mname}):
            optnum = {p.arg for p in fi.params() if _optional_numeric(p.annotation, prog, mi)}
            if not optnum:
                continue
            n_params += len(optnum)
            rd = ReachingDefs(fi.node)

            def still_param(name: str, at: ast.AST) -> bool:
                st = enclosing_stmt(at)
                try:
                    defs = rd.reaching(st, name)
                except Exception:
                    return False
                return bool(defs) and all(k == "param" for (_n, _s, _v, k) in defs)

            for n in walk_own(fi.node):
                tested: List[ast.AST] = []
                if isinstance(n, ast.UnaryOp) and isinstance(n.op, ast.Not):
                    tested.append(n.operand)
                elif isinstance(n, ast.BoolOp):
                    if isinstance(n.op, ast.Or) and isinstance(n.values[-1], ast.Constant) and n.values[-1].value in (0, 0.0) and n.values[-1].value is not None:
                        continue  # `x or 0`: zero and None both become zero, nothing is lost
                    tested.extend(n.values[:-1] if isinstance(n.op, ast.Or) else n.values)
                elif isinstance(n, (ast.If, ast.While, ast.IfExp)):
                    tested.append(n.test)
                for t in tested:
                    if isinstance(t, ast.Name) and t.id in optnum and _used_as_divisor(fi, t.id):
                        continue  # zero has to be excluded anyway where the value divides / aligns
                    if isinstance(t, ast.Name) and t.id in optnum and still_param(t.id, n):
                        bad.append(Instance("R-TRUTHY", f"{fi.qual}#{t.id}", BAD,
                                            f"`{short(n, 60)}` tests the truth value of `{t.id}`, declared as an optional number: an explicit 0 is treated like None", fi.where(n)))
        # slice bounds are optional integers too: `s.stop or n` reads an explicit stop of 0 (an empty range) as "open"
        for fi in prog.all_functions({mname}):
            for n in walk_own(fi.node):
                if isinstance(n, ast.BoolOp) and isinstance(n.op, ast.Or) and isinstance(n.values[0], ast.Attribute) and n.values[0].attr in ("start", "stop"):
                    last = n.values[-1]
                    if isinstance(last, ast.Constant) and last.value in (0, None):
                        continue
                    bad.append(Instance("R-TRUTHY", f"{fi.qual}#slice-bound:{short(n, 30)}", BAD,
                                        f"`{short(n, 40)}` falls back when the bound is falsy: an explicit {n.values[0].attr} of 0 (s_[0:0], s_[:0] - an empty range) is treated like an open end", fi.where(n)))
        out.extend([b for b in bad if b not in out])
        if n_params:
            out.append(Instance("R-TRUTHY", f"{mname}#truthy-scan", OK if not bad else INFO, f"{n_params} optional-number parameters, none tested by truth value", mi.relpath))
    return out


# ---------------------------------------------------------------------------------------------
# R-KIND: positions and extents along an axis are different kinds of number
# ---------------------------------------------------------------------------------------------
POS_ATTRS = {"start", "stop", "left", "right", "top", "bottom"}
NAME_POS = ("center", "centre", "midpoint")
NAME_LEN = ("span", "shape", "size", "width", "height", "length", "extent_of")


def _kind(e: ast.AST) -> Optional[str]:
    """'P' position, 'PP' sum of two positions, 'L' extent; None unknown."""
    if isinstance(e, ast.Attribute) and e.attr in POS_ATTRS:
        return "P"
    if isinstance(e, ast.BinOp):
        l, r = _kind(e.left), _kind(e.right)
        if isinstance(e.op, ast.Sub):
            if l == "P" and r == "P":
                return "L"
            if l == "P" and r in ("L", None):
                return "P" if r == "L" else None
            if l == "L" and r == "L":
                return "L"
        if isinstance(e.op, ast.Add):
            if l == "P" and r == "P":
                return "PP"
            if {l, r} == {"P", "L"}:
                return "P"
            if l == "L" and r == "L":
                return "L"
        if isinstance(e.op, (ast.Mult, ast.Div, ast.FloorDiv)):
            num = lambda x: isinstance(x, ast.Constant) and isinstance(x.value, (int, float))  # noqa: E731
            if num(e.right) or (isinstance(e.op, ast.Mult) and num(e.left)):
                k = l if num(e.right) else r
                c = e.right.value if num(e.right) else e.left.value
                half = (isinstance(e.op, ast.Mult) and c == 0.5) or (not isinstance(e.op, ast.Mult) and c == 2)
                if k == "PP":
                    return "P" if half else None
                return k
    return None


def rule_kind(prog: Program, modules: Set[str]) -> List[Instance]:
    out: List[Instance] = []
    for fi in prog.all_functions(modules):
        # the name that says what is returned: the function's own, or the enclosing function's for helpers
        names = [fi.name.lower()]
        want = "P" if any(k in names[0] for k in NAME_POS) else "L" if any(names[0].startswith(k) or ("_" + k) in names[0] for k in NAME_LEN) else None
        if want is None:
            continue
        for r in walk_own(fi.node):
            if not (isinstance(r, ast.Return) and r.value is not None):
                continue
            for e in ([r.value] if not isinstance(r.value, ast.Tuple) else r.value.elts):
                k = _kind(e)
                if k is None:
                    continue
                ok = (k == want)
                out.append(Instance("R-KIND", f"{fi.qual}#returns-{'position' if want == 'P' else 'extent'}:{short(e, 30)}", OK if ok else BAD,
                                    f"`{short(e, 50)}` is a {'position' if k == 'P' else 'extent' if k == 'L' else 'sum of positions'}" + ("" if ok else
                                    f", but {fi.name}() returns a {'position (mid-point = half the sum of the two ends)' if want == 'P' else 'extent (difference of the two ends)'}: the value is right only for ranges that start at 0"), fi.where(r)))
    return out


# ---------------------------------------------------------------------------------------------
# R-ABSEPS: the affine library's predicates use an absolute epsilon of 1e-5
# ---------------------------------------------------------------------------------------------
ABS_EPS_PREDICATES = {"is_rectilinear", "is_conformal", "is_orthonormal", "is_degenerate", "is_identity", "almost_equals"}
WORLD_AFFINE_ATTRS = {"_affine", "affine", "transform"}


def rule_abseps(prog: Program, modules: Optional[Set[str]] = None) -> List[Instance]:
    """`Affine.is_rectilinear` & co compare matrix entries with the absolute constant 1e-5. The entries
    of a pixel->world affine are in CRS units per pixel: for geographic grids finer than ~1 m (1e-5
    degrees) every entry is "zero", and is_rectilinear is also true for a 90-degree rotated grid. The
    repository's own predicates (is_affine_st, maybe_zero with relative scale) are the ones to use on
    pixel->world affines; the library predicates are fine on pixel->pixel affines (unit scale)."""
    out: List[Instance] = []
    n_seen = 0
    for fi in prog.all_functions(modules):
        for n in walk_own(fi.node):
            if not (isinstance(n, ast.Attribute) and n.attr in ABS_EPS_PREDICATES):
                continue
            n_seen += 1
            base = n.value
            world = False
            why = "receiver is not a pixel->world affine of a GeoBox"
            if isinstance(base, ast.Attribute) and base.attr in WORLD_AFFINE_ATTRS:
                classes = {c.name for c in prog.receiver_classes(base.value, fi)}
                if classes and "GCPGeoBox" not in classes and classes & {"GeoBox", "GeoBoxBase"}:
                    world = True
                elif not classes:
                    why = "receiver class unknown"
            cid = f"{fi.qual}#abs-eps:{short(n, 40)}"
            if n.attr in ("is_rectilinear", "is_conformal", "is_orthonormal"):
                # whatever the receiver: is_rectilinear is ALSO true for quarter turns (a and e ~ 0), is_conformal /
                # is_orthonormal allow rotations - none of them means "scale and translation only"
                out.append(Instance("R-ABSEPS", cid, BAD,
                                    f"`{short(n, 50)}`: the affine library's {n.attr} is not the repository's 'no rotation / shear' test (is_affine_st): is_rectilinear is true for 90/270 degree turns too, and all three use the absolute epsilon 1e-5", fi.where(n)))
                continue
            if world:
                out.append(Instance("R-ABSEPS", cid, BAD,
                                    f"`{short(n, 50)}` applies the affine library's absolute-epsilon (1e-5) predicate to a pixel->world affine: sub-1e-5-degree grids and 90-degree rotated grids are misclassified", fi.where(n)))
            else:
                out.append(Instance("R-ABSEPS", cid, OK, f"`{short(n, 50)}`: {why}", fi.where(n), nontrivial=False))
    out.append(Instance("R-ABSEPS", "abs-eps-scan", OK, f"{n_seen} uses of absolute-epsilon affine predicates, none on a pixel->world affine", "", nontrivial=False))
    return out


# ---------------------------------------------------------------------------------------------
# R-MEMO: a function-local memo dict inside a loop
# ---------------------------------------------------------------------------------------------
def rule_localmemo(prog: Program, modules: Optional[Set[str]] = None) -> List[Instance]:
    """`v = memo.get(K)` ... `memo[K] = V` inside a loop: the stored value may depend on the loop
    variables only through the names that make up the key K. A value that also depends on a loop
    variable not in the key is served stale to every later iteration that shares the key."""
    from ..astutil import Origins

    out: List[Instance] = []
    n_memo = 0
    for fi in prog.all_functions(modules):
        stores = []
        for n in walk_own(fi.node):
            if isinstance(n, ast.Assign) and len(n.targets) == 1 and isinstance(n.targets[0], ast.Subscript) and isinstance(n.targets[0].value, ast.Name):
                stores.append(n)
        if not stores:
            continue
        gets = {}
        for n in walk_own(fi.node):
            if isinstance(n, ast.Call) and isinstance(n.func, ast.Attribute) and n.func.attr == "get" and isinstance(n.func.value, ast.Name) and n.args:
                gets.setdefault(n.func.value.id, []).append(n)
            if isinstance(n, ast.Compare) and len(n.ops) == 1 and isinstance(n.ops[0], (ast.In, ast.NotIn)) and isinstance(n.comparators[0], ast.Name):
                gets.setdefault(n.comparators[0].id, []).append(n)
        org = None
        for st in stores:
            d = st.targets[0].value.id
            if d not in gets:
                continue
            # enclosing loops
            loops = []
            p = parent(st)
            while p is not None and p is not fi.node:
                if isinstance(p, (ast.For, ast.AsyncFor)):
                    loops.append(p)
                p = parent(p)
            if not loops:
                continue
            # the dict must be created outside the loop (otherwise it is per-iteration scratch)
            loopvars = {t.id for lp in loops for t in ast.walk(lp.target) if isinstance(t, ast.Name)}
            key = st.targets[0].slice
            keynames = {x.id for x in ast.walk(key) if isinstance(x, ast.Name)}
            if not keynames or not any(short(g.args[0] if isinstance(g, ast.Call) else g.left) == short(key) for g in gets[d]):
                continue
            created_inside = any(isinstance(x, ast.Assign) and any(isinstance(t, ast.Name) and t.id == d for t in x.targets) for lp in loops for x in ast.walk(lp))
            if created_inside:
                continue
            n_memo += 1
            if org is None:
                org = Origins(fi)
            # names the key is made of stop the walk; loop-bound names of comprehensions inside V are local
            local = {t.id for c in ast.walk(st.value) if isinstance(c, ast.comprehension) for t in ast.walk(c.target) if isinstance(t, ast.Name)}
            dep = org.deps_names(st.value, set(keynames)) - keynames - local
            stale = sorted(dep & loopvars)
            out.append(Instance("R-MEMO", f"{fi.qual}#memo:{d}[{short(key, 20)}]", BAD if stale else OK,
                                f"`{d}[{short(key, 20)}]` caches a value that also depends on loop variable(s) {stale}, which are not part of the key: later iterations with the same key get the value computed for the first one" if stale
                                else f"memo `{d}` keyed by `{short(key, 20)}`: the stored value depends on the loop only through the key", fi.where(st)))
    out.append(Instance("R-MEMO", "memo-scan", OK, f"{n_memo} loop-local memo dictionaries checked", "", nontrivial=False))
    return out


# ---------------------------------------------------------------------------------------------
# R-REMAINDER: sign-asymmetric remainder / truncation primitives are owned by odc.geo.math
# ---------------------------------------------------------------------------------------------
ASYM_CALLS = {"fmod", "modf", "trunc", "remainder", "divmod"}


def rule_remainder_owner(prog: Program, modules: Optional[Set[str]] = None) -> List[Instance]:
    """math.fmod / math.modf / math.trunc keep the sign of their argument (fmod(-0.3, 1) = -0.3), so a
    "fractional part" taken with them lies in (-1, 1) instead of [-0.5, 0.5) or [0, 1). The repository
    wraps them once, with the sign handling, in odc.geo.math (split_float, split_translation,
    is_almost_int, maybe_int); grid code takes whole/fractional parts only through those helpers."""
    out: List[Instance] = []
    n_seen = 0
    for fi in prog.all_functions(modules):
        if fi.mod.name == "math":
            continue
        for n in walk_own(fi.node):
            if isinstance(n, ast.Call):
                nm = n.func.attr if isinstance(n.func, ast.Attribute) else getattr(n.func, "id", None)
                if nm in ASYM_CALLS:
                    n_seen += 1
                    out.append(Instance("R-REMAINDER", f"{fi.qual}#asym:{short(n, 40)}", BAD,
                                        f"`{short(n, 60)}` takes a sign-preserving remainder/truncation outside odc.geo.math: for negative offsets the fractional part comes out negative instead of wrapping; use split_float / split_translation", fi.where(n)))
    out.append(Instance("R-REMAINDER", "asym-scan", OK, f"{n_seen} sign-preserving remainder calls outside odc.geo.math", "", nontrivial=False))
    return out


# ---------------------------------------------------------------------------------------------
# R-FALLBACK: a fallback value never suppresses the measurement it stands in for
# ---------------------------------------------------------------------------------------------
def rule_fallback(prog: Program, modules: Optional[Set[str]] = None) -> List[Instance]:
    """A parameter named fallback_* stands in when the real value cannot be determined. Where a variable
    is assigned either from the fallback or from a computation on the data, the computation must not be
    conditioned on the fallback (being absent): otherwise merely supplying a fallback overrides what
    the data says."""
    from ..cfg import Conditions
    from .guards import conds_at

    out: List[Instance] = []
    for fi in prog.all_functions(modules):
        fbs = [p for p in fi.param_names() if p.startswith("fallback")]
        if not fbs:
            continue
        cond = None
        for fb in fbs:
            from_fb: Dict[str, ast.AST] = {}
            others: Dict[str, List[ast.AST]] = {}
            for n in walk_own(fi.node):
                if isinstance(n, ast.Assign) and len(n.targets) == 1 and isinstance(n.targets[0], ast.Name):
                    t = n.targets[0].id
                    if isinstance(n.value, ast.Name) and n.value.id == fb:
                        from_fb[t] = n
                    else:
                        others.setdefault(t, []).append(n)
            for t, st in from_fb.items():
                for o in others.get(t, []):
                    if fb in {x.id for x in ast.walk(o.value) if isinstance(x, ast.Name)}:
                        continue
                    if cond is None:
                        cond = Conditions(fi.body)
                    dep = [(e, p) for e, p in conds_at(cond, o) if fb in {x.id for x in ast.walk(e) if isinstance(x, ast.Name)}]
                    out.append(Instance("R-FALLBACK", f"{fi.qual}#{t}<-{fb}", BAD if dep else OK,
                                        f"`{short(o, 50)}` (the value taken from the data) is only reached when `{short(dep[0][0], 40)}` is {dep[0][1]}: supplying {fb} overrides the data" if dep
                                        else f"`{t}` is computed from the data whether or not {fb} is supplied; the fallback applies only where the computation is impossible", fi.where(o)))
    return out


# ---------------------------------------------------------------------------------------------
# R-TOL: math.isclose(a, b, abs_tol=t) is not an absolute tolerance
# ---------------------------------------------------------------------------------------------
def rule_isclose(prog: Program, modules: Optional[Set[str]] = None) -> List[Instance]:
    """`math.isclose(a, b, abs_tol=t)` accepts when |a-b| <= max(rel_tol*max(|a|,|b|), t) with the default
    rel_tol=1e-9: for large magnitudes the relative part dominates and the caller's absolute tolerance is
    silently widened (1e9 + 0.4 is "close" to 1e9). Where the tolerance comes from a parameter - the
    function promises its caller that tolerance - rel_tol must be given explicitly."""
    out: List[Instance] = []
    n_seen = 0
    for fi in prog.all_functions(modules):
        params = set(fi.param_names())
        for n in walk_own(fi.node):
            if not (isinstance(n, ast.Call) and ((isinstance(n.func, ast.Name) and n.func.id == "isclose") or (isinstance(n.func, ast.Attribute) and n.func.attr == "isclose" and isinstance(n.func.value, ast.Name) and n.func.value.id == "math"))):
                continue
            kws = {k.arg: k.value for k in n.keywords}
            if "abs_tol" not in kws:
                continue
            n_seen += 1
            from_param = bool({x.id for x in ast.walk(kws["abs_tol"]) if isinstance(x, ast.Name)} & params)
            ok = "rel_tol" in kws or not from_param
            out.append(Instance("R-TOL", f"{fi.qual}#isclose:{short(n, 40)}", OK if ok else BAD,
                                "relative part of math.isclose given explicitly" if ok else
                                f"`{short(n, 70)}` passes the caller's absolute tolerance as abs_tol but leaves rel_tol at its default 1e-9: for large values the tolerance grows with the magnitude", fi.where(n)))
    out.append(Instance("R-TOL", "isclose-scan", OK, f"{n_seen} math.isclose(abs_tol=...) calls", "", nontrivial=False))
    return out


# ---------------------------------------------------------------------------------------------
# R-SIGNMAG: a signed resolution used as a magnitude
# ---------------------------------------------------------------------------------------------
def rule_signed_magnitude(prog: Program, modules: Optional[Set[str]] = None) -> List[Instance]:
    """Resolution components are signed (negative y for north-up, negative x for mirrored rasters).
    `max(...)` / `min(...)` over them picks by sign, not by size: with both components negative the
    "largest" is negative. A pixel-size *magnitude* (buffer widths, ground sample distance, spans) must
    take abs() before aggregating."""
    out: List[Instance] = []
    for fi in prog.all_functions(modules):
        for n in walk_own(fi.node):
            if not (isinstance(n, ast.Call) and isinstance(n.func, ast.Name) and n.func.id in ("max", "min")):
                continue
            res_args = []
            for a in n.args:
                x = a.value if isinstance(a, ast.Starred) else a
                chain = x
                attrs = []
                while isinstance(chain, (ast.Attribute, ast.Call)):
                    if isinstance(chain, ast.Call):
                        if isinstance(chain.func, ast.Attribute):
                            attrs.append(("call", chain.func.attr, chain))
                            chain = chain.func.value
                        else:
                            break
                    else:
                        attrs.append(("attr", chain.attr, chain))
                        chain = chain.value
                names = [a_[1] for a_ in attrs]
                if "resolution" in names:
                    absd = any(k == "call" and nm == "map" and c.args and short(c.args[0]) == "abs" for k, nm, c in attrs) or (isinstance(x, ast.Call) and call_name(x) == "abs")
                    res_args.append((x, absd))
            if not res_args:
                continue
            bad = [x for x, absd in res_args if not absd]
            out.append(Instance("R-SIGNMAG", f"{fi.qual}#res-magnitude:{short(n, 40)}", BAD if bad else OK,
                                f"`{short(n, 60)}` aggregates signed resolution components: for a raster mirrored in x (both components negative) the result is negative, a width/buffer computed from it has the wrong sign" if bad
                                else f"`{short(n, 60)}` aggregates resolution magnitudes (abs taken first)", fi.where(n)))
    return out


# ---------------------------------------------------------------------------------------------
# R-DENSIFY: a region projected into another CRS in order to cover it must be densified
# ---------------------------------------------------------------------------------------------
DENSIFY_EXEMPT = {
    "geobox:GeoBox.map_bounds": "display helper: three corners for a leaflet map",
    "geom:BoundingBox.map_bounds": "display helper: three corners for a leaflet map",
    "geom:BoundingBox.aoi": "coarse lon/lat area of interest handed to pyproj for choosing a transformation pipeline",
    "overlap:compute_output_geobox": "extent of the single centre pixel, used for a resolution estimate",
    "crs:CRS.utm": "coarse lon/lat box for choosing a UTM zone",
    "crs:crs_units_per_degree": "two-point probe segment a fraction of a degree long",
    "gcp:GCPGeoBox.to_crs": "a multipoint of control points: points have no edges",
    "_xr_interop:rasterize": "burns a polygon into a mask; none of the 20 properties speaks about rasterize (its edge accuracy under reprojection is a separate concern)",
}


def rule_densify(prog: Program, modules: Optional[Set[str]] = None) -> List[Instance]:
    """Edges that are straight in one CRS are curves in another. Code that projects a query region /
    footprint with `to_crs` in order to take its bounding box or to test tiles against it must ask for
    densification (`resolution=`), unless what it projects was densified already (a `footprint(...)`)."""
    out: List[Instance] = []
    for fi in prog.all_functions(modules):
        for n in walk_own(fi.node):
            if not (isinstance(n, ast.Call) and isinstance(n.func, ast.Attribute) and n.func.attr == "to_crs"):
                continue
            recv = n.func.value
            # CRS.to_crs-like things and non-geometry receivers are out: receiver must be a geometry / bounding box
            classes = {c.name for c in prog.receiver_classes(recv, fi)}
            if classes and not (classes & {"Geometry", "BoundingBox"}):
                continue
            cid = f"{fi.qual}#densify:{short(n, 40)}"
            key = next((k for k in DENSIFY_EXEMPT if fi.qual.startswith(k)), None)
            if key is None and (fi.name.startswith("_") and not fi.name.startswith("__")):
                # a private helper split out of an exempt function shares its reason
                sites = prog.callers_of(fi)
                keys = {next((k for k in DENSIFY_EXEMPT if g.qual.startswith(k)), None) for g, _ in sites}
                if sites and None not in keys and len(keys) == 1:
                    key = keys.pop()
            has_res = any(k.arg == "resolution" for k in n.keywords) or len(n.args) >= 2 or any(k.arg is None for k in n.keywords)
            pre = any(isinstance(c, ast.Call) and call_name(c) in ("footprint", "segmented", "densify") for c in ast.walk(recv))
            if not pre:
                # ... or every geometry name the receiver is built from is bound to an already densified outline
                # (fp_src = a.footprint(..); fp_dst = b.footprint(..); (fp_src & fp_dst).to_crs(..))
                rnames = [x.id for x in ast.walk(recv) if isinstance(x, ast.Name)]
                def _dens(nm: str) -> bool:
                    return any(isinstance(x, ast.Assign) and any(isinstance(t, ast.Name) and t.id == nm for t in x.targets) and any(isinstance(c, ast.Call) and call_name(c) in ("footprint", "segmented", "densify") for c in ast.walk(x.value)) for x in walk_own(fi.node))
                gnames = [nm for nm in rnames if nm not in ("self", "cls")]
                pre = bool(gnames) and all(_dens(nm) for nm in gnames)
            pointlike = any(isinstance(c, ast.Attribute) and c.attr in ("centroid",) for c in ast.walk(recv)) or any(isinstance(c, ast.Call) and call_name(c) in ("point", "multipoint") for c in ast.walk(recv))
            if has_res or pre or pointlike:
                out.append(Instance("R-DENSIFY", cid, OK, "densification requested" if has_res else "projects an already densified footprint" if pre else "points have no edges", fi.where(n)))
            elif key is not None:
                out.append(Instance("R-DENSIFY", cid, INFO, f"table: {DENSIFY_EXEMPT[key]}", fi.where(n), nontrivial=False))
            else:
                out.append(Instance("R-DENSIFY", cid, BAD,
                                    f"`{short(n, 60)}` projects a region by its vertices only: edges that are straight in its CRS bulge in the target CRS, so a bounding box / tile test taken from the result misses what lies under the bulge (pass resolution=...)", fi.where(n)))
    return out


# ---------------------------------------------------------------------------------------------
# R-TERMINATION: a while loop that advances by a caller-supplied step
# ---------------------------------------------------------------------------------------------
def rule_termination(prog: Program, modules: Optional[Set[str]] = None) -> List[Instance]:
    """`while a < b: ... a += step` terminates only if step > 0. Where the step comes (directly) from a
    parameter, the loop must be reached only with that parameter known positive - a guard that raises or
    returns otherwise - or the call never returns for step = 0 / negative / NaN."""
    from ..cfg import Conditions
    from .guards import conds_at

    out: List[Instance] = []
    for fi in prog.all_functions(modules):
        params = set(fi.param_names()) | (set(fi.parent.param_names()) if fi.parent else set())
        cond = None
        for n in walk_own(fi.node):
            if not (isinstance(n, ast.While) and isinstance(n.test, ast.Compare) and len(n.test.ops) == 1 and isinstance(n.test.ops[0], (ast.Lt, ast.LtE)) and isinstance(n.test.left, ast.Name)):
                continue
            var = n.test.left.id
            steps = [x for x in ast.walk(n) if isinstance(x, ast.AugAssign) and isinstance(x.op, ast.Add) and isinstance(x.target, ast.Name) and x.target.id == var]
            if len(steps) != 1 or not isinstance(steps[0].value, ast.Name):
                continue
            step = steps[0].value.id
            # the step name is a parameter or a plain copy of one
            src_ = step
            if step not in params:
                defs = [x.value for x in walk_own(fi.node) if isinstance(x, ast.Assign) and any(isinstance(t, ast.Name) and t.id == step for t in x.targets)]
                if len(defs) == 1 and isinstance(defs[0], ast.Name) and defs[0].id in params:
                    src_ = defs[0].id
                else:
                    continue
            cond = cond or Conditions(fi.body)
            positive = False
            for e, pol in conds_at(cond, n):
                if isinstance(e, ast.Compare) and len(e.ops) == 1 and isinstance(e.left, ast.Name) and e.left.id in (step, src_) and isinstance(e.comparators[0], ast.Constant) and e.comparators[0].value == 0:
                    if (isinstance(e.ops[0], ast.Gt) and pol) or (isinstance(e.ops[0], ast.LtE) and not pol):
                        positive = True
            if not positive and src_ in set(fi.param_names()) and (fi.name.startswith("_") or fi.parent is not None):
                # a private helper: the step may be known positive at every call site instead
                sites = prog.callers_of(fi)
                pos_names = [a.arg for a in fi.positional_params()]
                all_ok = bool(sites)
                for g, call in sites:
                    a = next((k.value for k in call.keywords if k.arg == src_), None)
                    if a is None and src_ in pos_names:
                        i = pos_names.index(src_) - (1 if fi.is_method and not fi.is_static and isinstance(call.func, ast.Attribute) else 0)
                        a = call.args[i] if 0 <= i < len(call.args) else None
                    st_ = enclosing_stmt(call)
                    if not isinstance(a, ast.Name) or st_ is None:
                        all_ok = False
                        break
                    gc = Conditions(g.body)
                    if not any(isinstance(e, ast.Compare) and len(e.ops) == 1 and isinstance(e.left, ast.Name) and e.left.id == a.id and isinstance(e.comparators[0], ast.Constant) and e.comparators[0].value == 0
                               and ((isinstance(e.ops[0], ast.Gt) and pol) or (isinstance(e.ops[0], ast.LtE) and not pol)) for e, pol in conds_at(gc, st_)):
                        all_ok = False
                        break
                positive = all_ok
            out.append(Instance("R-TERMINATION", f"{fi.qual}#while:{var}+={step}", OK if positive else BAD,
                                f"loop advancing `{var}` by `{step}` is reached only with {src_} > 0" if positive else
                                f"`while {short(n.test)}` advances by the caller-supplied `{src_}` without that being known positive: {src_} = 0 (or negative, or NaN) never terminates", fi.where(n)))
    return out


# ---------------------------------------------------------------------------------------------
# R-INTIDX: telling an integer index from a slice
# ---------------------------------------------------------------------------------------------
def rule_intidx(prog: Program, modules: Optional[Set[str]] = None) -> List[Instance]:
    """`isinstance(s, int)` is False for numpy integers - which is what np.argwhere, locate() on numpy
    input or a loop over an index array hand over. Where the other branch treats `s` as a slice
    (reads .start / .stop / .step), a numpy integer index lands there and fails with AttributeError.
    The discriminating test must be on the slice (`isinstance(s, slice)`) or cover numpy integers
    (numbers.Integral, np.integer, operator.index)."""
    out: List[Instance] = []
    for fi in prog.all_functions(modules):
        for n in walk_own(fi.node):
            if not isinstance(n, ast.If):
                continue
            t = n.test
            neg = False
            while isinstance(t, ast.UnaryOp) and isinstance(t.op, ast.Not):
                t, neg = t.operand, not neg
            if not (isinstance(t, ast.Call) and call_name(t) == "isinstance" and len(t.args) == 2 and isinstance(t.args[0], ast.Name)):
                continue
            var = t.args[0].id
            ty = t.args[1]
            ty_names = {short(x) for x in (ty.elts if isinstance(ty, ast.Tuple) else [ty])}
            # does the function treat the same variable as a slice anywhere (other branch or later code)?
            as_slice = any(isinstance(x, ast.Attribute) and x.attr in ("start", "stop", "step") and isinstance(x.value, ast.Name) and x.value.id == var for x in walk_own(fi.node)) or \
                any(isinstance(x, ast.Call) and call_name(x) == "isinstance" and len(x.args) == 2 and short(x.args[0]) == var and "slice" in short(x.args[1]) for x in walk_own(fi.node) if x is not t)
            if not as_slice:
                continue
            if ty_names == {"slice"}:
                if not any(i.construct == f"{fi.qual}#int-or-slice:{var}" for i in out):
                    out.append(Instance("R-INTIDX", f"{fi.qual}#int-or-slice:{var}", OK, f"`{var}` is told apart by isinstance({var}, slice): any integer type is an index", fi.where(n)))
                continue
            if "int" in ty_names:
                wide = bool(ty_names & {"numpy.integer", "np.integer", "numbers.Integral", "Integral", "numpy.integer"}) or any("integer" in x or "Integral" in x for x in ty_names)
                out.append(Instance("R-INTIDX", f"{fi.qual}#int-or-slice:{var}", OK if wide else BAD,
                                    f"`{short(t)}` covers numpy integers" if wide else
                                    f"`{short(t)}` tells an index from a slice by the builtin int only: a numpy integer index ({var} = np.int64(3)) is treated as a slice and fails on .start", fi.where(n)))
    return out


# ---------------------------------------------------------------------------------------------
# R-ANNOT: an unconditional assert that contradicts the parameter's own annotation
# ---------------------------------------------------------------------------------------------
def rule_assert_vs_annotation(prog: Program, modules: Optional[Set[str]] = None) -> List[Instance]:
    """A parameter annotated `Union[A, B]` says callers may pass either. An unconditional
    `assert isinstance(p, A)` at the top level of the same function contradicts that: one of the two is
    wrong (Engler's contradiction rule). With B a sibling implementation the rest of the function
    handles, the assert is a left-over that makes every B caller fail with a bare AssertionError."""
    out: List[Instance] = []
    for fi in prog.all_functions(modules):
        anns = {}
        for p in fi.params():
            if p.annotation is None:
                continue
            a = p.annotation
            members = None
            if isinstance(a, ast.Subscript) and short(a.value).split(".")[-1] == "Union":
                el = a.slice.elts if isinstance(a.slice, ast.Tuple) else [a.slice]
                members = {short(e).split(".")[-1].strip('"\'') for e in el}
            elif isinstance(a, ast.BinOp) and isinstance(a.op, ast.BitOr):
                members = set()
                stack = [a]
                while stack:
                    x = stack.pop()
                    if isinstance(x, ast.BinOp) and isinstance(x.op, ast.BitOr):
                        stack += [x.left, x.right]
                    else:
                        members.add(short(x).split(".")[-1].strip('"\''))
            if members and len(members) >= 2 and "None" not in members:
                anns[p.arg] = members
        if not anns:
            continue
        for st in fi.body:
            if not (isinstance(st, ast.Assert) and isinstance(st.test, ast.Call) and call_name(st.test) == "isinstance" and len(st.test.args) == 2 and isinstance(st.test.args[0], ast.Name)):
                continue
            pn = st.test.args[0].id
            if pn not in anns:
                continue
            # the parameter must still hold the argument
            if any(isinstance(x, ast.Assign) and any(isinstance(t, ast.Name) and t.id == pn for t in x.targets) and x.lineno < st.lineno for x in walk_own(fi.node)):
                continue
            ty = st.test.args[1]
            allowed = {short(e).split(".")[-1] for e in (ty.elts if isinstance(ty, ast.Tuple) else [ty])}
            excluded = sorted(m for m in anns[pn] if m not in allowed and m[:1].isupper())
            out.append(Instance("R-ANNOT", f"{fi.qual}#assert:{pn}", BAD if excluded else OK,
                                f"`{short(st, 60)}` rejects {excluded}, which the annotation of `{pn}` ({sorted(anns[pn])}) admits: callers passing it fail with a bare AssertionError (and pass unchecked under python -O)" if excluded
                                else f"`{short(st, 50)}` agrees with the annotation of `{pn}`", fi.where(st)))
    return out


# ---------------------------------------------------------------------------------------------
# R-PRECISION: coordinates generated in single precision
# ---------------------------------------------------------------------------------------------
PRECISION_MODULES = {"roi", "geobox", "overlap", "gcp"}


def rule_precision(prog: Program, modules: Optional[Set[str]] = None) -> List[Instance]:
    """float32 has a 24-bit mantissa: world coordinates of UTM / web-mercator size are rounded to 0.5-2 m,
    pixel coordinates above 2**24 to whole pixels. The planning path (roi, geobox, overlap, gcp) pushes
    such arrays through pix2wld / transformers, which keep the dtype, so sample points generated with
    dtype=float32 move the computed regions by several pixels for fine grids."""
    out: List[Instance] = []
    n_seen = 0
    for fi in prog.all_functions(modules):
        if fi.mod.name not in PRECISION_MODULES:
            continue
        for n in walk_own(fi.node):
            if not (isinstance(n, ast.Call) and call_name(n) in ("linspace", "arange", "asarray", "array", "full", "zeros", "ones", "empty", "astype", "meshgrid")):
                continue
            dt = [k.value for k in n.keywords if k.arg == "dtype"] + ([n.args[0]] if call_name(n) == "astype" and n.args else [])
            for d in dt:
                txt = (d.value if isinstance(d, ast.Constant) and isinstance(d.value, str) else short(d)).split(".")[-1]
                if txt in ("float32", "float16", "single", "half", "f4", "f2"):
                    n_seen += 1
                    out.append(Instance("R-PRECISION", f"{fi.qual}#single:{short(n, 40)}", BAD,
                                        f"`{short(n, 60)}` generates coordinates in {txt}: 24-bit mantissa, world coordinates of UTM size are rounded to 0.5-2 m and the regions derived from them shift by whole pixels on fine grids", fi.where(n)))
    out.append(Instance("R-PRECISION", "single-scan", OK, f"{n_seen} single-precision coordinate arrays on the planning path (roi, geobox, overlap, gcp)", "", nontrivial=False))
    return out


# ---------------------------------------------------------------------------------------------
# R-SHAREDMUT / R-ITERTWICE / R-EPSGPROXY: three more slip classes seen in round 3
# ---------------------------------------------------------------------------------------------
SHAREDMUT_EXEMPT = {
    "cog._s3:_mpu_local_lock": "process-wide lock registry, written with setdefault (checked by R-LOCK LOCKATOMIC)",
}


def _module_mutables(mi) -> Dict[str, int]:
    muts: Dict[str, int] = {}
    for st in mi.tree.body:
        tg = st.targets[0] if isinstance(st, ast.Assign) and len(st.targets) == 1 else st.target if isinstance(st, ast.AnnAssign) and st.value is not None else None
        v = getattr(st, "value", None)
        if isinstance(tg, ast.Name) and (isinstance(v, (ast.Dict, ast.List, ast.Set)) or (isinstance(v, ast.Call) and (getattr(v.func, "id", None) or getattr(v.func, "attr", "")) in ("dict", "list", "set", "defaultdict", "OrderedDict"))):
            muts[tg.id] = st.lineno
    return muts


MUTATORS = {"update", "append", "add", "setdefault", "pop", "clear", "extend", "insert", "remove", "popitem"}


def rule_sharedmut(prog: Program, modules: Optional[Set[str]] = None) -> List[Instance]:
    """A module-level dict/list that a function mutates, aliases-and-returns or fills as an ad-hoc cache is
    state shared between all calls in the process: options of one call leak into the next, a cache entry
    built for one argument is served for another. Accepted: the confirmed registries in the table, and an
    ad-hoc cache whose key covers everything the stored value is computed from."""
    from ..astutil import Origins

    out: List[Instance] = []
    for mname in sorted(prog.modules):
        if modules is not None and mname not in modules:
            continue
        mi = prog.modules[mname]
        muts = _module_mutables(mi)
        if not muts:
            continue
        for fi in prog.all_functions({mname}):
            aliases = {n.targets[0].id: n.value.id for n in walk_own(fi.node) if isinstance(n, ast.Assign) and len(n.targets) == 1 and isinstance(n.targets[0], ast.Name) and isinstance(n.value, ast.Name) and n.value.id in muts}
            names = set(muts) | set(aliases)
            hits = []
            cache_stores = []
            for n in walk_own(fi.node):
                if isinstance(n, ast.Call) and isinstance(n.func, ast.Attribute) and isinstance(n.func.value, ast.Name) and n.func.value.id in names and n.func.attr in MUTATORS:
                    hits.append((n, f".{n.func.attr}()"))
                if isinstance(n, (ast.Assign, ast.AugAssign)):
                    for t in (n.targets if isinstance(n, ast.Assign) else [n.target]):
                        for tt in ([t] + (list(t.elts) if isinstance(t, ast.Tuple) else [])):
                            if isinstance(tt, ast.Subscript) and isinstance(tt.value, ast.Name) and tt.value.id in names:
                                cache_stores.append((n, tt))
                if isinstance(n, ast.Return) and isinstance(n.value, ast.Name) and n.value.id in names:
                    hits.append((n, "returned to the caller"))
            if not hits and not cache_stores:
                continue
            key = next((k for k in SHAREDMUT_EXEMPT if fi.qual.startswith(k)), None)
            if key is not None:
                out.append(Instance("R-SHAREDMUT", f"{fi.qual}#module-state", INFO, f"table: {SHAREDMUT_EXEMPT[key]}", fi.where(), nontrivial=False))
                continue
            for n, how in hits:
                out.append(Instance("R-SHAREDMUT", f"{fi.qual}#module-state:{short(n, 30)}", BAD,
                                    f"`{short(n, 60)}`: a module-level container is {how if how.startswith('returned') else 'mutated with ' + how} inside a function: what one call puts there is seen by every later call in the process", fi.where(n)))
            # ad-hoc cache: D[key] = value - the key must cover what the value is computed from
            if cache_stores and not hits:
                org = Origins(fi)
                params = [p for p in fi.param_names() if p not in ("self", "cls")]
                for n, tt in cache_stores:
                    keyexpr = tt.slice
                    kdefs = [keyexpr] + ([v for _, v in org.defs.get(keyexpr.id, [])] if isinstance(keyexpr, ast.Name) else [])
                    whole = set()      # parameters that appear whole in the key
                    partial_ = set()   # parameters of which only attributes appear
                    for kd in kdefs:
                        for x in ast.walk(kd):
                            if isinstance(x, ast.Name) and x.id in params:
                                par = parent(x)
                                if isinstance(par, ast.Attribute) and par.value is x:
                                    partial_.add(x.id)
                                else:
                                    whole.add(x.id)
                    vnames = set()
                    val = n.value
                    # everything the stored value is computed from, through locals (`tr = make(a, b, flag); D[key] = tr`)
                    for x in org.closure(val):
                        if isinstance(x, ast.Name) and x.id in params:
                            par = parent(x)
                            if not (isinstance(par, ast.Attribute) and par.value is x):
                                vnames.add(x.id)
                    missing = sorted(vnames - whole)
                    out.append(Instance("R-SHAREDMUT", f"{fi.qual}#adhoc-cache:{short(tt, 30)}", BAD if missing else OK,
                                        f"`{short(n, 60)}` caches a value computed from {sorted(vnames)} under a key that holds only selected attributes of {missing}: two arguments that agree on those attributes but differ elsewhere share the entry" if missing
                                        else f"ad-hoc cache key covers every parameter the stored value is computed from ({sorted(vnames)})", fi.where(n)))
    return out


def rule_itertwice(prog: Program, modules: Optional[Set[str]] = None) -> List[Instance]:
    """A parameter annotated Iterable[...] / Iterator[...] may be a generator. Consuming it twice (two loops /
    comprehensions / consuming calls) silently sees nothing the second time: a check done in the second pass
    (CRS agreement after the geometries were already combined) never runs."""
    out: List[Instance] = []
    for fi in prog.all_functions(modules):
        for p in fi.params():
            if p.annotation is None:
                continue
            a = short(p.annotation, 200).replace("typing.", "")
            if not (a.startswith("Iterable[") or a.startswith("Iterator[") or a in ("Iterable", "Iterator")):
                continue
            # rebinding to a list/tuple first makes it safe
            rebound = any(isinstance(n, ast.Assign) and any(isinstance(t, ast.Name) and t.id == p.arg for t in n.targets) for n in walk_own(fi.node))
            uses = []
            for n in ast.walk(fi.node):
                if isinstance(n, ast.Name) and n.id == p.arg and isinstance(n.ctx, ast.Load):
                    par = parent(n)
                    consuming = (isinstance(par, ast.comprehension) and par.iter is n) or (isinstance(par, ast.For) and par.iter is n) or \
                        (isinstance(par, ast.Call) and n in par.args and call_name(par) not in ("isinstance", "len", "iter", "type", "id")) or (isinstance(par, ast.Starred))
                    if consuming:
                        uses.append(n)
            if len(uses) < 2 and not (len(uses) == 1 and False):
                continue
            if rebound:
                continue
            # uses on exclusive branches of one if/else are fine: require two uses neither of which is inside
            # a different arm of the same If
            def arm_path(n):
                path = []
                c, q = n, parent(n)
                while q is not None and q is not fi.node:
                    if isinstance(q, ast.If):
                        path.append((id(q), "body" if any(c is x or any(c is y for y in ast.walk(x)) for x in q.body) else "else"))
                    c, q = q, parent(q)
                return path
            paths = [dict(arm_path(u)) for u in uses]
            exclusive = all(any(k in p2 and p1[k] != p2[k] for k in p1) for i, p1 in enumerate(paths) for p2 in paths[i + 1:])
            if exclusive:
                continue
            out.append(Instance("R-ITERTWICE", f"{fi.qual}#{p.arg}", BAD,
                                f"`{p.arg}` is declared {a.split('[')[0]} but consumed {len(uses)} times ({', '.join(short(parent(u), 30) for u in uses[:3])}): for a generator the later pass sees nothing, so whatever it was meant to check or compute silently does not happen", fi.where(uses[1])))
    out.append(Instance("R-ITERTWICE", "itertwice-scan", OK, "no Iterable/Iterator parameter is consumed twice", "", nontrivial=False))
    return out


def rule_epsg_proxy(prog: Program, modules: Optional[Set[str]] = None) -> List[Instance]:
    """`a.epsg == b.epsg` is not CRS equality: every CRS without an EPSG code has epsg None, so two different
    custom / ESRI / proj-string CRSs compare 'equal' and the re-projection or the mismatch error is skipped."""
    out: List[Instance] = []
    n_seen = 0
    for fi in prog.all_functions(modules):
        if fi.cls is not None and fi.cls.name == "CRS":
            continue  # the CRS class itself may look at its own code
        for n in walk_own(fi.node):
            if isinstance(n, ast.Compare) and len(n.ops) == 1 and isinstance(n.ops[0], (ast.Eq, ast.NotEq)):
                l, r = n.left, n.comparators[0]
                if all(isinstance(x, ast.Attribute) and x.attr in ("epsg", "_epsg") for x in (l, r)):
                    n_seen += 1
                    out.append(Instance("R-EPSGPROXY", f"{fi.qual}#epsg-compare:{short(n, 40)}", BAD,
                                        f"`{short(n, 60)}` compares EPSG codes in place of the CRSs: two different CRSs that both lack a code (None == None) count as the same and the re-projection / mismatch error is skipped", fi.where(n)))
    # a CRS object rebuilt from another CRS' `.epsg`: for anything not given as a code `.epsg` is pyproj's *best guess*
    # (to_epsg() at reduced confidence) - `+proj=utm +zone=55 +south +ellps=GRS80` answers 7855 - so the rebuilt object
    # can be a different CRS
    from ..astutil import Origins

    for fi in prog.all_functions(modules):
        if fi.mod.name == "crs":
            continue
        org = None
        for n in walk_own(fi.node):
            if isinstance(n, ast.Call) and call_name(n) in ("CRS", "norm_crs", "norm_crs_or_error") and n.args:
                if org is None:
                    org = Origins(fi)
                cl = org.closure(n.args[0])
                src = [x for x in cl if isinstance(x, ast.Attribute) and x.attr in ("epsg", "_epsg")]
                if src:
                    n_seen += 1
                    out.append(Instance("R-EPSGPROXY", f"{fi.qual}#epsg-rebuild:{short(n, 40)}", BAD,
                                        f"`{short(n, 60)}` builds a CRS from `{short(src[0])}`: for a CRS that was not given as an EPSG code that attribute is a best-guess match, not its identity - the rebuilt CRS can differ from the original (GRS80 UTM 55S -> EPSG:7855)", fi.where(n)))
    out.append(Instance("R-EPSGPROXY", "epsg-compare-scan", OK, f"{n_seen} comparisons of two .epsg attributes / CRS objects rebuilt from an .epsg outside the CRS class", "", nontrivial=False))
    return out



def rule_rotation_tolerance(prog: Program, modules: Optional[Set[str]] = None) -> List[Instance]:
    """is_affine_st(A, tol) decides 'no rotation / shear' with tol = 1e-10 by default. A call site that passes a
    larger *constant* relaxes it: grids rotated by less than that are treated as axis aligned / scale+translation
    (coordinates without rotation, paste instead of warp)."""
    out: List[Instance] = []
    default = 1e-10
    try:
        f = prog.func("math:is_affine_st")
        for p_, d_ in zip(reversed(f.args.args), reversed(f.args.defaults)):
            if p_.arg == "tol" and isinstance(d_, ast.Constant):
                default = float(d_.value)
    except Exception:
        pass
    for fi in prog.all_functions(modules):
        for n in walk_own(fi.node):
            if isinstance(n, ast.Call) and call_name(n) == "is_affine_st":
                tol = next((k.value for k in n.keywords if k.arg == "tol"), n.args[1] if len(n.args) > 1 else None)
                if tol is None:
                    out.append(Instance("R-ROTTOL", f"{fi.qual}#rot-tol:{short(n, 30)}", OK, "rotation test with its default tolerance", fi.where(n)))
                elif isinstance(tol, ast.Constant) and isinstance(tol.value, (int, float)):
                    loose = float(tol.value) > default * 10
                    out.append(Instance("R-ROTTOL", f"{fi.qual}#rot-tol:{short(n, 30)}", BAD if loose else OK,
                                        f"`{short(n, 50)}` relaxes the rotation/shear tolerance from {default:g} to {tol.value:g}: grids rotated by less than that (res*sin(angle) below it) are treated as axis aligned" if loose
                                        else "rotation test with a tolerance no looser than the default", fi.where(n)))
                else:
                    out.append(Instance("R-ROTTOL", f"{fi.qual}#rot-tol:{short(n, 30)}", INFO, f"tolerance `{short(tol)}` is not a constant", fi.where(n), nontrivial=False))
    return out
