"""R-GUARDSEQ: guard completeness / must-pass-through obligations, one table per clause.

Each obligation names a protected statement (a return value, a call) and the guards that must
hold as *path conditions* on every path reaching it.  Guards are matched structurally on the
parsed condition (callee, which parameter it is applied to, polarity), never on source text.
"""
from __future__ import annotations

import ast
from typing import Callable, Dict, List, Optional, Set, Tuple

from ..astutil import Origins, call_name, const_num, expand_locals, names_in
from ..cfg import Conditions, ReachingDefs
from ..loader import FuncInfo, Program, enclosing_stmt, parent, short, walk_own
from ..report import BAD, INFO, OK, UNDET, Instance

Cond = Tuple[ast.AST, bool]


def conds_at(cond: Conditions, st: ast.AST) -> List[Cond]:
    out: List[Cond] = []
    for k, p in cond.conds_at(st):
        try:
            out.append((ast.parse(k, mode="eval").body, p))
        except SyntaxError:
            pass
    return out


def has_call(e: ast.AST, name: str, arg_pred: Optional[Callable[[ast.Call], bool]] = None) -> bool:
    for n in ast.walk(e):
        if isinstance(n, ast.Call) and call_name(n) == name and (arg_pred is None or arg_pred(n)):
            return True
    return False


def _arg_is(c: ast.Call, idx: int, kw: str, name: str) -> bool:
    a = c.args[idx] if idx < len(c.args) else next((k.value for k in c.keywords if k.arg == kw), None)
    return isinstance(a, ast.Name) and a.id == name


def _ret_true_tuple(r: ast.Return) -> bool:
    v = r.value
    if isinstance(v, ast.Tuple) and v.elts and isinstance(v.elts[0], ast.Constant) and v.elts[0].value is True:
        return True
    return isinstance(v, ast.Constant) and v.value is True


# ---------------------------------------------------------------------------------------------


def _slot_of(fi: FuncInfo, e: ast.AST) -> Optional[int]:
    """Affine slot (0..5 = a b c d e f) an expression names: a local bound by the last six-component unpack, `M.a .. M.f`,
    `M.xoff/.yoff`, or `M[k]`."""
    if isinstance(e, ast.Name):
        last: Dict[str, int] = {}
        for n in walk_own(fi.node):
            if isinstance(n, ast.Assign) and isinstance(n.targets[0], ast.Tuple) and len(n.targets[0].elts) >= 6:
                for i, t in enumerate(n.targets[0].elts[:6]):
                    if isinstance(t, ast.Name):
                        last[t.id] = i
        return last.get(e.id)
    if isinstance(e, ast.Attribute) and e.attr in ("a", "b", "c", "d", "e", "f"):
        return "abcdef".index(e.attr)
    if isinstance(e, ast.Attribute) and e.attr in ("xoff", "yoff"):
        return 2 if e.attr == "xoff" else 5
    if isinstance(e, ast.Subscript) and const_num(e.slice) is not None:
        return int(const_num(e.slice))  # type: ignore[arg-type]
    return None


def _axes_covered(fi: FuncInfo, cs: List[Cond], tol: str, scale: bool) -> Set[int]:
    """Affine slots that the path conditions `cs` bound with tolerance `tol`.
    scale=True : |slot| is within tol of 1  - `abs(abs(s) - 1) > tol` known false / `<= tol` known true, per term or through
                 any()/all() over a tuple of terms.
    scale=False: slot is a near-integer      - `is_almost_int(t, tol)` known true, per term or through all() over a tuple."""
    cov: Set[int] = set()

    def terms_of(gen: ast.AST) -> List[ast.AST]:
        if isinstance(gen, (ast.GeneratorExp, ast.ListComp)) and len(gen.generators) == 1:
            it = gen.generators[0].iter
            if isinstance(it, ast.Name):
                it = expand_locals(fi.node, it, depth=2)  # residual_scales = (M.a, M.e)
            if isinstance(it, (ast.Tuple, ast.List)):
                return list(it.elts)
        return []

    def scale_cmp(c: ast.AST, holds: bool, subjects: List[ast.AST]) -> None:
        # c: Compare  <deviation> OP tol ; it says "within" when (OP in <,<= and holds) or (OP in >,>= and not holds)
        if not (isinstance(c, ast.Compare) and len(c.ops) == 1 and isinstance(c.comparators[0], ast.Name) and c.comparators[0].id == tol and has_call(c.left, "abs")):
            return
        within = (isinstance(c.ops[0], (ast.Lt, ast.LtE)) and holds) or (isinstance(c.ops[0], (ast.Gt, ast.GtE)) and not holds)
        if not within:
            return
        for t in subjects or [x for x in ast.walk(c.left) if isinstance(x, (ast.Name, ast.Attribute, ast.Subscript))]:
            k = _slot_of(fi, t)
            if k is not None:
                cov.add(k)

    for e, p in cs:
        if scale:
            if isinstance(e, ast.Call) and call_name(e) in ("any", "all") and e.args:
                g = e.args[0]
                if isinstance(g, (ast.GeneratorExp, ast.ListComp)):
                    # not any(dev > tol ...)  /  all(dev <= tol ...)
                    holds_each = (call_name(e) == "all" and p) or (call_name(e) == "any" and not p)
                    if holds_each or (call_name(e) == "any" and not p):
                        scale_cmp(g.elt, call_name(e) == "all", terms_of(g))
            else:
                scale_cmp(e, p, [])
        else:
            if p and isinstance(e, ast.Call) and call_name(e) == "is_almost_int" and _arg_is(e, 1, "tol", tol):
                k = _slot_of(fi, e.args[0])
                if k is not None:
                    cov.add(k)
            if p and isinstance(e, ast.Call) and call_name(e) == "all" and e.args and isinstance(e.args[0], (ast.GeneratorExp, ast.ListComp)):
                g = e.args[0]
                if isinstance(g.elt, ast.Call) and call_name(g.elt) == "is_almost_int" and _arg_is(g.elt, 1, "tol", tol):
                    for t in terms_of(g):
                        k = _slot_of(fi, t)
                        if k is not None:
                            cov.add(k)
    return cov


def _linear_known(fi: FuncInfo, e: ast.AST, p: bool) -> bool:
    """Path condition (e has truth value p) that says the pixel transform is linear: `tr.linear is not None` true,
    `tr.linear is None` false - also through a local that holds that test (`is_linear = tr.linear is not None`)."""
    if isinstance(e, ast.Name):
        e = expand_locals(fi.node, e, depth=2)
    return isinstance(e, ast.Compare) and "linear" in short(e) and ((isinstance(e.ops[0], ast.Is) and not p) or (isinstance(e.ops[0], ast.IsNot) and p))


def paste_eligibility(prog: Program) -> List[Instance]:
    """C10: paste is reported only behind all four eligibility guards and only on the linear branch."""
    out: List[Instance] = []
    cp = prog.func("overlap:_can_paste")
    cond = Conditions(cp.body)
    pp = cp.param_names()
    A = pp[0]
    trues = [n for n in walk_own(cp.node) if isinstance(n, ast.Return) and _ret_true_tuple(n)]
    if not trues:
        out.append(Instance("R-GUARDSEQ", f"{cp.qual}#paste:true-return", UNDET, "no `return True, ...` found", cp.where()))
    for r in trues:
        cs = conds_at(cond, r)
        guards = {
            "scale-translation-only": any(p and has_call(e, "is_affine_st", lambda c: _arg_is(c, 0, "A", A)) and not isinstance(e, ast.BoolOp) for e, p in cs),
            "near-integer-scale": any(p and isinstance(e, ast.Call) and call_name(e) == "is_almost_int" and _arg_is(e, 1, "tol", "stol") for e, p in cs),
            "unit-scale-after-shrink": {0, 4} <= _axes_covered(cp, cs, "stol", scale=True),
            "whole-pixel-translation": {2, 5} <= _axes_covered(cp, cs, "ttol", scale=False),
        }
        for g, ok in guards.items():
            out.append(Instance("R-GUARDSEQ", f"{cp.qual}#paste:{g}", OK if ok else BAD,
                                f"`{short(r)}` is only reached with guard {g}" if ok else
                                f"`{short(r)}` can be reached without the {g} guard: paste would be reported for a transform that is not a whole-pixel shift with integer scale",
                                cp.where(r), path=[f"path conditions at return: {[short(e, 60) + '=' + str(p) for e, p in cs]}"] if not ok else []))
    # the rotation/shear guard must use its own (tight) tolerance, not one of the paste tolerances
    for n in walk_own(cp.node):
        if isinstance(n, ast.Call) and call_name(n) == "is_affine_st":
            extra_args = list(n.args[1:]) + [k.value for k in n.keywords]
            weak = [short(a) for a in extra_args if names_in(a) & set(pp)]
            out.append(Instance("R-GUARDSEQ", f"{cp.qual}#paste:rotation-tolerance", BAD if weak else OK,
                                f"`{short(n)}` relaxes the rotation/shear test to {weak}: slightly rotated grids are reported paste-able" if weak else "rotation/shear test keeps its own tolerance", cp.where(n)))
    # the unit-scale guard must test both axes and use abs(abs(s) - 1) > stol
    for n in walk_own(cp.node):
        if isinstance(n, ast.If) and isinstance(n.test, ast.Call) and call_name(n.test) == "any" and "stol" in names_in(n.test):
            gen = n.test.args[0] if n.test.args else None
            it_ = expand_locals(cp.node, gen.generators[0].iter, depth=2) if isinstance(gen, ast.GeneratorExp) else None
            both = isinstance(gen, ast.GeneratorExp) and isinstance(it_, (ast.Tuple, ast.List)) and {_slot_of(cp, x) for x in it_.elts} == {0, 4}
            cmp_ok = isinstance(gen, ast.GeneratorExp) and isinstance(gen.elt, ast.Compare) and isinstance(gen.elt.ops[0], (ast.Gt, ast.GtE)) and short(gen.elt.comparators[0]) == "stol"
            out.append(Instance("R-GUARDSEQ", f"{cp.qual}#paste:unit-scale-both-axes", OK if both and cmp_ok else BAD,
                                "unit-scale test covers sx and sy against stol" if both and cmp_ok else f"`{short(n.test)}` does not test both axes against stol", cp.where(n)))

    # compute_reproject_roi: definitions of paste_ok
    crr = prog.func("overlap:compute_reproject_roi")
    rd = ReachingDefs(crr.node)
    cond2 = Conditions(crr.body)
    rets = [n for n in walk_own(crr.node) if isinstance(n, ast.Return) and isinstance(n.value, ast.Call) and call_name(n.value) == "ReprojectInfo"]
    if len(rets) < 2:
        out.append(Instance("R-GUARDSEQ", f"{crr.qual}#paste:results", UNDET, f"expected two ReprojectInfo results, found {len(rets)}", crr.where()))
    for r in rets:
        pv = next((k.value for k in r.value.keywords if k.arg == "paste_ok"), None)
        linear = any(_linear_known(crr, e, p) for e, p in conds_at(cond2, r))
        branch = "linear" if linear else "nonlinear"
        cid = f"{crr.qual}#paste:result:{branch}"
        if pv is None:
            out.append(Instance("R-GUARDSEQ", cid, UNDET, "paste_ok keyword missing", crr.where(r)))
            continue
        if not linear:
            ok = isinstance(pv, ast.Constant) and pv.value is False
            if not ok and isinstance(pv, ast.Name):
                # one shared return for both branches: every definition reaching it on this path must be False
                dd = rd.reaching(r, pv.id)
                if dd and len(rets) == 1:
                    out.append(Instance("R-GUARDSEQ", cid, UNDET, "both branches share one ReprojectInfo(...) return: the cross-CRS value of paste_ok is not separated by path here", crr.where(r)))
                    continue
            out.append(Instance("R-GUARDSEQ", cid, OK if ok else BAD,
                                "cross-CRS branch always reports paste_ok=False" if ok else f"cross-CRS branch reports paste_ok=`{short(pv)}`", crr.where(r)))
            continue
        if not isinstance(pv, ast.Name):
            out.append(Instance("R-GUARDSEQ", cid, BAD if isinstance(pv, ast.Constant) and pv.value is True else UNDET, f"paste_ok=`{short(pv)}`", crr.where(r)))
            continue
        defs = rd.reaching(r, pv.id)
        bad = []
        n_cp = 0
        def verdict_call(val: ast.AST, kind: str, st: Optional[ast.AST]) -> bool:
            """val is `_can_paste(...)` taken at element 0 (by unpacking or by `[0]`), on the same-CRS branch, tolerances wired."""
            nonlocal n_cp
            call = val
            first = kind.startswith("unpack[0/")
            if isinstance(val, ast.Subscript) and const_num(val.slice) == 0:
                call, first = val.value, True
            if isinstance(val, ast.Attribute) and val.attr in ("ok", "paste_ok", "can_paste") and isinstance(val.value, ast.Call):
                call, first = val.value, True  # the verdict as a named field of the result record
            if not (isinstance(call, ast.Call) and cp in prog.resolve_call(call, crr)):
                return False
            n_cp += 1
            if not first:
                bad.append(f"{short(st)} (takes the wrong element of _can_paste's result)")
            cs = conds_at(cond2, st) if st is not None else []
            lin = any(_linear_known(crr, e, p) for e, p in cs)
            if not lin:
                bad.append(f"{short(st)} (not restricted to the same-CRS branch)")
            splat = [k.value for k in call.keywords if k.arg is None]
            for kw in ("ttol", "stol"):
                kv = next((k.value for k in call.keywords if k.arg == kw), None)
                if kv is None and splat:
                    # **tols: followed one step - a dict literal / dict(...) that maps the name to the parameter of that name
                    via = False
                    for sp in splat:
                        spx = expand_locals(crr.node, sp, depth=2)
                        if isinstance(spx, ast.Dict):
                            via = via or any(isinstance(k_, ast.Constant) and k_.value == kw and isinstance(v_, ast.Name) and v_.id == kw for k_, v_ in zip(spx.keys, spx.values))
                        elif isinstance(spx, ast.Call) and call_name(spx) == "dict":
                            via = via or any(k_.arg == kw and isinstance(k_.value, ast.Name) and k_.value.id == kw for k_ in spx.keywords)
                        else:
                            via = True  # an options object this clause does not read
                    if via:
                        continue
                if not (isinstance(kv, ast.Name) and kv.id == kw):
                    bad.append(f"{short(call)} ({kw} not forwarded as {kw})")
            return True

        for name, st, val, kind in defs:
            if isinstance(val, ast.Constant) and val.value is False:
                continue
            if verdict_call(val, kind, st):
                continue
            # `tight_ok and _can_paste(...)[0]`: a conjunction can only narrow the verdict
            if isinstance(val, ast.BoolOp) and isinstance(val.op, ast.And) and any(verdict_call(v, "", st) for v in val.values):
                continue
            bad.append(short(st) if st is not None else f"{name}:{kind}")
        ok = not bad and n_cp >= 1
        out.append(Instance("R-GUARDSEQ", cid, OK if ok else BAD,
                            "paste_ok reaching the result is either False or the verdict of _can_paste(A, ttol, stol) on the same-CRS branch" if ok
                            else f"paste_ok reaching the result has other definitions: {bad or 'no _can_paste call'}", crr.where(r)))
    # tight_ok definition
    for n in walk_own(crr.node):
        if isinstance(n, ast.Assign) and any(isinstance(t, ast.Name) and t.id == "tight_ok" for t in n.targets):
            v = n.value
            ok = isinstance(v, ast.BoolOp) and isinstance(v.op, ast.And) and {"align", "padding"} <= names_in(v)
            out.append(Instance("R-GUARDSEQ", f"{crr.qual}#paste:tight_ok", OK if ok else BAD,
                                "exact paste only when neither padding nor alignment was requested" if ok else f"`{short(n)}` no longer requires both align and padding to be unset", crr.where(n)))
    # shrink>1: source region is overview region scaled by the same read_shrink used for zoom and snapping
    rs_name = None
    for r in rets:
        kv = next((k.value for k in r.value.keywords if k.arg == "read_shrink"), None)
        if isinstance(kv, ast.Name):
            rs_name = kv.id
    rs_uses = []
    clamped = None
    split_out = False
    for g, n in prog.closure_nodes(crr):
        if isinstance(n, ast.Call) and call_name(n) in ("zoom_out", "compute_zoom_out", "scaled_down_shape", "scaled_up_roi", "scale"):
            # in a helper the factor arrives as a parameter: the one the caller binds the reported read_shrink to
            nm_here = rs_name
            if g is not crr and rs_name is not None:
                nm_here = None
                for cs_g, call_g in prog.callers_of(g):
                    if cs_g is crr:
                        pos = [a.arg for a in g.positional_params()]
                        for i, a in enumerate(call_g.args):
                            if isinstance(a, ast.Name) and a.id == rs_name and i < len(pos):
                                nm_here = pos[i]
                        for k in call_g.keywords:
                            if isinstance(k.value, ast.Name) and k.value.id == rs_name and k.arg:
                                nm_here = k.arg
                split_out = True
            if nm_here is not None and nm_here in names_in(n):
                rs_uses.append("overview" if call_name(n) in ("zoom_out", "compute_zoom_out", "scaled_down_shape") else call_name(n))
                if call_name(n) in ("zoom_out", "compute_zoom_out"):
                    clamped = n
    ok = {"overview", "scaled_up_roi", "scale"} <= set(rs_uses)
    # the overview of an empty source is empty: zoom_out()/compute_zoom_out() never return less than 1x1 (F61)
    out.append(Instance("R-GUARDSEQ", f"{crr.qual}#paste:overview-of-empty", BAD if clamped is not None else OK,
                        f"`{short(clamped)}`: the overview shape comes from zoom_out, which is at least 1x1 - an empty source gets non-empty planned regions" if clamped is not None
                        else "overview shape for the shrink>1 paste maps 0 -> 0 (scaled_down_shape)", crr.where(clamped) if clamped is not None else crr.where()))
    if not rs_uses:
        out.append(Instance("R-GUARDSEQ", f"{crr.qual}#paste:one-shrink-factor", UNDET, "no overview / scale / scale-up call using the reported read_shrink found in compute_reproject_roi or its private helpers", crr.where()))
        return out
    out.append(Instance("R-GUARDSEQ", f"{crr.qual}#paste:one-shrink-factor", OK if ok else BAD,
                        "the reported read_shrink is the factor used by zoom_out, Affine.scale(1/.) and scaled_up_roi" if ok else f"the reported read_shrink is not the one factor used for overview geobox, affine and region scale-up (used by: {rs_uses})", crr.where()))
    return out


def grid_compat(prog: Program) -> List[Instance]:
    """C16: incompatible grids are always rejected before any grid arithmetic."""
    out: List[Instance] = []
    pt = prog.func("geobox:pixel_translation")
    cond = Conditions(pt.body)
    rets = [n for n in walk_own(pt.node) if isinstance(n, ast.Return)]
    for r in rets:
        cs = conds_at(cond, r)
        iso = [e for e, p in cs if (not p) is False and False]  # placeholder
        # the four isclose tests hold (true) at the return; a term of the linear part is named by its slot, however it is
        # spelled: a name bound by the six-component unpack, `M.a/.b/.d/.e`, or `M[k]`
        slots = _affine_unpack_slots(pt)

        def _slot(e: ast.AST) -> Optional[int]:
            if isinstance(e, ast.Name):
                return slots.get(e.id)
            if isinstance(e, ast.Attribute) and e.attr in ("a", "b", "c", "d", "e", "f"):
                return "abcdef".index(e.attr)
            if isinstance(e, ast.Subscript) and const_num(e.slice) is not None:
                return int(const_num(e.slice))  # type: ignore[arg-type]
            return None

        closes = set()
        shown = []
        for e, p in cs:
            if p and isinstance(e, ast.Call) and call_name(e) == "isclose" and len(e.args) >= 2:
                closes.add((_slot(e.args[0]), const_num(e.args[1])))
                shown.append((short(e.args[0]), const_num(e.args[1])))
        need = {(0, 1), (4, 1), (1, 0), (3, 0)}
        ok = need <= closes
        other_guard = any(
            isinstance(n, ast.If) and any(isinstance(x, ast.Raise) for x in ast.walk(n)) and not has_call(n.test, "isclose")
            and any(isinstance(x, ast.Call) and call_name(x) in ("is_affine_st", "allclose", "all", "any", "almost_equals") for x in ast.walk(n.test))
            for n in walk_own(pt.node)
        )
        if not ok and not closes and other_guard:
            out.append(Instance("R-GUARDSEQ", f"{pt.qual}#grid:isclose-guard", UNDET, "grid compatibility is tested in a form this clause does not read (no numpy.isclose path conditions)", pt.where(r)))
            continue
        out.append(Instance("R-GUARDSEQ", f"{pt.qual}#grid:isclose-guard", OK if ok else BAD,
                            f"translation is returned only when scale==1 and shear==0 on both axes ({sorted(shown)})" if ok
                            else f"translation can be returned although the pixel-to-pixel transform is not a pure translation: need slots {sorted(need)}, guarded {sorted(shown)}", pt.where(r)))
    # the failing side raises ValueError
    for n in walk_own(pt.node):
        if isinstance(n, ast.If) and has_call(n.test, "isclose"):
            rs = [s for s in n.body if isinstance(s, ast.Raise)]
            ok = bool(rs) and "ValueError" in short(rs[0].exc)
            out.append(Instance("R-GUARDSEQ", f"{pt.qual}#grid:raises", OK if ok else BAD,
                                "incompatible grids raise ValueError" if ok else "incompatible grids no longer raise ValueError", pt.where(n)))
    # direction of the pixel-to-pixel transform: ~b.affine * a.affine
    for n in walk_own(pt.node):
        if isinstance(n, ast.BinOp) and isinstance(n.op, ast.Mult) and isinstance(n.left, ast.UnaryOp) and isinstance(n.left.op, ast.Invert):
            pp = pt.param_names()
            ok = names_in(n.left) == {pp[1]} and names_in(n.right) == {pp[0]}
            out.append(Instance("R-GUARDSEQ", f"{pt.qual}#grid:direction", OK if ok else BAD,
                                f"pixel translation {pp[0]}->{pp[1]} computed as ~{pp[1]}.affine * {pp[0]}.affine" if ok else f"`{short(n)}` computes the translation in the wrong direction", pt.where(n)))

    bb = prog.func("geobox:bounding_box_in_pixel_domain")
    cond = Conditions(bb.body)
    rounds = [n for n in walk_own(bb.node) if isinstance(n, ast.Call) and call_name(n) == "round"]
    if not rounds:
        out.append(Instance("R-GUARDSEQ", f"{bb.qual}#grid:round", INFO, "no round() of the translation any more", bb.where(), nontrivial=False))
    for n in rounds:
        st = enclosing_stmt(n)
        cs = conds_at(cond, st)
        arg = short(n.args[0]) if n.args else "?"
        org_bb = Origins(bb)

        def _tol_from_param(c: ast.Call) -> bool:
            """The tolerance handed to is_almost_int is the `tol` parameter, or is derived from it and only widened
            by a floating-point-spacing term (k * ulp(..) / ..): no fixed fraction of a pixel is let in."""
            a = c.args[1] if len(c.args) > 1 else next((k.value for k in c.keywords if k.arg == "tol"), None)
            if a is None:
                return False
            if isinstance(a, ast.Name) and a.id == "tol":
                return True
            cl = org_bb.closure(a)
            if not any(isinstance(x, ast.Name) and x.id == "tol" for x in cl):
                return False
            for x in cl:
                if isinstance(x, ast.Constant) and isinstance(x.value, (int, float)) and not isinstance(x.value, bool) and abs(x.value) >= 1e-3:
                    # only as a factor of an ulp()/spacing()/finfo().eps term, or as an index
                    q, spacing = x, False
                    while q is not None and not isinstance(q, ast.stmt):
                        if isinstance(q, ast.Subscript) and q.slice is x:
                            spacing = True
                        if isinstance(q, ast.BinOp) and isinstance(q.op, (ast.Mult, ast.Div)) and any(isinstance(y, ast.Call) and call_name(y) in ("ulp", "spacing", "nextafter") or (isinstance(y, ast.Attribute) and y.attr == "eps") for y in ast.walk(q)):
                            spacing = True
                        q = parent(q)
                    if not spacing and x.value != 0:
                        return False
            return True

        ok = any(p and has_call(e, "is_almost_int", lambda c: c.args and short(c.args[0]) == arg and _tol_from_param(c)) for e, p in cs)
        out.append(Instance("R-GUARDSEQ", f"{bb.qual}#grid:round:{arg}", OK if ok else BAD,
                            f"round({arg}) only after is_almost_int({arg}, tol) held" if ok else f"round({arg}) without the near-integer guard on {arg}: sub-pixel shifted grids are silently snapped", bb.where(n)))
    # a value accepted as near-integer must be converted with round(), not truncated
    for n in walk_own(bb.node):
        if isinstance(n, ast.Call) and isinstance(n.func, ast.Name) and n.func.id == "int" and len(n.args) == 1 and isinstance(n.args[0], ast.Name):
            st = enclosing_stmt(n)
            arg = n.args[0].id
            if any(p and has_call(e, "is_almost_int", lambda c: c.args and short(c.args[0]) == arg) for e, p in conds_at(cond, st)):
                out.append(Instance("R-GUARDSEQ", f"{bb.qual}#grid:trunc:{arg}", BAD,
                                    f"`{short(n)}` truncates a value that was only checked to be *near* an integer: 27.999999999999996 becomes 27, the box is one pixel off", bb.where(n)))
    # result box: (a, b, a + w, b + h) - the far corner is the near corner plus the shape
    for r in (n for n in walk_own(bb.node) if isinstance(n, ast.Return) and isinstance(n.value, ast.Call) and call_name(n.value) == "BoundingBox"):
        a = r.value.args[:4]
        ok = len(a) == 4 and all(isinstance(x, ast.Name) for x in a[:2])
        if ok:
            for near, far in ((a[0], a[2]), (a[1], a[3])):
                ok = ok and isinstance(far, ast.BinOp) and isinstance(far.op, ast.Add) and near.id in {short(far.left), short(far.right)}
            ok = ok and a[0].id != a[1].id
        out.append(Instance("R-GUARDSEQ", f"{bb.qual}#grid:box", OK if ok else BAD,
                            "pixel-domain box is (tx, ty, tx + width, ty + height)" if ok else f"pixel-domain box `{short(r.value)}` is not (near corner, near corner + shape)", bb.where(r)))
    return out


def _slot_names(fi: FuncInfo, slots: Tuple[int, ...]) -> Set[str]:
    """Names bound to the given Affine slots by the *last* six-component unpack in the function."""
    last: Dict[int, str] = {}
    for n in walk_own(fi.node):
        if isinstance(n, ast.Assign) and isinstance(n.targets[0], ast.Tuple) and len(n.targets[0].elts) >= 6:
            for i, e in enumerate(n.targets[0].elts[:6]):
                if isinstance(e, ast.Name):
                    last[i] = e.id
    return {last[i] for i in slots if i in last}


def _affine_unpack_slots(fi: FuncInfo) -> Dict[str, int]:
    """names bound by  a, b, c, d, e, f, *_ = <affine expr>  -> slot index."""
    for n in walk_own(fi.node):
        if isinstance(n, ast.Assign) and isinstance(n.targets[0], ast.Tuple) and len(n.targets[0].elts) >= 6:
            out = {}
            for i, e in enumerate(n.targets[0].elts[:6]):
                if isinstance(e, ast.Name):
                    out[e.id] = i
            return out
    return {}


def to_crs_preconditions(prog: Program) -> List[Instance]:
    """C07: same-CRS returns the receiver itself, CRS-less raises, both before any transform."""
    out: List[Instance] = []
    f = prog.func("geom:Geometry.to_crs")
    me = f.self_name or "self"
    cond = Conditions(f.body)
    # protected statements: every call to _to_crs / segmented / chop / clip
    prot = [n for n in walk_own(f.node) if isinstance(n, ast.Call) and call_name(n) in ("_to_crs", "segmented", "chop_along_antimeridian")]
    if not prot:
        out.append(Instance("R-GUARDSEQ", f"{f.qual}#to_crs:protected", UNDET, "no _to_crs/segmented call found", f.where()))
    same_ret = None
    for n in walk_own(f.node):
        if isinstance(n, ast.If) and isinstance(n.test, ast.Compare) and isinstance(n.test.ops[0], ast.Eq) and "crs" in short(n.test).lower():
            if len(n.body) == 1 and isinstance(n.body[0], ast.Return):
                same_ret = n
    if same_ret is None:
        out.append(Instance("R-GUARDSEQ", f"{f.qual}#to_crs:same-crs-identity", BAD, "no `if self.crs == crs: return self` short-circuit: same-CRS conversion no longer returns the input unchanged", f.where()))
    else:
        rv = same_ret.body[0].value
        ok = isinstance(rv, ast.Name) and rv.id == me
        sides = {short(same_ret.test.left), short(same_ret.test.comparators[0])}
        ok2 = f"{me}.crs" in sides and len(sides) == 2
        out.append(Instance("R-GUARDSEQ", f"{f.qual}#to_crs:same-crs-identity", OK if ok and ok2 else BAD,
                            "same CRS returns the receiver itself" if ok and ok2 else f"same-CRS short-circuit returns `{short(rv)}` under `{short(same_ret.test)}`", f.where(same_ret)))
    for k, n in enumerate(prot):
        st = enclosing_stmt(n)
        cs = conds_at(cond, st)
        none_guard = any(isinstance(e, ast.Compare) and isinstance(e.ops[0], (ast.Is, ast.IsNot)) and short(e.left) == f"{me}.crs" and ((isinstance(e.ops[0], ast.Is) and not p) or (isinstance(e.ops[0], ast.IsNot) and p)) for e, p in cs)
        out.append(Instance("R-GUARDSEQ", f"{f.qual}#to_crs:crs-less-raises:{call_name(n)}:{k}", OK if none_guard else BAD,
                            f"`{short(n, 50)}` only with self.crs is not None" if none_guard else f"`{short(n, 50)}` reachable for a geometry without CRS", f.where(n)))
    for n in walk_own(f.node):
        if isinstance(n, ast.If) and isinstance(n.test, ast.Compare) and isinstance(n.test.ops[0], ast.Is) and short(n.test.left) == f"{me}.crs":
            rs = [s for s in n.body if isinstance(s, ast.Raise)]
            ok = bool(rs) and "ValueError" in short(rs[0].exc)
            out.append(Instance("R-GUARDSEQ", f"{f.qual}#to_crs:crs-less-valueerror", OK if ok else BAD, "CRS-less geometry raises ValueError" if ok else "CRS-less branch does not raise ValueError", f.where(n)))
    # densification happens before projection and on the receiver; result of segmented is what gets projected
    seg_defs = [n for n in walk_own(f.node) if isinstance(n, ast.Assign) and isinstance(n.value, ast.Call) and call_name(n.value) == "segmented"]
    if seg_defs:
        tgt = seg_defs[0].targets[0]
        tname = tgt.id if isinstance(tgt, ast.Name) else None
        used = [n for n in walk_own(f.node) if isinstance(n, ast.Call) and call_name(n) in ("_to_crs", "chop_along_antimeridian")]
        ok = all((isinstance(u.func, ast.Attribute) and tname in names_in(u.func.value)) or any(tname in names_in(a) for a in u.args) or (isinstance(u.func, ast.Attribute) and isinstance(u.func.value, ast.Name) and u.func.value.id == "chopped") for u in used)
        res_arg = seg_defs[0].value.args[0] if seg_defs[0].value.args else None
        ok = ok and isinstance(res_arg, ast.Name) and res_arg.id == "resolution"
        out.append(Instance("R-GUARDSEQ", f"{f.qual}#to_crs:densified-geometry-projected", OK if ok else BAD,
                            "the densified geometry (segmented(resolution)) is what gets projected" if ok else "projection does not use the densified geometry or densifies with another value", f.where(seg_defs[0])))
    return out


def finite_filter(prog: Program) -> List[Instance]:
    """C17/C03: roi_from_points filters non-finite points and handles the empty case before min/max."""
    from .axis import AxisTyper, Beliefs

    out: List[Instance] = []
    f = prog.func("roi:roi_from_points")
    pts = f.param_names()[0]
    org = Origins(f)
    body = f.node.body

    def top_index(node: ast.AST) -> int:
        from ..loader import parent as _p

        st = node
        while _p(st) is not f.node and _p(st) is not None:
            st = _p(st)
        return body.index(st) if st in body else -1

    env = [n for n in walk_own(f.node) if isinstance(n, ast.Call) and isinstance(n.func, ast.Attribute) and n.func.attr in ("min", "max") and pts in names_in(n.func.value)]
    if not env:
        return [Instance("R-GUARDSEQ", f"{f.qual}#finite:envelope", UNDET, "min/max of the point cloud not found", f.where())]
    first_env = min(top_index(e) for e in env)
    # (1) the points are re-bound to a selection by a mask that derives from isfinite(points)
    rebinding = None
    mask_expr = None
    for n in walk_own(f.node):
        if isinstance(n, ast.Assign) and isinstance(n.targets[0], ast.Name) and n.targets[0].id == pts and isinstance(n.value, ast.Subscript) and pts in names_in(n.value.value):
            sl = n.value.slice
            first = sl.elts[0] if isinstance(sl, ast.Tuple) and sl.elts else sl
            deps_txt = " ".join(short(v) for nm in org.deps_names(first) for _, v in org.defs.get(nm, []))
            if "isfinite" in deps_txt or "isfinite" in short(first):
                rebinding = n
                mask_expr = first
    if rebinding is None:
        # the filter may have been moved into a helper: `pts = _finite_points(pts)`
        for n in walk_own(f.node):
            if isinstance(n, ast.Assign) and isinstance(n.targets[0], ast.Name) and n.targets[0].id == pts and isinstance(n.value, ast.Call) and pts in names_in(n.value) \
                    and any(isinstance(x, ast.Call) and call_name(x) == "isfinite" for _g, x in prog.closure_nodes(f, n.value, private_only=False)):
                rebinding = n
    ok = rebinding is not None and top_index(rebinding) < first_env
    out.append(Instance("R-GUARDSEQ", f"{f.qual}#finite:filter-before-envelope", OK if ok else BAD,
                        "non-finite points are masked out before the envelope is taken" if ok else "envelope (min/max) is computed without first removing non-finite points: one NaN/inf poisons the region", f.where()))
    # mask must combine both coordinate columns (product / and / all over axis 1)
    if mask_expr is not None:
        exprs = [mask_expr, expand_locals(f.node, mask_expr, depth=3, keep={pts})] + [v for nm in org.deps_names(mask_expr) for _, v in org.defs.get(nm, [])]
        both = False
        for v in exprs:
            for x in ast.walk(v):
                if isinstance(x, ast.BinOp) and isinstance(x.op, (ast.Mult, ast.BitAnd)):
                    idx = {const_num(y.slice) for y in ast.walk(x) if isinstance(y, ast.Subscript)}
                    if {0, 1} <= idx:
                        both = True
                if isinstance(x, ast.Call) and call_name(x) == "all" and any(k.arg == "axis" for k in x.keywords):
                    both = True
        out.append(Instance("R-GUARDSEQ", f"{f.qual}#finite:both-coordinates", OK if both else BAD,
                            "a point is kept only if both coordinates are finite" if both else "the finite mask does not require both coordinates of a point to be finite", f.where(rebinding)))
    # (2) empty case returns the empty ROI before the envelope
    ok = False
    for n in body[:first_env]:
        if isinstance(n, ast.If) and isinstance(n.test, ast.Compare) and pts in names_in(n.test) and const_num(n.test.comparators[0]) == 0 and isinstance(n.test.ops[0], (ast.Eq, ast.LtE, ast.Lt)):
            r = [x for x in n.body if isinstance(x, ast.Return)]
            if r:
                sl = [x for x in ast.walk(r[0]) if isinstance(x, ast.Slice) or (isinstance(x, ast.Call) and call_name(x) == "slice")]
                ok = len(sl) >= 2 and all(
                    (isinstance(x, ast.Slice) and const_num(x.lower) == const_num(x.upper)) or (isinstance(x, ast.Call) and len(x.args) == 2 and const_num(x.args[0]) == const_num(x.args[1]))
                    for x in sl
                )
    out.append(Instance("R-GUARDSEQ", f"{f.qual}#finite:empty-first", OK if ok else BAD,
                        "no finite point left => empty ROI returned before min/max" if ok else "the no-points case does not return an empty ROI before the envelope is computed", f.where()))
    # (3) result is clipped to the image: the x range with the x extent, the y range with the y extent
    ty = AxisTyper(f, Beliefs(f), prog)
    seen = []
    for c in (n for n in walk_own(f.node) if isinstance(n, ast.Call) and call_name(n) == "clip" and len(n.args) >= 3):
        st = enclosing_stmt(c)
        if top_index(c) <= max(top_index(e) for e in env):
            continue  # the pre-cast clamp, not the final clip
        t0, thi = ty.tag(c.args[0]), ty.tag(c.args[2])
        seen.append((short(c.args[0]), const_num(c.args[1]), short(c.args[2]), t0, thi))
    ok = len(seen) == 2 and all(lo == 0 and t0 is not None and t0 == thi for _, lo, _, t0, thi in seen) and {t0 for *_, t0, _ in seen} == {"X", "Y"}
    if not ok and (not seen or any(t0 is None for *_, t0, thi in seen)):
        out.append(Instance("R-GUARDSEQ", f"{f.qual}#finite:clip-to-image", UNDET, f"the final clip is not written as one clip per axis over axis-named values ({[(a, lo, hi) for a, lo, hi, *_ in seen]}): not read", f.where()))
    else:
      out.append(Instance("R-GUARDSEQ", f"{f.qual}#finite:clip-to-image", OK if ok else BAD,
                        "x range clipped to [0, width], y range to [0, height]" if ok else f"final clip is {[(a, lo, hi) for a, lo, hi, *_ in seen]}: region can leave the image or axes are mixed", f.where()))
    return out


def overwrite_guard(prog: Program) -> List[Instance]:
    """C15: destination is deleted only under overwrite, and the check cannot be bypassed."""
    out: List[Instance] = []
    f = prog.func("cog._rio:check_write_path")
    cond = Conditions(f.body)
    unl = [n for n in walk_own(f.node) if isinstance(n, ast.Call) and call_name(n) in ("unlink", "remove", "rmtree")]
    if not unl:
        out.append(Instance("R-GUARDSEQ", f"{f.qual}#overwrite:unlink", INFO, "no unlink in check_write_path", f.where(), nontrivial=False))
    for n in unl:
        st = enclosing_stmt(n)
        cs = conds_at(cond, st)
        ok = any(p and isinstance(e, ast.Name) and e.id == "overwrite" for e, p in cs) and any(p and has_call(e, "exists") for e, p in cs)
        out.append(Instance("R-GUARDSEQ", f"{f.qual}#overwrite:unlink-only-if-requested", OK if ok else BAD,
                            "existing file is removed only when overwrite is true" if ok else f"`{short(n)}` can run without overwrite being requested", f.where(n)))
    raises = [n for n in walk_own(f.node) if isinstance(n, ast.Raise)]
    ok = False
    for r in raises:
        cs = conds_at(cond, r)
        if any((not p) and isinstance(e, ast.Name) and e.id == "overwrite" for e, p in cs) and any(p and has_call(e, "exists") for e, p in cs):
            ok = "IOError" in short(r.exc) or "OSError" in short(r.exc) or "FileExistsError" in short(r.exc)
    out.append(Instance("R-GUARDSEQ", f"{f.qual}#overwrite:raise-if-exists", OK if ok else BAD,
                        "existing file without overwrite raises IOError" if ok else "existing destination without overwrite does not raise an OS error", f.where()))
    # _write_cog: file destinations are opened only through the checked path
    w = prog.func("cog._rio:_write_cog")
    rd = ReachingDefs(w.node)
    sinks = []
    for n in walk_own(w.node):
        if isinstance(n, ast.Call) and ((call_name(n) == "open" and short(n.func).startswith("rasterio")) or call_name(n) == "rio_copy"):
            # destination argument
            dst = n.args[0] if call_name(n) == "open" else (n.args[1] if len(n.args) > 1 else None)
            if dst is None:
                continue
            if isinstance(dst, ast.Attribute) and dst.attr == "name":
                continue  # in-memory file
            sinks.append((n, dst))
    if not sinks:
        out.append(Instance("R-GUARDSEQ", f"{w.qual}#overwrite:sinks", UNDET, "no file destination found in _write_cog", w.where()))
    chk = prog.func("cog._rio:check_write_path")
    for k, (n, dst) in enumerate(sinks):
        cid = f"{w.qual}#overwrite:checked-path:{call_name(n)}"
        if not isinstance(dst, ast.Name):
            out.append(Instance("R-GUARDSEQ", cid, BAD, f"destination `{short(dst)}` is not the checked path variable", w.where(n)))
            continue
        defs = rd.reaching(enclosing_stmt(n), dst.id)
        ok = bool(defs) and all(isinstance(v, ast.Call) and chk in prog.resolve_call(v, w) for _, _, v, _ in defs)
        if ok:
            # and the check receives the caller's overwrite flag
            for _, _, v, _ in defs:
                a = v.args[1] if len(v.args) > 1 else next((kk.value for kk in v.keywords if kk.arg == "overwrite"), None)
                if not (isinstance(a, ast.Name) and a.id == "overwrite"):
                    ok = False
        out.append(Instance("R-GUARDSEQ", cid, OK if ok else BAD,
                            f"`{dst.id}` written by {call_name(n)} is the result of check_write_path(fname, overwrite) on every path" if ok
                            else f"`{short(n, 60)}` writes to `{dst.id}` which does not come from check_write_path(fname, overwrite) on every path", w.where(n)))
    wl = prog.func("cog._rio:write_cog_layers")
    cond = Conditions(wl.body)
    checks = [n for n in walk_own(wl.node) if isinstance(n, ast.Call) and chk in prog.resolve_call(n, wl)]
    copies = [n for n in walk_own(wl.node) if isinstance(n, ast.Call) and call_name(n) == "rio_copy" and len(n.args) > 1 and isinstance(n.args[1], ast.Name)]
    ok = bool(checks)
    if ok:
        c = checks[0]
        a = c.args[1] if len(c.args) > 1 else None
        ok = isinstance(a, ast.Name) and a.id == "overwrite" and isinstance(c.args[0], ast.Name) and c.args[0].id == "dst"
        cs = conds_at(cond, enclosing_stmt(c))
        # unconditional, or skipped only for the in-memory destination (the test may go through a local: to_mem = dst == ":mem:")
        ok = ok and (not cs or any(":mem:" in short(expand_locals(wl.node, e), 200) for e, p in cs))
    out.append(Instance("R-GUARDSEQ", f"{wl.qual}#overwrite:checked-before-copy", OK if ok and copies else BAD,
                        "file destination goes through check_write_path(dst, overwrite) before layers are written" if ok and copies else "write_cog_layers does not check the destination with the caller's overwrite flag", wl.where()))
    return out


def snap_affine_guards(prog: Program) -> List[Instance]:
    """C20/C10: snap_affine leaves rotated input untouched and writes components back into their slots."""
    out: List[Instance] = []
    f = prog.func("math:snap_affine")
    A = f.param_names()[0]
    slots = _affine_unpack_slots(f)
    inv = {v: k for k, v in slots.items()}
    cond = Conditions(f.body)
    # rotation test returns the parameter unchanged, before anything else is returned
    rot = None
    for n in f.node.body:
        if isinstance(n, ast.If) and {inv.get(1), inv.get(3)} <= names_in(n.test):
            rot = n
    if rot is None:
        out.append(Instance("R-GUARDSEQ", f"{f.qual}#snap:rotation-passthrough", BAD, "no rotation/shear test on the off-diagonal components: rotated transforms would be flattened", f.where()))
    else:
        r = rot.body[0] if rot.body and isinstance(rot.body[0], ast.Return) else None
        ok = r is not None and isinstance(r.value, ast.Name) and r.value.id == A
        t = rot.test
        both = isinstance(t, ast.BoolOp) and isinstance(t.op, ast.Or) and all(isinstance(v, ast.Compare) and isinstance(v.ops[0], (ast.Gt, ast.GtE)) and has_call(v, "abs") for v in t.values)
        if not both and isinstance(t, ast.Call) and call_name(t) == "any" and t.args and isinstance(t.args[0], (ast.GeneratorExp, ast.ListComp)) and len(t.args[0].generators) == 1:
            # any(abs(w) > tol for w in (wx, wy)): the same disjunction over both off-diagonal terms
            g0 = t.args[0]
            it = g0.generators[0].iter
            both = isinstance(g0.elt, ast.Compare) and isinstance(g0.elt.ops[0], (ast.Gt, ast.GtE)) and has_call(g0.elt, "abs") and isinstance(it, (ast.Tuple, ast.List)) and {short(e) for e in it.elts} == {inv.get(1), inv.get(3)}
        status = OK if ok and both else BAD
        if ok and not both and not has_call(t, "is_affine_st"):
            status = UNDET  # some other spelling of the test on both off-diagonal terms: not read
        out.append(Instance("R-GUARDSEQ", f"{f.qual}#snap:rotation-passthrough", status,
                            "rotated/sheared input is returned unchanged" if ok and both else f"rotation test `{short(t)}` / return `{short(r)}` does not pass rotated input through", f.where(rot)))
    for r in (n for n in walk_own(f.node) if isinstance(n, ast.Return) and isinstance(n.value, ast.Call) and call_name(n.value) == "Affine"):
        args = r.value.args
        org = Origins(f)
        want = {0: inv.get(0), 2: inv.get(2), 4: inv.get(4), 5: inv.get(5)}
        okslots = len(args) >= 6
        bad = []
        if okslots:
            for i, src_name in want.items():
                deps = set()
                for nm in names_in(args[i]):
                    for _, v in org.defs.get(nm, []):
                        deps |= names_in(v)
                    deps.add(nm)
                if src_name not in deps:
                    bad.append(f"slot {i} <- {short(args[i])} (expected value derived from {src_name})")
            for i in (1, 3):
                if const_num(args[i]) != 0:
                    bad.append(f"slot {i} must be 0")
        out.append(Instance("R-GUARDSEQ", f"{f.qual}#snap:slots", OK if okslots and not bad else BAD,
                            "snapped scale/translation written back into their own Affine slots" if okslots and not bad else f"Affine slots mixed up: {bad}", f.where(r)))
        # which snapper with which tolerance
        tol_ok = True
        why = []
        for nm in names_in(r.value):
            for _, v in org.defs.get(nm, []):
                if isinstance(v, ast.Call) and call_name(v) == "snap_scale":
                    if not (len(v.args) > 1 and short(v.args[1]) == "stol"):
                        tol_ok = False
                        why.append(short(v))
                    if short(v.args[0]) not in (inv.get(0), inv.get(4)):
                        tol_ok = False
                        why.append(short(v))
                if isinstance(v, ast.Call) and call_name(v) == "maybe_int":
                    if not (len(v.args) > 1 and short(v.args[1]) == "ttol"):
                        tol_ok = False
                        why.append(short(v))
                    if short(v.args[0]) not in (inv.get(2), inv.get(5)):
                        tol_ok = False
                        why.append(short(v))
        out.append(Instance("R-GUARDSEQ", f"{f.qual}#snap:tolerances", OK if tol_ok else BAD,
                            "scales snapped with stol, translations with ttol" if tol_ok else f"tolerance/component mix-up: {why}", f.where(r)))
    return out


def nonfinite_first(prog: Program) -> List[Instance]:
    """C20: split_float / maybe_int / is_almost_int handle non-finite input before any arithmetic."""
    out: List[Instance] = []
    for q, want in (("math:split_float", "tuple-x-0"), ("math:maybe_int", "x"), ("math:is_almost_int", "False")):
        f = prog.func(q)
        x = f.param_names()[0]
        first = next((s for s in f.node.body if not (isinstance(s, ast.Expr) and isinstance(s.value, ast.Constant))), None)
        # path-condition form: every arithmetic consumer of x (fmod / modf / int / split_float / floor / round / trunc) is
        # reached only with isfinite(x) known true, and on the non-finite path the documented value is returned
        cond = Conditions(f.body)
        consumers = [n for n in walk_own(f.node) if isinstance(n, ast.Call) and call_name(n) in ("fmod", "modf", "int", "split_float", "floor", "ceil", "round", "trunc", "divmod")
                     and any(isinstance(a, ast.Name) and a.id == x for a in ast.walk(n))]

        def finite_known(st_: Optional[ast.AST]) -> bool:
            return st_ is not None and any(p and has_call(e, "isfinite", lambda c: c.args and short(c.args[0]) == x) and isinstance(e, ast.Call) for e, p in conds_at(cond, st_))

        unguarded = [n for n in consumers if not finite_known(enclosing_stmt(n))]
        # value returned when x is not finite: returns reached with isfinite(x) known false, or not known true
        def finite_false(st_: ast.AST) -> bool:
            return any((not p) and isinstance(e, ast.Call) and has_call(e, "isfinite", lambda c: c.args and short(c.args[0]) == x) for e, p in conds_at(cond, st_))

        nf_rets = [r for r in walk_own(f.node) if isinstance(r, ast.Return) and r.value is not None and finite_false(r)]
        rebound = any(isinstance(n, ast.Name) and n.id == x and isinstance(n.ctx, ast.Store) for n in walk_own(f.node))
        if not nf_rets and not rebound:
            nf_rets = [r for r in walk_own(f.node) if isinstance(r, ast.Return) and r.value is not None and not finite_known(r)]

        def is_want(rv: Optional[ast.AST]) -> bool:
            if want == "x":
                return isinstance(rv, ast.Name) and rv.id == x
            if want == "False":
                return isinstance(rv, ast.Constant) and rv.value is False
            return isinstance(rv, ast.Tuple) and len(rv.elts) == 2 and short(rv.elts[0]) == x and const_num(rv.elts[1]) == 0

        if not consumers:
            out.append(Instance("R-GUARDSEQ", f"{q}#nonfinite-first", UNDET, f"no arithmetic consumer of {x} recognised", f.where(first)))
            continue
        ok = not unguarded and bool(nf_rets) and all(is_want(r.value) for r in nf_rets)
        out.append(Instance("R-GUARDSEQ", f"{q}#nonfinite-first", OK if ok else BAD,
                            f"non-finite {x} never reaches the arithmetic and returns {want}" if ok else
                            (f"`{short(unguarded[0], 50)}` is reached without isfinite({x}) known true: non-finite input reaches fmod/int()" if unguarded
                             else f"the non-finite path returns `{short(next((r.value for r in nf_rets if not is_want(r.value)), None), 40)}` instead of {want}"), f.where(unguarded[0] if unguarded else first)))
    return out


def _is_crs_pair(f: FuncInfo, e: ast.Compare) -> bool:
    """Compare of the source geobox's CRS with the CRS resolved for the request."""
    org = Origins(f)
    pp = f.param_names()
    l, r = e.left, e.comparators[0]
    dl, dr = org.deps_names(l), org.deps_names(r)
    txt = short(l).lower() + short(r).lower()
    return "crs" in txt and ((pp[0] in dl and pp[1] in dr) or (pp[0] in dr and pp[1] in dl))


def identity_shortcircuit(prog: Program) -> List[Instance]:
    """C11: compute_output_geobox returns the source geobox only under all five conditions."""
    out: List[Instance] = []
    f = prog.func("overlap:compute_output_geobox")
    g = f.param_names()[0]
    cond = Conditions(f.body)
    rets = [n for n in walk_own(f.node) if isinstance(n, ast.Return) and isinstance(n.value, ast.Name) and n.value.id == g]
    if not rets:
        out.append(Instance("R-GUARDSEQ", f"{f.qual}#identity:return", BAD, "no `return gbox` short-circuit: same-CRS default request no longer returns the source unchanged", f.where()))
    for r in rets:
        cs = conds_at(cond, r)
        checks = {
            "same-crs": any(p and isinstance(e, ast.Compare) and isinstance(e.ops[0], ast.Eq) and _is_crs_pair(f, e) for e, p in cs),
            "resolution-auto-or-same": any(p and isinstance(e, ast.Compare) and isinstance(e.ops[0], ast.In) and "resolution" in names_in(e) and {"auto", "same"} == {x.value for x in ast.walk(e.comparators[0]) if isinstance(x, ast.Constant)} for e, p in cs),
            "no-shape": any(p and isinstance(e, ast.Compare) and isinstance(e.ops[0], ast.Is) and short(e.left) == "shape" for e, p in cs),
            "default-anchor": any(p and isinstance(e, ast.Compare) and isinstance(e.ops[0], ast.Eq) and "anchor" in names_in(e) and any(isinstance(x, ast.Constant) and x.value == "default" for x in ast.walk(e)) for e, p in cs),
            "is-geobox": any(p and isinstance(e, ast.Call) and call_name(e) == "isinstance" and short(e.args[0]) == g and "GeoBox" in short(e.args[1]) and "GCP" not in short(e.args[1]) for e, p in cs),
        }
        for k, ok in checks.items():
            out.append(Instance("R-GUARDSEQ", f"{f.qual}#identity:{k}", OK if ok else BAD,
                                f"`return {g}` only with {k}" if ok else f"`return {g}` reachable without the {k} condition: a request that changes the grid would get the source geobox back", f.where(r)))
    # GeoBoxBase.footprint: the (buffered) extent is densified *by the projection call* with a
    # resolution derived from npoints; a buffer applied after densification removes the collinear points
    fp = prog.func("geobox:GeoBoxBase.footprint")
    org = Origins(fp)
    pn = fp.param_names()
    tcs = [n for n in walk_own(fp.node) if isinstance(n, ast.Call) and call_name(n) == "to_crs"]
    okf = False
    if len(tcs) == 1:
        rk = next((k.value for k in tcs[0].keywords if k.arg == "resolution"), tcs[0].args[1] if len(tcs[0].args) > 1 else None)
        okf = rk is not None and "npoints" in org.deps(rk) and short(tcs[0].args[0]) == pn[1]
        # on no branch may the densification be switched off
        def _may_be_none(e, depth=0):
            if e is None or depth > 4:
                return False
            if any(isinstance(x, ast.Constant) and x.value is None for x in ast.walk(e)):
                return True
            if isinstance(e, ast.Name):
                rd = ReachingDefs(fp.node)
                return any(_may_be_none(v, depth + 1) for (_n, _s, v, _k) in rd.reaching(enclosing_stmt(tcs[0]), e.id) if v is not None)
            return False

        okf = okf and not _may_be_none(rk)
        bufs = [n for n in walk_own(fp.node) if isinstance(n, ast.Call) and call_name(n) == "buffer"]
        okf = okf and all(b.lineno <= tcs[0].lineno for b in bufs)
    out.append(Instance("R-GUARDSEQ", f"{fp.qual}#densify-at-projection", OK if okf else BAD,
                        "footprint is projected with resolution=f(npoints) after buffering" if okf else "footprint is not densified by the projection call (to_crs(crs, resolution=f(npoints)) after buffering): curved sides are projected from their corners only", fp.where()))
    # the footprint used for the output box is buffered and computed in the requested CRS
    for n in walk_own(f.node):
        if isinstance(n, ast.Call) and call_name(n) == "footprint":
            a0 = n.args[0] if n.args else None
            buf = next((k.value for k in n.keywords if k.arg == "buffer"), n.args[1] if len(n.args) > 1 else None)
            ok = isinstance(a0, ast.Name) and a0.id == "crs" and buf is not None and (const_num(buf) or 0) > 0
            out.append(Instance("R-GUARDSEQ", f"{f.qual}#footprint:buffered-in-target-crs", OK if ok else BAD,
                                f"footprint({short(a0)}, buffer={short(buf)}) of the source" if ok else f"`{short(n)}`: output box no longer derives from the buffered footprint in the requested CRS", f.where(n)))
    return out
