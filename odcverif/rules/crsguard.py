"""R-CRSGUARD, R-RETAG, R-WRAPNAME: operations never silently mix CRSs (C01 and friends).

R-CRSGUARD  every *combining function* reaches each normal exit only through
            (G) a path condition that implies the operands' CRSs are equal (false side of
                ``a.crs != b.crs``, true side of ``==``; for operand streams the comparison must
                hold at every back edge of a loop over the stream), or
            (D) a call that hands all operands to a function already proven G/D (wrappers,
                decorators, ``functools.reduce(F, stream)``, generator arguments are followed), or
            (R) a reconciliation: one operand is re-projected with the other's CRS.
            Mismatch branches must raise a ValueError subclass.  ``assert`` and conjunctions
            with ``is not None`` do not establish (G).
"""
from __future__ import annotations

import ast
from typing import Dict, FrozenSet, List, Optional, Set, Tuple

from ..astutil import Origins, assigned_names, call_name, stmt_exprs, unconditional_nodes
from ..cfg import Flow
from ..loader import ClassInfo, FuncInfo, Program, dotted, enclosing_stmt, parent, short, walk_own
from ..report import BAD, INFO, OK, UNDET, Instance

TAGGED = {"Geometry", "BoundingBox", "GeoBox", "GeoBoxBase", "GCPGeoBox", "GeoboxTiles"}
BIN_DUNDERS = {
    "__and__", "__or__", "__xor__", "__sub__", "__add__", "__rand__", "__ror__", "__rxor__",
    "__rsub__", "__radd__", "__matmul__", "__mod__", "__truediv__", "__floordiv__",
    "__lt__", "__le__", "__gt__", "__ge__", "__contains__",
}
CRS_TYPES = {"CRS", "MaybeCRS", "SomeCRS"}
RECONCILE_CALLS = {"to_crs", "_to_crs", "project", "transformer_to_crs", "footprint"}

# discovered functions that are *not* combining operations, one reason each (DESIGN appendix B)
TABLE: Dict[str, str] = {
    "overlap:_same_crs_pix_transform": "internal; only reached behind `src.crs == dst.crs` in native_pix_transform (guards with assert)",
    "overlap:native_pix_transform": "cross-CRS by contract: builds the transformer between the two CRSs",
    "overlap:_relative_rois": "cross-CRS by contract: works through the PointTransform",
    "overlap:compute_reproject_roi": "cross-CRS by contract (reprojection planner)",
    "warp:rio_reproject": "cross-CRS by contract (warp)",
    "warp:_rio_reproject": "cross-CRS by contract (warp)",
    "_dask:_dask_rio_reproject": "cross-CRS by contract (warp)",
    "_dask:_do_chunked_reproject": "cross-CRS by contract (warp)",
    "testutils:approx_equal_geobox": "test helper comparing two geoboxes, CRS is part of the comparison",
    "gridspec:GridSpec.idx_bounds": "GridSpec is outside C01's operation list; guards with assert (informational)",
    "geobox:GeoBoxBase.compute_crop": "region is re-projected through self.project before use",
    "gcp:GCPGeoBox.gcps/to_gcp": "pairs a pixel-plane point with its world point; the two are in different spaces by contract",
    "geobox:GeoboxTiles._grid_intersect_linear": "only called from grid_intersect behind `_check_linear(src) is not None`, which returns None unless both bases share a CRS",
    "geobox:GeoboxTiles._tiles_from_pix_bbox": "query box is in the pixel plane of the base geobox (crs=None by contract)",
    "gridspec:GridSpec.geojson": "bbox and geopolygon are alternative filters, never combined with each other",
}

# operations named by C01: these must be G or D (never merely R/table)
C01_MUST_GUARD = [
    "geom:wrap_shapely/wrapped",
    "geom:Geometry.split",
    "geom:common_crs",
    "geom:multigeom",
    "geom:unary_union",
    "geom:unary_intersection",
    "geom:intersects",
    "geom:bbox_union",
    "geom:bbox_intersection",
    "geom:BoundingBox.__and__",
    "geom:BoundingBox.__or__",
    "geobox:pixel_translation",
    "geobox:bounding_box_in_pixel_domain",
    "geobox:geobox_union_conservative",
    "geobox:geobox_intersection_conservative",
    "geobox:GeoBox.__or__",
    "geobox:GeoBox.__and__",
    "geobox:GeoBox.overlap_roi",
    "geobox:GeoBox.snap_to",
]


class Obligation:
    def __init__(self, fi: FuncInfo, operands: List[str], stream: Optional[str], why: str):
        self.fi = fi
        self.operands = operands  # tagged scalar operands (param names, incl. self)
        self.stream = stream  # name of the stream parameter, if any
        self.why = why
        self.cls = "?"  # G | D | R | T | BAD
        self.detail = ""
        self.helper = False  # CRS-valued parameters (guard helper candidate)
        self.silent = False  # untyped guard helper: usable as a guarding callee, never reported itself


def _is_valueerror(prog: Program, exc: Optional[ast.AST], fi: FuncInfo) -> bool:
    if exc is None:
        return False  # bare re-raise: unknown
    e = exc.func if isinstance(exc, ast.Call) else exc
    tgt = prog.resolve_name_expr(e, fi.mod, fi)
    if isinstance(tgt, ClassInfo):
        if tgt.name == "ValueError":
            return True
        return "ValueError" in {b.split(".")[-1] for b in tgt.all_ext_bases()} or tgt.is_subclass_of("ValueError")
    d = dotted(e) or ""
    return d.split(".")[-1] == "ValueError"


def discover(prog: Program) -> Tuple[List[Obligation], Dict[str, FuncInfo]]:
    """Combining functions of the package + CRS-wrapping decorators {decorator qual: wrapper}."""
    obligations: List[Obligation] = []
    wrappers: Dict[str, FuncInfo] = {}
    # decorators whose wrapper takes *args and reads .crs
    for fi in prog.all_functions():
        if fi.parent is not None or fi.cls is not None:
            continue
        for nf in fi.nested.values():
            if nf.args.vararg is None:
                continue
            returned = any(
                isinstance(n, ast.Return) and isinstance(n.value, ast.Name) and n.value.id == nf.name
                for n in walk_own(fi.node)
            )
            reads_crs = any(isinstance(n, ast.Attribute) and n.attr == "crs" for n in walk_own(nf.node))
            pnames = fi.param_names()
            calls_wrapped = any(
                isinstance(n, ast.Call) and isinstance(n.func, ast.Name) and n.func.id in pnames
                for n in walk_own(nf.node)
            )
            if returned and reads_crs and calls_wrapped:
                wrappers[fi.qual] = nf

    for fi in prog.all_functions():
        if fi.is_stub or isinstance(fi.node, ast.Lambda):
            continue
        if fi.name in ("__eq__", "__ne__", "__init__", "__setstate__", "__getstate__"):
            continue
        ops: List[str] = []
        stream: Optional[str] = None
        own = fi.cls if fi.is_method else None
        if own is not None and not fi.is_static and own.name in TAGGED or (
            own is not None and not fi.is_static and any(c.name in TAGGED for c in own.mro())
        ):
            ops.append(fi.self_name or "self")
        a = fi.args
        plist = list(a.posonlyargs) + list(a.args) + list(a.kwonlyargs)
        if fi.is_method and not fi.is_static and plist:
            plist = plist[1:]
        crs_ops: List[str] = []
        for p in plist:
            direct, contained = prog.ann_classes(p.annotation, fi.mod)
            if direct & TAGGED:
                ops.append(p.arg)
                if contained & TAGGED:  # Union[Geometry, List[Geometry], ...]: also a stream of tagged objects
                    stream = stream or p.arg
            elif contained & TAGGED:
                stream = stream or p.arg
            elif p.annotation is None and fi.name in BIN_DUNDERS and own is not None and ops:
                ops.append(p.arg)
            elif direct & CRS_TYPES or (p.annotation is None and "crs" in p.arg.lower()):
                crs_ops.append(p.arg)
        if a.vararg is not None:
            direct, contained = prog.ann_classes(a.vararg.annotation, fi.mod)
            if (direct | contained) & TAGGED:
                stream = stream or a.vararg.arg
        if fi.qual in {w.qual for w in wrappers.values()}:
            stream = fi.args.vararg.arg  # type: ignore[union-attr]
            obligations.append(Obligation(fi, [], stream, "CRS-wrapping decorator body"))
            continue
        if len(ops) >= 2 or stream is not None:
            obligations.append(Obligation(fi, ops, stream, "annotated CRS-tagged operands"))
        elif len(crs_ops) >= 2 and not ops and fi.cls is None:
            # possible guard helper  _check(crs_a, crs_b): only *used* as a guarding callee,
            # never reported by itself
            ob = Obligation(fi, crs_ops, None, "helper over CRS values")
            ob.helper = True
            obligations.append(ob)
        else:
            ob2 = _untyped_guard_helper(fi)
            if ob2 is not None:
                obligations.append(ob2)
    return obligations, wrappers


def _untyped_guard_helper(fi: FuncInfo) -> Optional[Obligation]:
    """`def _require_same_crs(first, rest)`: no annotation says the parameters are CRS-tagged, but the body compares
    `<param>.crs` with `<other param or element of it>.crs` and raises.  Such a function is analysed like any other
    (it guards only if every normal exit is behind the comparison) but is never reported itself: it exists to be
    *used* as a guarding callee (a guard extracted into a helper)."""
    if not any(isinstance(n, ast.Raise) for n in walk_own(fi.node)):
        return None
    params = set(fi.param_names())
    org = Origins(fi)
    scal: List[str] = []
    streams: List[str] = []
    found = False
    for n in walk_own(fi.node):
        if not (isinstance(n, ast.Compare) and len(n.ops) == 1 and isinstance(n.ops[0], (ast.Eq, ast.NotEq))):
            continue
        sides = [n.left, n.comparators[0]]
        if not all(isinstance(s_, ast.Attribute) and s_.attr in ("crs", "_crs") and isinstance(s_.value, (ast.Name, ast.Subscript)) for s_ in sides):
            continue
        for s_ in sides:
            base = s_.value  # type: ignore[attr-defined]
            if isinstance(base, ast.Subscript):
                for r, _ in org.origin(base.value):
                    if r in params and r not in streams:
                        streams.append(r)
                continue
            if base.id in params and base.id not in org.defs:
                if base.id not in scal:
                    scal.append(base.id)
                continue
            for kind, v in org.defs.get(base.id, []):
                one_of = kind == "elem" or (isinstance(v, ast.Subscript) and not isinstance(v.slice, ast.Slice))
                for r, _ in org.origin(v):
                    if r not in params:
                        continue
                    if one_of:
                        if r not in streams:
                            streams.append(r)
                    elif r not in scal:
                        scal.append(r)
        found = True
    scal = [x for x in scal if x not in streams]
    if not found or not (len(scal) >= 2 or streams):
        return None
    ob = Obligation(fi, scal, streams[0] if streams else None, "untyped CRS guard helper (compares .crs of its parameters and raises)")
    ob.silent = True
    return ob


def via_ok(_atom: ast.AST) -> bool:
    return True


class _Analysis:
    """Per-function flow analysis producing the set of exits that lack a guard."""

    def __init__(self, prog: Program, ob: Obligation, guarding: Set[str], wrappers: Dict[str, FuncInfo], weak: Optional[Set[str]] = None):
        self.prog = prog
        self.ob = ob
        self.fi = ob.fi
        # `weak`: functions every normal exit of which is behind a CRS comparison but which *return* (None, False ..) on a
        # mismatch instead of raising; handing the operands to one of them guards the caller in the same weak sense
        self.weak = weak or set()
        self.via_weak = False
        self.guarding = guarding | self.weak
        self.wrappers = wrappers
        self.org = Origins(self.fi)
        if ob.helper:
            # parameters are CRS values themselves
            for nm in ob.operands:
                self.org._memo[nm] = {(nm, True)}
        self.operand_roots: Set[str] = set(ob.operands) | ({ob.stream} if ob.stream else set())
        self.flow: Optional[Flow] = None
        self.bad_raises: List[ast.Raise] = []
        self.assert_guards = 0
        self.weak_guards: List[str] = []
        self.kinds: Set[str] = set()
        self.guard_nodes: List[ast.AST] = []
        self.returns_on_mismatch = False

    # -- recognisers -------------------------------------------------------------------------
    def crs_compare(self, test: ast.AST) -> Optional[Tuple[bool, FrozenSet[str]]]:
        """(is_equality, operand roots compared) when test compares CRSs of operands."""
        if not (isinstance(test, ast.Compare) and len(test.ops) == 1):
            return None
        op = test.ops[0]
        if not isinstance(op, (ast.Eq, ast.NotEq)):
            return None
        l, r = test.left, test.comparators[0]
        lr, rr = self.org.crs_roots(l), self.org.crs_roots(r)
        if not lr or not rr:
            return None
        roots = (lr | rr) & self.operand_roots
        if not roots:
            return None
        # both sides must come from operands; for two scalar operands from different ones
        if not (lr & self.operand_roots and rr & self.operand_roots):
            return None
        return isinstance(op, ast.Eq), frozenset(lr | rr)

    def _atoms(self, test: ast.AST, pol: bool) -> List[Tuple[ast.AST, bool]]:
        if isinstance(test, ast.UnaryOp) and isinstance(test.op, ast.Not):
            return self._atoms(test.operand, not pol)
        if isinstance(test, ast.BoolOp):
            if (isinstance(test.op, ast.And) and pol) or (isinstance(test.op, ast.Or) and not pol):
                out: List[Tuple[ast.AST, bool]] = []
                for v in test.values:
                    out += self._atoms(v, pol)
                return out
            # the other polarity of a conjunction/disjunction implies nothing about its parts
            for v in test.values:
                for sub in ast.walk(v):
                    if self.crs_compare(sub) is not None:
                        self.weak_guards.append(short(test))
            return []
        return [(test, pol)]

    def covers(self, roots: FrozenSet[str], elementwise: bool) -> Optional[str]:
        """Which guard fact a comparison/call over ``roots`` gives."""
        ob = self.ob
        if ob.stream is not None and ob.stream in roots:
            return "ELEM" if elementwise else "ALL"
        if len(ob.operands) >= 2 and len(set(ob.operands) & set(roots)) >= 2:
            return "ALL"
        return None

    # -- hooks -------------------------------------------------------------------------------
    def _whole_stream_test(self, atom: ast.AST, p: bool) -> bool:
        """Guard idioms that look at every element in one expression; true when `atom` having truth value `p` means that
        all compared CRSs are equal:
          any(a.crs != x.crs for x in S) is False        all(a.crs == x.crs for x in S) is True
          m is None / m is not None is False, with  m = next((.. for x in S if a.crs != x.crs), None)"""
        def gen_says_all_equal(g: ast.AST, want_eq: bool, in_ifs: bool) -> bool:
            if not isinstance(g, (ast.GeneratorExp, ast.ListComp)) or len(g.generators) != 1:
                return False
            tests = g.generators[0].ifs if in_ifs else [g.elt]
            for t in tests:
                cc = self.crs_compare(t)
                if cc is not None and cc[0] == want_eq and self.covers(cc[1], elementwise=False) is not None:
                    return True
            return False

        if isinstance(atom, ast.Call) and call_name(atom) in ("any", "all") and len(atom.args) == 1 and via_ok(atom):
            if call_name(atom) == "any" and not p:
                return gen_says_all_equal(atom.args[0], False, False)
            if call_name(atom) == "all" and p:
                return gen_says_all_equal(atom.args[0], True, False)
        if isinstance(atom, ast.Compare) and len(atom.ops) == 1 and isinstance(atom.left, ast.Name) and isinstance(atom.comparators[0], ast.Constant) and atom.comparators[0].value is None:
            none_here = (isinstance(atom.ops[0], ast.Is) and p) or (isinstance(atom.ops[0], ast.IsNot) and not p)
            if none_here:
                for kind, v in self.org.defs.get(atom.left.id, []):
                    if isinstance(v, ast.Call) and call_name(v) == "next" and len(v.args) == 2 and isinstance(v.args[1], ast.Constant) and v.args[1].value is None:
                        if gen_says_all_equal(v.args[0], False, True):
                            return True
        return False

    def branch(self, test, pol, facts, via):
        for atom, p in self._atoms(test, pol):
            if via == "if" and self._whole_stream_test(atom, p):
                self.kinds.add("G")
                self.guard_nodes.append(test)
                facts = facts | {"GUARDED"}
                continue
            if p and via == "if" and self._single_object_test(atom):
                # `isinstance(stream, Geometry)`: on this side the "stream" is one object, nothing is combined
                facts = facts | {"GUARDED"}
                continue
            cc = self.crs_compare(atom)
            if cc is None:
                continue
            is_eq, roots = cc
            equal_here = (is_eq and p) or ((not is_eq) and (not p))
            if not equal_here:
                if via != "assert":
                    facts = facts | {"MISMATCH"}
                continue
            if via == "assert":
                self.assert_guards += 1
                continue
            cov = self.covers(roots, elementwise=self._is_elementwise(atom))
            if cov == "ALL":
                self.kinds.add("G")
                self.guard_nodes.append(test)
                facts = facts | {"GUARDED"}
            elif cov == "ELEM":
                self.kinds.add("G")
                self.guard_nodes.append(test)
                facts = facts | {"GUARDED-ELEM"}
        # mismatch side must raise a ValueError subclass
        if via == "if":
            st = parent(test)
            if isinstance(st, ast.If):
                for atom, p in self._atoms(test, pol):
                    cc = self.crs_compare(atom)
                    if cc is None:
                        continue
                    is_eq, _ = cc
                    mismatch_here = (is_eq and not p) or ((not is_eq) and p)
                    if mismatch_here:
                        blk = st.body if pol else st.orelse
                        for n in blk:
                            for r in ast.walk(n):
                                if isinstance(r, ast.Raise) and not _is_valueerror(self.prog, r.exc, self.fi):
                                    if r not in self.bad_raises:
                                        self.bad_raises.append(r)
        return facts

    def _single_object_test(self, atom: ast.AST) -> bool:
        ob = self.ob
        if ob.stream is None or not set(ob.operands) <= {ob.stream}:
            return False
        if not (isinstance(atom, ast.Call) and call_name(atom) == "isinstance" and len(atom.args) == 2):
            return False
        if not (isinstance(atom.args[0], ast.Name) and atom.args[0].id == ob.stream):
            return False
        names = [dotted(x) or "" for x in (atom.args[1].elts if isinstance(atom.args[1], ast.Tuple) else [atom.args[1]])]
        containers = {"list", "tuple", "set", "frozenset", "dict", "Sequence", "Iterable", "Iterator", "Collection", "List", "Tuple"}
        return bool(names) and all(n and n.split(".")[-1] not in containers for n in names)

    def _is_elementwise(self, e: ast.AST) -> bool:
        """Does the comparison involve a loop/comprehension variable over the stream?"""
        if self.ob.stream is None:
            return False
        for n in ast.walk(e):
            if isinstance(n, ast.Name):
                for kind, v in self.org.defs.get(n.id, []):
                    if kind == "elem" and self.ob.stream in self.org.roots(v):
                        return True
                    # first = stream[0]
                    if kind == "val" and isinstance(v, ast.Subscript) and not isinstance(v.slice, ast.Slice) and self.ob.stream in self.org.roots(v.value):
                        return True
            if isinstance(n, ast.Subscript) and not isinstance(n.slice, ast.Slice) and self.ob.stream in self.org.roots(n.value):
                return True
        return False

    def guarding_call(self, c: ast.Call) -> Optional[FrozenSet[str]]:
        """Roots handed to a callee proven guarding (None if callee is not guarding)."""
        prog, fi = self.prog, self.fi
        nm = call_name(c)
        # functools.reduce(F, stream)
        if nm == "reduce" and len(c.args) >= 2:
            tg = prog.resolve_callee_expr(c.args[0], fi)
            if tg and all(t.qual in self.guarding for t in tg):
                return frozenset(self.org.roots(c.args[1])) | {"*stream*"}
            return None
        # map(F, stream) / map(partial(F, reference=r), stream): F runs for every element of the stream
        if nm == "map" and len(c.args) >= 2:
            f0: ast.AST = c.args[0]
            extra: Set[str] = set()
            if isinstance(f0, ast.Name):
                for _k, v in self.org.defs.get(f0.id, []):
                    if isinstance(v, ast.Call) and call_name(v) == "partial":
                        f0 = v
            if isinstance(f0, ast.Call) and call_name(f0) == "partial" and f0.args:
                for a in list(f0.args[1:]) + [k.value for k in f0.keywords]:
                    extra |= self.org.roots(a)
                f0 = f0.args[0]
            tg = prog.resolve_callee_expr(f0, fi)
            if tg and all(t.qual in self.guarding for t in tg):
                roots_m: Set[str] = set(extra)
                for a in c.args[1:]:
                    roots_m |= self.org.roots(a)
                return frozenset(roots_m) | {"*stream*"}
            return None
        callees = prog.resolve_call(c, fi)
        if not callees and isinstance(c.func, ast.Attribute):
            # unresolved receiver: every package method of that name must be guarding
            cands = prog.methods_named(c.func.attr)
            recv_roots = self.org.roots(c.func.value)
            if cands and recv_roots & self.operand_roots and all(m.qual in self.guarding for m in cands):
                callees = cands
        if not callees or not all(t.qual in self.guarding for t in callees):
            return None
        if any(t.qual in self.weak for t in callees):
            self.via_weak = True
        roots: Set[str] = set()
        if isinstance(c.func, ast.Attribute):
            roots |= self.org.roots(c.func.value)
        for a in c.args:
            roots |= self.org.roots(a)
        for k in c.keywords:
            roots |= self.org.roots(k.value)
        return frozenset(roots)

    def transfer(self, node, facts, part):
        # kill: re-binding an operand invalidates guards unless it is the reconciliation itself
        rebound = assigned_names(node, part) & self.operand_roots
        exprs = stmt_exprs(node, part)
        if rebound and part == "stmt":
            recon = False
            for e in exprs:
                for n in ast.walk(e):
                    if isinstance(n, ast.Call) and call_name(n) in RECONCILE_CALLS:
                        recon = True
            if not recon and not self._is_normalising_rebind(node):
                facts = facts - {"GUARDED", "GUARDED-ELEM", "GUARDED-ALLSTREAM"}
        for e in exprs:
            for n in unconditional_nodes(e):
                if isinstance(n, ast.Call):
                    facts = self._call_fact(n, facts, in_comp=False)
                elif isinstance(n, (ast.GeneratorExp, ast.ListComp, ast.SetComp)):
                    # generator/list argument consumed by the enclosing call: its element
                    # expression runs for every element of the iterated stream
                    for sub in ast.walk(n.elt):
                        if isinstance(sub, ast.Call):
                            facts = self._call_fact(sub, facts, in_comp=True)
        return facts

    def _is_normalising_rebind(self, node) -> bool:
        # geoms = list(geoms) / bb, *bbs = bbs : same values under the same name
        if isinstance(node, ast.Assign):
            v = node.value
            if isinstance(v, ast.Call) and call_name(v) in Origins.PASS_CALLS:
                return True
            if isinstance(v, ast.Name):
                return True
        return False

    def _call_fact(self, c: ast.Call, facts, in_comp: bool):
        roots = self.guarding_call(c)
        if roots is None:
            return facts
        ob = self.ob
        self.guard_nodes.append(c)
        if "*stream*" in roots:
            if ob.stream in roots:
                self.kinds.add("D")
                return facts | {"GUARDED"}
            return facts
        if ob.stream is not None and ob.stream in roots:
            # all tagged arguments must come from the stream (or a single list of it)
            self.kinds.add("D")
            if in_comp or self._args_whole_stream(c):
                return facts | {"GUARDED"}
            return facts | {"GUARDED-ELEM"}
        if len(ob.operands) >= 2 and len(set(ob.operands) & roots) >= 2:
            self.kinds.add("D")
            return facts | {"GUARDED"}
        return facts

    def _args_whole_stream(self, c: ast.Call) -> bool:
        for a in list(c.args) + [k.value for k in c.keywords]:
            # [x for x in stream if isinstance(x, <Tagged>)]: every CRS-tagged element of the stream
            if isinstance(a, (ast.ListComp, ast.GeneratorExp, ast.SetComp)) and len(a.generators) == 1:
                g = a.generators[0]
                if isinstance(g.target, ast.Name) and isinstance(a.elt, ast.Name) and a.elt.id == g.target.id and self.ob.stream in self.org.roots(g.iter):
                    def _tagged_filter(t: ast.AST) -> bool:
                        if not (isinstance(t, ast.Call) and call_name(t) == "isinstance" and len(t.args) == 2 and isinstance(t.args[0], ast.Name) and t.args[0].id == g.target.id):
                            return False
                        nms = [dotted(x) or "" for x in (t.args[1].elts if isinstance(t.args[1], ast.Tuple) else [t.args[1]])]
                        return TAGGED >= {n.split(".")[-1] for n in nms} and TAGGED & {n.split(".")[-1] for n in nms} == {n.split(".")[-1] for n in nms}
                    if all(_tagged_filter(t) for t in g.ifs):
                        return True
            if self.ob.stream in self.org.roots(a) and not self._is_elementwise(a):
                return True
        return False

    def loop_exit(self, st, normal, back, has_break):
        if back is not None and "GUARDED-ELEM" in back and not has_break:
            if self.ob.stream is not None and self.ob.stream in self.org.roots(st.iter):
                return normal | {"GUARDED"}
        return normal

    # -- run ---------------------------------------------------------------------------------
    def run(self) -> List[Tuple[str, int, str]]:
        """Unguarded exits as (kind, line, text)."""
        fl = Flow(
            self.fi.body,
            transfer=self.transfer,
            branch=self.branch,
            mode="must",
            loop_exit=self.loop_exit,
        ).run()
        self.flow = fl
        self.returns_on_mismatch = any("MISMATCH" in ex.facts for ex in fl.normal_exits()) or self.via_weak
        bad: List[Tuple[str, int, str]] = []
        for ex in fl.normal_exits():
            if "GUARDED" in ex.facts:
                continue
            if ex.kind == "return":
                v = ex.node.value  # type: ignore[union-attr]
                if v is None or isinstance(v, ast.Constant):
                    continue  # nothing computed from coordinates
                if isinstance(v, ast.Name) and v.id in self.operand_roots and v.id != self.ob.stream:
                    # returns one operand unchanged
                    pass
            if ex.kind == "fall" and not self.fi.is_generator:
                # falling off the end returns None
                continue
            bad.append((ex.kind, ex.line, short(ex.node) if ex.node is not None else "<end of function>"))
        return bad

    def reconciles(self) -> bool:
        for n in walk_own(self.fi.node):
            if isinstance(n, ast.Call) and call_name(n) in RECONCILE_CALLS:
                roots = set()
                if isinstance(n.func, ast.Attribute):
                    recv = n.func.value
                    if isinstance(recv, ast.Attribute) and recv.attr in ("geom", "_geom"):
                        # shapely's own `line.project(point)` on the raw shapes: a homonym, nothing is re-projected
                        continue
                    roots |= self.org.roots(n.func.value)
                for a in n.args:
                    roots |= self.org.roots(a)
                if len(roots & self.operand_roots) >= 2 or (
                    roots & self.operand_roots and self.ob.stream is None and len(self.ob.operands) >= 2
                ):
                    return True
        # the re-projection may sit in a private helper the operands are handed to (a part split out of this function)
        for n in walk_own(self.fi.node):
            if not isinstance(n, ast.Call) or call_name(n) in RECONCILE_CALLS:
                continue
            roots = set()
            if isinstance(n.func, ast.Attribute):
                roots |= self.org.roots(n.func.value)
            for a in list(n.args) + [k.value for k in n.keywords]:
                roots |= self.org.roots(a)
            if len(roots & self.operand_roots) < 2:
                continue
            for t in self.prog.resolve_call(n, self.fi):
                if _reconciles_inside(self.prog, t, 0):
                    return True
        return False


def _reconciles_inside(prog: Program, t: FuncInfo, depth: int) -> bool:
    """A private function (or one nested in it, or a private callee, two levels) re-projects something derived from its parameters."""
    if depth > 2 or not (t.name.startswith("_") and not t.name.startswith("__") or t.parent is not None):
        return False
    params = set(t.param_names())
    org = Origins(t)
    for n in walk_own(t.node):
        if not isinstance(n, ast.Call):
            continue
        if call_name(n) in RECONCILE_CALLS:
            roots = set()
            if isinstance(n.func, ast.Attribute):
                roots |= org.roots(n.func.value)
            for a in n.args:
                roots |= org.roots(a)
            if roots & params:
                return True
        else:
            for u in prog.resolve_call(n, t):
                if u is not t and _reconciles_inside(prog, u, depth + 1):
                    return True
    return False


def _inherits_table(prog: Program, fi: FuncInfo, _seen: Optional[Set[str]] = None) -> Optional[str]:
    """A private function (leading underscore or nested) every call site of which is in a function the table exempts -
    directly or through other such private functions - is a part split out of that function and shares its contract."""
    if not (fi.name.startswith("_") and not fi.name.startswith("__") or fi.parent is not None):
        return None
    seen = _seen if _seen is not None else set()
    if fi.qual in seen:
        return None
    seen.add(fi.qual)
    sites = prog.callers_of(fi)
    if not sites:
        return None
    via = None
    for g, _call in sites:
        if g.qual in TABLE:
            via = via or g.qual
            continue
        up = _inherits_table(prog, g, seen)
        if up is None:
            return None
        via = via or up
    return via


def rule_crsguard(prog: Program, modules: Optional[Set[str]] = None, must_guard: Optional[List[str]] = None) -> List[Instance]:
    obligations, wrappers = discover(prog)
    guarding: Set[str] = set()
    # methods decorated by a CRS-wrapping decorator are guarding iff the wrapper is
    decorated: Dict[str, str] = {}
    for fi in prog.all_functions():
        for d in fi.decorators:
            tg = prog.resolve_name_expr(d.func if isinstance(d, ast.Call) else d, fi.mod, fi)
            if isinstance(tg, FuncInfo) and tg.qual in wrappers:
                decorated[fi.qual] = tg.qual
    by_qual = {o.fi.qual: o for o in obligations}
    results: Dict[str, Tuple[List[Tuple[str, int, str]], _Analysis]] = {}
    weak: Set[str] = set()
    for _ in range(8):
        changed = False
        for ob in obligations:
            if ob.fi.qual in guarding:
                continue
            if ob.fi.qual in decorated:
                # obligation is carried by the decorator's wrapper
                w = wrappers[decorated[ob.fi.qual]]
                if w.qual in guarding:
                    guarding.add(ob.fi.qual)
                    changed = True
                continue
            an = _Analysis(prog, ob, guarding, wrappers, weak)
            bad = an.run()
            results[ob.fi.qual] = (bad, an)
            if not bad and an.kinds and not an.bad_raises and an.returns_on_mismatch and ob.fi.qual not in weak:
                weak.add(ob.fi.qual)
                changed = True
            if not bad and an.kinds and not an.bad_raises and not an.returns_on_mismatch:
                # usable as a guarding callee only if it never returns normally on a mismatch
                guarding.add(ob.fi.qual)
                changed = True
        if not changed:
            break

    def caller_guarded(fi: FuncInfo) -> Optional[str]:
        """Private helper all of whose call sites sit behind a CRS-equality path condition."""
        if not (fi.name.startswith("_") or fi.parent is not None):
            return None
        sites = prog.callers_of(fi)
        if not sites:
            return None
        for g, call in sites:
            res = results.get(g.qual)
            if res is None or res[1].flow is None:
                return None
            st = enclosing_stmt(call)
            facts = res[1].flow.facts_at(st) if st is not None else None
            if facts is None or "GUARDED" not in facts:
                return None
        return ", ".join(sorted({g.qual for g, _ in sites}))

    out: List[Instance] = []
    for ob in obligations:
        fi = ob.fi
        if ob.helper or ob.silent:
            continue
        if modules is not None and fi.mod.name not in modules:
            continue
        cid = f"{fi.qual}#crs-guard"
        where = fi.where()
        opsdesc = f"operands={ob.operands or ''}{' stream=' + ob.stream if ob.stream else ''}"
        if fi.qual in decorated:
            wq = wrappers[decorated[fi.qual]].qual
            if fi.qual in guarding:
                out.append(Instance("R-CRSGUARD", cid, OK, f"D: decorated by {decorated[fi.qual]} whose wrapper {wq} guards every argument", where))
            else:
                out.append(Instance("R-CRSGUARD", cid, BAD, f"decorated by {decorated[fi.qual]} but its wrapper {wq} does not guard CRSs on every path", where))
            continue
        bad, an = results[fi.qual]
        if an.bad_raises:
            r = an.bad_raises[0]
            out.append(Instance("R-CRSGUARD", cid, BAD, f"CRS mismatch branch raises a non-ValueError: `{short(r)}`", fi.where(r)))
            continue
        if fi.qual in guarding or (not bad and an.kinds and an.returns_on_mismatch and not (must_guard and fi.qual in must_guard)):
            kind = "+".join(sorted(an.kinds))
            gw = fi.where(an.guard_nodes[0]) if an.guard_nodes else where
            out.append(Instance("R-CRSGUARD", cid, OK, f"{kind}: every normal exit is behind a CRS-equality path condition or a guarding callee ({opsdesc})", gw))
            continue
        required = must_guard is not None and fi.qual in must_guard
        cg = None if required else caller_guarded(fi)
        if cg is not None:
            out.append(Instance("R-CRSGUARD", cid, OK, f"G(caller): private helper, every call site ({cg}) is behind a CRS-equality path condition ({opsdesc})", where))
            continue
        if fi.qual in TABLE and not required:
            out.append(Instance("R-CRSGUARD", cid, INFO, f"table: {TABLE[fi.qual]}", where, nontrivial=False))
            continue
        inh = None if required else _inherits_table(prog, fi)
        if inh is not None:
            out.append(Instance("R-CRSGUARD", cid, INFO, f"private helper reached only from {inh}, which is exempt by the table ({TABLE[inh]}): a part split out of it", where, nontrivial=False))
            continue
        if an.reconciles() and not required:
            out.append(Instance("R-CRSGUARD", cid, OK, f"R: re-projects one operand into the other's CRS before combining ({opsdesc})", where))
            continue
        why = "combining operation reaches a normal exit without CRS guard"
        if an.weak_guards:
            why += f"; CRS comparison only inside a conjunction that does not cover the CRS-less case: `{an.weak_guards[0]}`"
        if an.assert_guards:
            why += "; only an assert compares the CRSs (stripped by -O, not a ValueError)"
        if not bad:
            why = "no CRS guard, delegation or reconciliation found in a function combining CRS-tagged operands"
        path = [f"{fi.qual}: entry -> {k} at line {ln}: {txt}" for k, ln, txt in bad]
        out.append(Instance("R-CRSGUARD", cid, BAD, f"{why} ({opsdesc})", where, path=path))

    if must_guard is not None:
        have = {o.fi.qual for o in obligations}
        for q in must_guard:
            if q not in have:
                if prog.maybe_func(q) is None:
                    out.append(Instance("R-CRSGUARD", f"{q}#crs-guard", UNDET, "operation named by the property no longer exists under this name", ""))
                else:
                    out.append(Instance("R-CRSGUARD", f"{q}#crs-guard", UNDET, "operation named by the property is no longer discovered as combining (annotations changed?)", prog.func(q).where()))
    # CRSMismatchError must be a ValueError
    crs_mod = prog.module("crs")
    cme = crs_mod.classes.get("CRSMismatchError")
    if cme is None:
        out.append(Instance("R-CRSGUARD", "crs:CRSMismatchError#is-valueerror", UNDET, "class CRSMismatchError not found", ""))
    else:
        okv = "ValueError" in {b.split(".")[-1] for b in cme.all_ext_bases()}
        out.append(Instance("R-CRSGUARD", "crs:CRSMismatchError#is-valueerror", OK if okv else BAD,
                            "CRSMismatchError derives from ValueError" if okv else "CRSMismatchError is not a ValueError subclass",
                            f"{crs_mod.relpath}:{cme.node.lineno}"))
    return out


# ---------------------------------------------------------------------------------------------
# R-WRAPNAME
# ---------------------------------------------------------------------------------------------


def rule_wrapname(prog: Program) -> List[Instance]:
    _, wrappers = discover(prog)
    out: List[Instance] = []
    for fi in prog.all_functions():
        deco = None
        for d in fi.decorators:
            tg = prog.resolve_name_expr(d.func if isinstance(d, ast.Call) else d, fi.mod, fi)
            if isinstance(tg, FuncInfo) and tg.qual in wrappers:
                deco = tg
        if deco is None:
            continue
        cid = f"{fi.qual}#delegate-name"
        body = [s for s in fi.node.body if not (isinstance(s, ast.Expr) and isinstance(s.value, ast.Constant))]
        ok = False
        why = "body is not a single `return self.<own name>(other)`"
        if len(body) == 1 and isinstance(body[0], ast.Return) and isinstance(body[0].value, ast.Call):
            c = body[0].value
            pn = [p.arg for p in fi.positional_params()]
            if isinstance(c.func, ast.Attribute) and isinstance(c.func.value, ast.Name) and pn and c.func.value.id == pn[0]:
                argn = [a.id if isinstance(a, ast.Name) else None for a in c.args]
                if c.func.attr != fi.name:
                    why = f"delegates to shapely `{c.func.attr}` instead of its own name `{fi.name}`"
                elif argn != pn[1:]:
                    why = f"passes {argn} instead of its parameters {pn[1:]} in order"
                else:
                    ok = True
                    why = f"returns {pn[0]}.{fi.name}({', '.join(pn[1:])})"
        if not ok and why.startswith("body is not"):
            # some other body (e.g. a composition of shapely calls on the raw shapes): nothing to compare a name with
            out.append(Instance("R-WRAPNAME", cid, INFO, "decorated method with a body of its own, not a one-line delegate: not decided", fi.where(), nontrivial=False))
            continue
        out.append(Instance("R-WRAPNAME", cid, OK if ok else BAD, why, fi.where()))
    return out


# ---------------------------------------------------------------------------------------------
# R-RETAG
# ---------------------------------------------------------------------------------------------

CTOR_CRS_POS = {
    # constructor / factory name -> (positional index of crs, keyword name)
    "Geometry": (1, "crs"),
    "BoundingBox": (4, "crs"),
    "GeoBox": (2, "crs"),
    "point": (2, "crs"),
    "multipoint": (1, "crs"),
    "line": (1, "crs"),
    "multiline": (1, "crs"),
    "polygon": (1, "crs"),
    "multipolygon": (1, "crs"),
    "box": (4, "crs"),
    "polygon_from_transform": (2, "crs"),
}

# pixel-space results whose contract is crs=None, one reason each
RETAG_NONE_OK: Dict[str, str] = {
    "geobox:GeoBoxBase.project": "world->pixel projection returns pixel-plane geometry (crs=None by contract)",
    "geobox:GeoBoxBase.qr2sample": "pixel-plane sample points",
    "geobox:GeoBoxBase.compute_crop": "pixel-plane bounding box of the image",
    "geobox:bounding_box_in_pixel_domain": "bounding box in the pixel domain of the reference",
    "geobox:GeoboxTiles.pix_bbox": "pixel-space bounding box of a tile",
    "gcp:GCPMapping.points": "pixel-side control points carry no CRS",
}


def rule_retag(prog: Program, modules: Set[str]) -> List[Instance]:
    """Returned Geometry/BoundingBox/GeoBox constructor calls carry a CRS that originates from an
    operand (self / a parameter / a local derived from them), never a literal None or nothing."""
    out: List[Instance] = []
    for fi in prog.all_functions(modules):
        if fi.is_stub or isinstance(fi.node, ast.Lambda):
            continue
        # does the function have a CRS-carrying operand at all?
        own = fi.owner_class
        has_tagged_self = own is not None and (own.name in TAGGED or any(c.name in TAGGED for c in own.mro())) and fi.self_name is not None
        tagged_params = []
        for p in fi.params():
            names, contained = prog.ann_classes(p.annotation, fi.mod)
            if (names | contained) & TAGGED:
                tagged_params.append(p.arg)
        crs_params = [p.arg for p in fi.params() if p.arg in ("crs", "dst_crs", "output_crs")]
        if not (has_tagged_self or tagged_params):
            continue
        org = Origins(fi)
        k = 0
        for n in walk_own(fi.node):
            if not isinstance(n, ast.Call):
                continue
            nm = call_name(n)
            if nm not in CTOR_CRS_POS:
                continue
            tgt = prog.resolve_name_expr(n.func, fi.mod, fi)
            if tgt is None and not (isinstance(n.func, ast.Attribute) and dotted(n.func.value) in ("geom", "geometry")):
                continue
            if isinstance(n.func, ast.Attribute) and dotted(n.func.value) == "geometry":
                continue  # shapely.geometry.*
            if isinstance(tgt, FuncInfo) and tgt.mod.name not in ("geom", "geobox"):
                continue
            # only value-producing positions: returned / yielded / assigned then returned -> keep all
            pos, kw = CTOR_CRS_POS[nm]
            crs_arg = None
            first_star = next((i for i, a in enumerate(n.args) if isinstance(a, ast.Starred)), None)
            if n.args and not isinstance(n.args[0], ast.Starred) and nm == "Geometry":
                r0 = org.roots(n.args[0])
                if len(n.args) == 1 and not n.keywords and (r0 & (set(tagged_params) | ({fi.self_name} if has_tagged_self else set()))):
                    # Geometry(other_geometry) clones, CRS included
                    k += 1
                    out.append(Instance("R-RETAG", f"{fi.qual}#retag:{nm}:{k}", OK, f"`{short(n)}` clones an operand (CRS included)", fi.where(n)))
                    continue
            if first_star is not None and first_star <= pos:
                # BoundingBox(*bbox, crs=...) style: only keyword is reliable; positional after star
                for kk in n.keywords:
                    if kk.arg == kw:
                        crs_arg = kk.value
                if crs_arg is None and n.args and not isinstance(n.args[-1], ast.Starred):
                    crs_arg = n.args[-1]
            else:
                if pos < len(n.args):
                    crs_arg = n.args[pos]
                for kk in n.keywords:
                    if kk.arg == kw:
                        crs_arg = kk.value
            k += 1
            cid = f"{fi.qual}#retag:{nm}:{k}"
            where = fi.where(n)
            if crs_arg is None and first_star is not None and first_star == 0 and not any(kk.arg == kw for kk in n.keywords):
                out.append(Instance("R-RETAG", cid, UNDET, f"`{short(n)}` is built from a starred sequence only: whether a CRS is among its components is not visible here", where))
                continue
            if crs_arg is None or (isinstance(crs_arg, ast.Constant) and crs_arg.value is None):
                explicit_none = crs_arg is not None
                # a box the author explicitly labels CRS-less, computed from a pixel translation that was guarded as near-integer:
                # the pixel-plane box of the grid-compatibility helpers, wherever that code lives (function, method, other module)
                pixel_plane = explicit_none and nm == "BoundingBox" and any(isinstance(x, ast.Call) and call_name(x) == "is_almost_int" for x in walk_own(fi.node))
                if pixel_plane:
                    out.append(Instance("R-RETAG", cid, INFO, "explicit crs=None on a box computed from a near-integer pixel translation: pixel-plane box by contract", where, nontrivial=False))
                    continue
                if fi.qual in RETAG_NONE_OK:
                    out.append(Instance("R-RETAG", cid, INFO, f"crs=None by contract: {RETAG_NONE_OK[fi.qual]}", where, nontrivial=False))
                else:
                    out.append(Instance("R-RETAG", cid, BAD, f"`{short(n)}` builds a {nm} without the operands' CRS (crs missing or None)", where))
                continue
            roots = org.roots(crs_arg)
            allowed = set(tagged_params) | set(crs_params) | ({fi.self_name} if has_tagged_self and fi.self_name else set())
            # `X.crs` where X is the result of a function whose contract is crs=None (pixel-plane results):
            # that attribute is always None, the operands' CRS never reaches the constructor
            pix_src = None
            if isinstance(crs_arg, ast.Attribute) and crs_arg.attr in ("crs", "_crs") and isinstance(crs_arg.value, ast.Name):
                pending = [crs_arg.value.id]
                seen_n = set()
                while pending:
                    nm_ = pending.pop()
                    if nm_ in seen_n:
                        continue
                    seen_n.add(nm_)
                    for _, v_ in org.defs.get(nm_, []):
                        for c_ in ast.walk(v_):
                            if isinstance(c_, ast.Call):
                                t_ = prog.resolve_name_expr(c_.func, fi.mod, fi)
                                if isinstance(t_, FuncInfo) and t_.qual in RETAG_NONE_OK:
                                    pix_src = t_.qual
                        # one hop through plain copies / calls over the name (bbox = bbox_intersection(<pixel boxes>))
                        pending += [x.id for x in ast.walk(v_) if isinstance(x, ast.Name) and x.id in org.defs and x.id not in seen_n][:6]
            if pix_src is not None and nm not in ("GeoBox", "GCPGeoBox"):
                out.append(Instance("R-RETAG", cid, INFO, f"`{short(n, 50)}` stays in the pixel plane of {pix_src} (crs=None carried on purpose)", where, nontrivial=False))
            elif pix_src is not None:
                out.append(Instance("R-RETAG", cid, BAD, f"`{short(n, 60)}` is tagged with `{short(crs_arg)}`, but `{crs_arg.value.id}` comes from {pix_src}, whose results are in the pixel plane (crs=None by contract): the operands' CRS is lost", where))
            elif roots & allowed:
                out.append(Instance("R-RETAG", cid, OK, f"{nm}(...) tagged with `{short(crs_arg, 40)}` originating from {sorted(roots & allowed)}", where))
            elif isinstance(crs_arg, ast.Constant) or _is_literal_crs(crs_arg):
                out.append(Instance("R-RETAG", cid, INFO, f"{nm}(...) tagged with literal CRS `{short(crs_arg, 40)}`", where, nontrivial=False))
            else:
                out.append(Instance("R-RETAG", cid, INFO, f"{nm}(...) crs `{short(crs_arg, 40)}` not traced to an operand (roots={sorted(roots)})", where, nontrivial=False))
    return out


def _is_literal_crs(e: ast.AST) -> bool:
    return isinstance(e, ast.Call) and call_name(e) == "CRS" and all(isinstance(a, ast.Constant) for a in e.args)
