"""Generic slip rules added after the round-6 seeds.  Every rule here reports only on *positive evidence*: a
construct that is wrong whatever the surrounding code looks like.  Expected count on a healthy tree is zero, so each
has a positive control (controls.py).

R-INFALSE    `x in (None, False)` / `x not in (None, False, ...)`: membership is decided by ==, and 0 == False, 0.0 == False,
             1 == True - a numeric option value of zero is taken for "not set".
R-ACQUIRE    `lock.acquire(timeout=..)` / `acquire(blocking=False)` can return False; a critical section entered without
             looking at the result runs unlocked exactly when it matters.
R-TWOCORNER  a box mapped into another frame through two opposite corners only ((left, bottom) and (right, top)) is the image
             of the box only for axis-aligned, unmirrored mappings; unless the path is known axis aligned, all four corners
             (or the polygon) have to be mapped.
R-SIGNMAG+   extension of R-SIGNMAG to locals unpacked from a resolution (`rx, ry = self.resolution.xy`): max()/min() over
             signed products of them.
"""
from __future__ import annotations

import ast
from typing import List, Optional, Set

from ..astutil import call_name, names_in
from ..cfg import Conditions
from ..loader import FuncInfo, Program, enclosing_stmt, parent, short, walk_own
from ..report import BAD, OK, Instance


def rule_infalse(prog: Program, modules: Optional[Set[str]] = None) -> List[Instance]:
    out: List[Instance] = []
    for fi in prog.all_functions(modules):
        for n in walk_own(fi.node):
            if not (isinstance(n, ast.Compare) and len(n.ops) == 1 and isinstance(n.ops[0], (ast.In, ast.NotIn)) and isinstance(n.comparators[0], (ast.Tuple, ast.List, ast.Set))):
                continue
            elts = n.comparators[0].elts
            consts = [e.value for e in elts if isinstance(e, ast.Constant)]
            has_bool = any(isinstance(c, bool) for c in consts)
            has_none = any(c is None for c in consts)
            if not (has_bool and has_none):
                continue
            out.append(Instance("R-INFALSE", f"{fi.qual}#in-false:{short(n, 40)}", BAD,
                                f"`{short(n, 60)}` tests membership with ==: 0 == False and 0.0 == False, so a numeric value of zero (nodata=0, an offset of 0) is classified with None/False as 'not set'; test `is None` / `is False` instead", fi.where(n)))
    return out


def rule_acquire(prog: Program, modules: Optional[Set[str]] = None) -> List[Instance]:
    out: List[Instance] = []
    for fi in prog.all_functions(modules):
        for n in walk_own(fi.node):
            if not (isinstance(n, ast.Call) and isinstance(n.func, ast.Attribute) and n.func.attr == "acquire"):
                continue
            may_fail = any(k.arg == "timeout" and not (isinstance(k.value, ast.Constant) and k.value.value in (None, -1)) for k in n.keywords) \
                or any(k.arg in ("blocking", "block") and isinstance(k.value, ast.Constant) and k.value.value is False for k in n.keywords) \
                or any(isinstance(a, ast.Constant) and a.value is False for a in n.args[:1])
            if not may_fail:
                continue
            st = enclosing_stmt(n)
            # the result decides something before the protected work: it is the test of an if/while/assert, or is bound to
            # a name that is tested outside a `finally:` block
            p = parent(n)
            decided = isinstance(p, (ast.If, ast.While, ast.Assert)) or (isinstance(p, ast.UnaryOp) and isinstance(parent(p), (ast.If, ast.While, ast.Assert)))
            if not decided and isinstance(st, ast.Assign) and len(st.targets) == 1 and isinstance(st.targets[0], ast.Name):
                nm = st.targets[0].id
                for x in walk_own(fi.node):
                    if isinstance(x, (ast.If, ast.While, ast.Assert)) and nm in names_in(x.test):
                        q: Optional[ast.AST] = x
                        in_finally = False
                        while q is not None and q is not fi.node:
                            pq = parent(q)
                            if isinstance(pq, ast.Try) and q in pq.finalbody:
                                in_finally = True
                            q = pq
                        if not in_finally:
                            decided = True
            out.append(Instance("R-ACQUIRE", f"{fi.qual}#acquire:{short(n, 40)}", OK if decided else BAD,
                                f"result of `{short(n, 40)}` is looked at before the protected work" if decided else
                                f"`{short(n, 50)}` can time out and return False, but nothing tests the result before the protected section runs (it is at most used to decide about release()): on a timeout the body runs without the lock", fi.where(n)))
    return out


POINT_MAPPERS = {"wld2pix", "pix2wld", "transform", "itransform", "pt2idx"}
LOWS = {"left", "bottom", "xmin", "ymin", "x0", "y0", "minx", "miny"}
HIGHS = {"right", "top", "xmax", "ymax", "x1", "y1", "maxx", "maxy"}


def _corner_kind(args: List[ast.AST]) -> Optional[str]:
    """'lo' for (left, bottom)-like, 'hi' for (right, top)-like argument pairs (attributes or plain names)."""
    if len(args) == 1 and isinstance(args[0], (ast.Tuple, ast.List)):
        args = list(args[0].elts)
    if len(args) != 2:
        return None
    nm = []
    for a in args:
        if isinstance(a, ast.Attribute):
            nm.append(a.attr)
        elif isinstance(a, ast.Name):
            nm.append(a.id)
        else:
            return None
    if set(nm) <= LOWS and len(set(nm)) == 2:
        return "lo"
    if set(nm) <= HIGHS and len(set(nm)) == 2:
        return "hi"
    return None


def rule_twocorner(prog: Program, modules: Optional[Set[str]] = None) -> List[Instance]:
    out: List[Instance] = []
    for fi in prog.all_functions(modules):
        sites = {"lo": [], "hi": [], "mixed": []}
        for n in walk_own(fi.node):
            args = None
            if isinstance(n, ast.Call) and (call_name(n) in POINT_MAPPERS or (isinstance(n.func, ast.Name) and any(
                    isinstance(x, ast.Assign) and any(isinstance(t, ast.Name) and t.id == n.func.id for t in x.targets) and isinstance(x.value, ast.Attribute) and x.value.attr in POINT_MAPPERS for x in walk_own(fi.node)))):
                args = list(n.args)
            elif isinstance(n, ast.BinOp) and isinstance(n.op, ast.Mult) and isinstance(n.right, ast.Tuple) and len(n.right.elts) == 2:
                args = list(n.right.elts)  # A * (x, y)
            if args is None:
                continue
            k = _corner_kind(args)
            if k is not None:
                sites[k].append(n)
            elif len(args) == 2 and all(isinstance(a, (ast.Attribute, ast.Name)) for a in args):
                nm = {a.attr if isinstance(a, ast.Attribute) else a.id for a in args}
                if nm & LOWS and nm & HIGHS:
                    sites["mixed"].append(n)
        if len(sites["lo"]) == 1 and len(sites["hi"]) == 1 and not sites["mixed"]:
            n = sites["lo"][0]
            cond = Conditions(fi.body)
            cs = cond.conds_at(enclosing_stmt(n)) if enclosing_stmt(n) is not None else []
            aligned = any(pol and any(w in key for w in ("axis_aligned", "is_affine_st", "is_rectilinear", "rotation")) for key, pol in cs)
            out.append(Instance("R-TWOCORNER", f"{fi.qual}#two-corners:{short(n, 40)}", OK if aligned else BAD,
                                "two opposite corners are mapped only on a path known to be axis aligned" if aligned else
                                f"`{short(sites['lo'][0], 40)}` and `{short(sites['hi'][0], 40)}` map a box through its (low, low) and (high, high) corners only: under rotation, shear or a mirrored axis the other two corners stick out - the result is not the image of the box (map all four corners or the polygon)", fi.where(n)))
    return out


def rule_signmag_locals(prog: Program, modules: Optional[Set[str]] = None) -> List[Instance]:
    out: List[Instance] = []
    for fi in prog.all_functions(modules):
        signed: Set[str] = set()
        for n in walk_own(fi.node):
            if isinstance(n, ast.Assign) and len(n.targets) == 1 and isinstance(n.targets[0], (ast.Tuple, ast.List)) and isinstance(n.value, ast.Attribute) and n.value.attr in ("xy", "yx") \
                    and isinstance(n.value.value, ast.Attribute) and n.value.value.attr == "resolution":
                signed |= {t.id for t in n.targets[0].elts if isinstance(t, ast.Name)}
            if isinstance(n, ast.Assign) and len(n.targets) == 1 and isinstance(n.targets[0], ast.Name) and isinstance(n.value, ast.Attribute) and n.value.attr in ("x", "y") \
                    and isinstance(n.value.value, ast.Attribute) and n.value.value.attr == "resolution":
                signed.add(n.targets[0].id)
        if not signed:
            continue
        for n in walk_own(fi.node):
            if not (isinstance(n, ast.Call) and isinstance(n.func, ast.Name) and n.func.id in ("max", "min") and len(n.args) >= 2):
                continue
            raw = []
            for a in n.args:
                used = [x for x in ast.walk(a) if isinstance(x, ast.Name) and x.id in signed]
                if not used:
                    continue
                # every use sits under abs()
                def under_abs(x: ast.AST) -> bool:
                    q = parent(x)
                    while q is not None and q is not n:
                        if isinstance(q, ast.Call) and call_name(q) in ("abs", "fabs", "hypot"):
                            return True
                        q = parent(q)
                    return False
                if not all(under_abs(x) for x in used):
                    raw.append(a)
            if not raw:
                continue
            out.append(Instance("R-SIGNMAG", f"{fi.qual}#res-magnitude-local:{short(n, 40)}", BAD,
                                f"`{short(n, 60)}` aggregates values built from signed resolution components ({', '.join(sorted(signed))}) without abs(): a sign fix written for the north-up case (`-ny*ry`) turns negative for a raster mirrored the other way, the 'largest' span is then negative", fi.where(n)))
    return out


def rule_reciprocal(prog: Program, modules: Optional[Set[str]] = None) -> List[Instance]:
    """R-RECIP. `floor(q * inv)` with `inv = 1.0 / size` is not `floor(q / size)`: for many sizes `k * size * (1 / size)` is one
    ulp below k, so a value exactly on a bin / pixel edge lands in the previous bin. A directional rounding (floor, ceil,
    int, trunc) must see the quotient itself, not a product with a stored reciprocal."""
    out: List[Instance] = []

    def is_recip(v: ast.AST) -> bool:
        return isinstance(v, ast.BinOp) and isinstance(v.op, ast.Div) and isinstance(v.left, ast.Constant) and v.left.value in (1, 1.0)

    for mod in sorted(modules or prog.modules):
        if mod not in prog.modules:
            continue
        fns = prog.all_functions({mod})
        recip_attrs: Set[str] = set()
        for fi in fns:
            for n in walk_own(fi.node):
                if isinstance(n, ast.Assign) and is_recip(n.value):
                    for t in n.targets:
                        if isinstance(t, ast.Attribute):
                            recip_attrs.add(t.attr)
        for fi in fns:
            # only reciprocals *stored on an object* and used elsewhere in place of the division (a cached 1/size); a local
            # `s_ = 1.0 / s` of an inverse map computed on the spot is the author's explicit arithmetic and is left alone
            recip_names: Set[str] = set()
            if not recip_attrs:
                continue
            for n in walk_own(fi.node):
                if not (isinstance(n, ast.Call) and call_name(n) in ("floor", "ceil", "int", "trunc") and n.args):
                    continue
                for m in ast.walk(n.args[0]):
                    if isinstance(m, ast.BinOp) and isinstance(m.op, ast.Mult):
                        for side in (m.left, m.right):
                            if (isinstance(side, ast.Name) and side.id in recip_names) or (isinstance(side, ast.Attribute) and side.attr in recip_attrs):
                                out.append(Instance("R-RECIP", f"{fi.qual}#recip:{short(n, 40)}", BAD,
                                                    f"`{short(n, 60)}` rounds a product with the stored reciprocal `{short(side)}`: k*size*(1/size) can be one ulp below k (size 49, 98, 150 ...), a point exactly on an edge is assigned to the previous bin; divide instead", fi.where(n)))
    return out
