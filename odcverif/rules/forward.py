"""R-FORWARD: options are used and wired straight."""
from __future__ import annotations

import ast
from typing import Dict, List, Optional, Set, Tuple

from ..astutil import Origins, call_name, names_in
from ..loader import ClassInfo, FuncInfo, Program, short, walk_own
from ..report import BAD, INFO, OK, UNDET, Instance

# (caller qual, callee name, parameter) -> reason: deliberately not forwarded
NOFORWARD: Dict[Tuple[str, str, str], str] = {
    ("cog._mpu:_finalizer_dask_op", "merge", "write"): "header merge must not get the writer, header bytes stay in left_data until the final flush",
    ("geom:Geometry.to_crs", "buffer", "resolution"): "homonym: buffer's resolution is the number of segments per quarter circle",
    ("overlap:_relative_rois", "roi_from_points", "padding"): "second call deliberately passes padding=0 (padding applied once); first call forwards it",
    ("overlap:_relative_rois", "roi_from_points", "align"): "alignment is applied to the source ROI only; first call forwards it",
    ("geom:BoundingBox.qr2sample", "boundary", "n"): "not a parameter of boundary",
    ("geobox:GeoBoxBase.explore", "explore", "grid_lines"): "grid_lines selects a second layer, not an option of Geometry.explore",
    ("geobox:GeoBoxBase.explore", "grid_lines", "grid_lines"): "homonym: boolean switch vs method",
    ("cog._rio:write_cog", "write_cog_layers", "overview_resampling"): "external overviews are written as given, nothing to resample",
    ("cog._rio:write_cog_layers", "_write_cog", "overwrite"): "layers go to in-memory side-car files; the destination was checked with overwrite already",
    ("cog._rio:write_cog_layers", "_write_cog", "ovr_blocksize"): "first pass writes single images without overviews; ovr_blocksize is applied by the copy through GDAL_TIFF_OVR_BLOCKSIZE",
    ("cog._rio:write_cog_layers", "_write_cog", "intermediate_compression"): "already folded into first_pass_cfg as explicit creation options",
    ("cog._tifffile:save_cog_with_dask", "_norm_compression_tifffile", "kw"): "passed as kw=kw",
    ("_xr_interop:xr_zeros", "wrap_xr", "geobox"): "positional second argument",
    ("geobox:GeoBox.from_geopolygon", "to_crs", "resolution"): "homonym: pixel resolution of the grid vs densification distance of Geometry.to_crs",
    ("overlap:compute_output_geobox", "to_crs", "resolution"): "homonym: output pixel size vs densification distance of Geometry.to_crs (the projected geometry is the one-pixel probe)",
    ("geom:lonlat_bounds", "to_crs", "resolution"): "lonlat_bounds densifies with segmented(resolution) itself before projecting",
    ("geobox:GeoBoxBase.compute_zoom_to", "from_bbox", "shape"): "call sits in the `shape is None` branch, the grid is resolution-driven there",
    ("data.__init__:ocean_geom", "__init__", "crs"): "features are lon/lat GeoJSON; the requested crs is applied by to_crs afterwards",
    ("math:snap_affine", "snap_scale", "tol"): "homonym: snap_affine's tol is the rotation tolerance; scales are snapped with stol",
}

# parameters that exist for interface compatibility and are intentionally unused
UNUSED_OK: Dict[Tuple[str, str], str] = {
    ("cog._tifffile:_make_empty_cog", "compressionargs"): "",
}


def _is_used(fi: FuncInfo, name: str) -> bool:
    for n in ast.walk(fi.node):
        if isinstance(n, ast.Name) and n.id == name and isinstance(n.ctx, (ast.Load, ast.Del)):
            return True
    return False


def rule_unused(prog: Program, modules: Optional[Set[str]] = None) -> List[Instance]:
    out: List[Instance] = []
    for fi in prog.all_functions(modules):
        if fi.is_stub or isinstance(fi.node, ast.Lambda):
            continue
        if fi.cls is not None and fi.cls.name in ("PartsWriter", "RoiTiles", "PointTransform", "CRSLike", "SupportsCoords", "NormalizedSlice"):
            continue
        if fi.name.startswith("__") and fi.name.endswith("__") and fi.name not in ("__init__", "__call__"):
            continue
        params = [p.arg for p in fi.params()]
        if fi.is_method and not fi.is_static and params:
            params = params[1:]
        unused = []
        for p in params:
            if p.startswith("_") or p in ("kw", "kwargs"):
                continue
            if not _is_used(fi, p):
                unused.append(p)
        cid = f"{fi.qual}#params-used"
        decos = {short(d) for d in fi.decorators}
        if unused and ("@" in fi.qual or any(d.endswith(".register") or "singledispatch" in d or d.endswith("overload") for d in decos)):
            # one of several same-named variants (the one bound is chosen by a condition) or an overload registered with a
            # dispatcher: the signature is dictated by the family, a variant need not read every parameter
            out.append(Instance("R-FORWARD", cid, INFO, f"variant / registered overload with a dictated signature: {unused} unread", fi.where(), nontrivial=False))
            continue
        if unused:
            out.append(Instance("R-FORWARD", cid, BAD, f"parameter(s) {unused} are never read: the option is silently ignored", fi.where()))
        elif params:
            out.append(Instance("R-FORWARD", cid, OK, f"all {len(params)} parameter(s) are read", fi.where(), nontrivial=len(params) > 0))
    return out


def rule_crosswire(prog: Program, modules: Optional[Set[str]] = None) -> List[Instance]:
    out: List[Instance] = []
    for fi in prog.all_functions(modules):
        if fi.is_stub:
            continue
        params = set(fi.param_names())
        f: Optional[FuncInfo] = fi.parent
        while f is not None:
            params |= set(f.param_names())
            f = f.parent
        for n in walk_own(fi.node):
            if not isinstance(n, ast.Call):
                continue
            for k in n.keywords:
                if k.arg is None or not isinstance(k.value, ast.Name):
                    continue
                if k.arg in params and k.value.id in params and k.arg != k.value.id:
                    out.append(Instance("R-FORWARD", f"{fi.qual}#crosswire:{call_name(n)}:{k.arg}<-{k.value.id}", BAD,
                                        f"`{call_name(n)}(... {k.arg}={k.value.id} ...)`: both are parameters of {fi.name}; option {k.arg} receives the value of {k.value.id}", fi.where(n)))
                elif k.arg in params and k.value.id == k.arg:
                    out.append(Instance("R-FORWARD", f"{fi.qual}#wire:{call_name(n)}:{k.arg}", OK, f"{k.arg}={k.arg}", fi.where(n)))
    return out


def _optional_params(g: FuncInfo) -> Set[str]:
    a = g.args
    pos = list(a.posonlyargs) + list(a.args)
    out = {p.arg for p in pos[len(pos) - len(a.defaults):]} if a.defaults else set()
    out |= {p.arg for p in a.kwonlyargs}
    return out


def _callee_param_names(g: FuncInfo) -> List[str]:
    ps = [p.arg for p in g.params()]
    if g.is_method and not g.is_static and ps:
        ps = ps[1:]
    return ps


def _passes(call: ast.Call, callee: FuncInfo, pname: str, caller_param: str, deps=None) -> bool:
    """Does this call hand the caller's ``caller_param`` to the callee's ``pname``?"""
    names_of = (lambda e: names_in(e) | deps(e)) if deps is not None else names_in
    for k in call.keywords:
        if k.arg == pname and caller_param in names_of(k.value):
            return True
        if k.arg is None and isinstance(k.value, ast.Name):
            return True  # **kw : cannot tell, assume forwarded
        if k.arg is None and isinstance(k.value, ast.Dict):
            return True
    cps = [p.arg for p in callee.positional_params()]
    if callee.is_method and not callee.is_static and cps:
        # bound call (x.m(...)) drops self; unbound Class.m(self, ...) keeps it; Class(...) drops it
        explicit_init = isinstance(call.func, ast.Attribute) and call.func.attr == "__init__"
        if callee.name == "__init__" and not explicit_init:
            cps = cps[1:]
        elif isinstance(call.func, ast.Attribute) and not explicit_init and not (isinstance(call.func.value, ast.Name) and call.func.value.id[:1].isupper()):
            cps = cps[1:]
    for i, a in enumerate(call.args):
        if isinstance(a, ast.Starred):
            return True
        if i < len(cps) and cps[i] == pname and caller_param in names_of(a):
            return True
    return False


def _sets_option(call: ast.Call, callee: FuncInfo, pname: str) -> bool:
    if any(k.arg == pname for k in call.keywords) or any(k.arg is None for k in call.keywords):
        return True
    names = _callee_param_names(callee)
    if pname in names:
        idx = names.index(pname)
        if callee.is_method and not callee.is_static and isinstance(call.func, ast.Attribute):
            pass
        return len(call.args) > idx or any(isinstance(a, ast.Starred) for a in call.args)
    return False


def _arms(n: ast.AST) -> List[Tuple[int, str]]:
    from ..loader import parent

    out: List[Tuple[int, str]] = []
    ch: Optional[ast.AST] = n
    p = parent(n)
    while p is not None:
        if isinstance(p, ast.If):
            arm = "body" if any(ch is x for x in p.body) else "orelse" if any(ch is x for x in p.orelse) else "test"
            out.append((id(p), arm))
        ch, p = p, parent(p)
    return out


def _exclusive(a: ast.AST, b: ast.AST) -> bool:
    aa, bb = dict(_arms(a)), dict(_arms(b))
    return any(k in bb and bb[k] != v and "test" not in (v, bb[k]) for k, v in aa.items())


def rule_forward(prog: Program, modules: Optional[Set[str]] = None) -> List[Instance]:
    out: List[Instance] = []
    for fi in prog.all_functions(modules):
        if fi.is_stub or isinstance(fi.node, ast.Lambda):
            continue
        params = [p for p in fi.param_names() if p not in ("self", "cls")]
        if not params:
            continue
        org = Origins(fi)
        by_callee: Dict[str, List[Tuple[ast.Call, FuncInfo]]] = {}
        for call, callee in prog.callees(fi):
            if callee is fi:
                continue
            by_callee.setdefault(callee.qual, []).append((call, callee))
        # nested functions / lambdas inside fi are part of its body for this purpose
        for nf in fi.nested.values():
            for call, callee in prog.callees(nf):
                by_callee.setdefault(callee.qual, []).append((call, callee))
        # a callee bound with functools.partial in this function receives (some of) its options at the later call of the
        # partial object, which is not a call site of the callee: not decided here
        via_partial: Set[str] = set()
        for g_ in [fi] + list(fi.nested.values()):
            for n_ in walk_own(g_.node):
                if isinstance(n_, ast.Call) and call_name(n_) == "partial" and n_.args:
                    for t_ in prog.resolve_callee_expr(n_.args[0], g_):
                        via_partial.add(t_.qual)
        for cq, sites in sorted(by_callee.items()):
            callee = sites[0][1]
            if cq in via_partial:
                continue
            if callee.name == "__init__" and callee.cls is not None and callee.cls.name in ("MPUChunk",):
                continue
            cps = _callee_param_names(callee)
            copt = _optional_params(callee)
            for p in params:
                if p not in cps or p not in copt or p.startswith("_"):
                    continue
                cid = f"{fi.qual}#forward:{callee.name}:{p}"
                if any(_passes(call, callee, p, p) for call, _ in sites):
                    out.append(Instance("R-FORWARD", cid, OK, f"{p} reaches {callee.qual}", fi.where(sites[0][0])))
                    # sibling call sites: the same callee called several times from one function, the option handed over
                    # at one site and left to its default at another (Engler: inconsistent within one function)
                    if len(sites) >= 2 and (fi.qual, callee.name, p) not in NOFORWARD:
                        passing = [call for call, _c in sites if _passes(call, callee, p, p)]
                        for k, (call, _c) in enumerate(sites):
                            # only true alternatives: the site sits in another arm of the same `if` as a site that passes
                            # the option, and does not set the option at all (an explicit other value is a decision)
                            if _sets_option(call, callee, p) or not any(_exclusive(call, q) for q in passing):
                                continue
                            if not (_passes(call, callee, p, p) or _passes(call, callee, p, p, org.deps)):
                                out.append(Instance("R-FORWARD", f"{cid}:site{k}", BAD,
                                                    f"`{short(call, 60)}` leaves `{p}` to {callee.name}'s default although {fi.name} passes its own `{p}` to the same callee at another call site: the two branches work with different values of the option", fi.where(call)))
                    continue
                # the caller may have renamed/normalised it:  crs = norm_crs(crs) is still `crs`
                key = (fi.qual, callee.name, p)
                if key in NOFORWARD:
                    out.append(Instance("R-FORWARD", cid, INFO, f"table: {NOFORWARD[key]}", fi.where(sites[0][0]), nontrivial=False))
                    continue
                # is p handed over under another spelling (some argument expression mentions p)?
                mentioned = any(_passes(call, callee, p, p, org.deps) for call, _ in sites)
                if mentioned:
                    out.append(Instance("R-FORWARD", cid, OK, f"{p} is used to build the arguments of {callee.name}", fi.where(sites[0][0]), nontrivial=False))
                    continue
                out.append(Instance("R-FORWARD", cid, BAD,
                                    f"{fi.name} takes `{p}` and calls {callee.qual}, which also takes `{p}`, but never passes it on: the callee silently uses its default",
                                    fi.where(sites[0][0])))
    return out


def rule_option_keys(prog: Program) -> List[Instance]:
    """xr_reproject packs / _extract_output_geobox_params pops / compute_output_geobox accepts."""
    out: List[Instance] = []
    xr = prog.func("_xr_interop:xr_reproject")
    ex = prog.func("_xr_interop:_extract_output_geobox_params")
    co = prog.func("overlap:compute_output_geobox")
    packed: Set[str] = set()
    wired_ok = True
    for n in walk_own(xr.node):
        if isinstance(n, ast.Assign) and short(n.targets[0]) == "kw" and isinstance(n.value, ast.Dict):
            for k, v in zip(n.value.keys, n.value.values):
                if isinstance(k, ast.Constant):
                    packed.add(k.value)
                    if not (isinstance(v, ast.Name) and v.id == k.value):
                        wired_ok = False
    popped: Set[str] = set()
    for n in walk_own(ex.node):
        if isinstance(n, ast.For) and isinstance(n.iter, (ast.Tuple, ast.List)):
            popped = {e.value for e in n.iter.elts if isinstance(e, ast.Constant)}
    accepted = {p.arg for p in co.args.kwonlyargs}
    ok = packed == popped == accepted and wired_ok and bool(packed)
    if not popped:
        # the extractor may name its keys in a module constant / comprehension instead of a for-loop over a literal tuple
        popped = {c_.value for n_ in walk_own(ex.node) if isinstance(n_, (ast.DictComp, ast.ListComp, ast.GeneratorExp)) for g_ in n_.generators
                  for c_ in (g_.iter.elts if isinstance(g_.iter, (ast.Tuple, ast.List)) else []) if isinstance(c_, ast.Constant)}
        ok = packed == popped == accepted and wired_ok and bool(packed)
    if not popped:
        out.append(Instance("R-FORWARD", "_xr_interop:xr_reproject#option-keys", UNDET, "the option extractor does not list its keys in a literal tuple this clause reads", xr.where()))
    else:
      out.append(Instance("R-FORWARD", "_xr_interop:xr_reproject#option-keys", OK if ok else BAD,
                        f"the {len(packed)} geobox options are packed, extracted and accepted under the same names" if ok
                        else f"option tables disagree: packed {sorted(packed)}, extracted {sorted(popped)}, accepted by compute_output_geobox {sorted(accepted)}, straight={wired_ok}", xr.where()))
    # ODCExtension.output_geobox forwards **kw to compute_output_geobox(gbox, crs, **kw)
    og = prog.func("_xr_interop:ODCExtension.output_geobox")
    ok = any(isinstance(n, ast.Call) and call_name(n) == "compute_output_geobox" and len(n.args) == 2 and short(n.args[1]) == og.param_names()[1] and any(k.arg is None for k in n.keywords) for n in walk_own(og.node))
    out.append(Instance("R-FORWARD", f"{og.qual}#kw-splat", OK if ok else BAD, "compute_output_geobox(gbox, crs, **kw)" if ok else "output_geobox does not forward its options to compute_output_geobox", og.where()))
    # both variants: extracted options go to output_geobox, the rest to the warp
    for q in ("_xr_interop:_xr_reproject_da", "_xr_interop:_xr_reproject_ds"):
        f = prog.func(q)
        a = any(isinstance(n, ast.Call) and call_name(n) == "output_geobox" and n.args and short(n.args[0]) == "how" and any(k.arg is None and short(k.value) == "kw_gbox" for k in n.keywords) for _g, n in prog.closure_nodes(f))
        inner = [f] + list(f.nested.values())
        b = any(isinstance(n, ast.Call) and call_name(n) in ("rio_reproject", "_dask_rio_reproject", "_xr_reproject_da") and any(k.arg is None and short(k.value) == "kw" for k in n.keywords) for g in inner for n in walk_own(g.node))
        # the warp options may be bundled into one object and bound with functools.partial / handed to a helper: not followed
        bundled = any(isinstance(n, ast.Call) and call_name(n) == "partial" for g, n in prog.closure_nodes(f)) or any(
            isinstance(n, ast.Call) and any(k.arg is None and short(k.value) != "kw" for k in n.keywords) and call_name(n) in ("rio_reproject", "_dask_rio_reproject", "_xr_reproject_da") for g, n in prog.closure_nodes(f))
        if a and not b and bundled:
            out.append(Instance("R-FORWARD", f"{q}#kw-split", UNDET, "warp options are bundled (partial / options object) before they reach the warp: not followed", f.where()))
            continue
        out.append(Instance("R-FORWARD", f"{q}#kw-split", OK if a and b else BAD,
                            "geobox options -> output_geobox(how, **kw_gbox); remaining options -> warp(**kw)" if a and b else f"option split broken (geobox options forwarded={a}, warp options forwarded={b})", f.where()))
        for kw in ("resampling", "dst_nodata"):
            okk = any(isinstance(n, ast.Call) and call_name(n) in ("rio_reproject", "_dask_rio_reproject", "_xr_reproject_da") and any(k.arg == kw and short(k.value) == kw for k in n.keywords) for g in inner for n in walk_own(g.node))
            out.append(Instance("R-FORWARD", f"{q}#forward:{kw}", OK if okk else BAD, f"{kw}={kw}" if okk else f"{kw} is not forwarded to the warp", f.where()))
    return out
