"""Structural clauses added after round 3 of seeding (one small function per clause)."""
from __future__ import annotations

import ast
from typing import List, Optional, Set

from ..astutil import Origins, call_name, const_num, names_in
from ..cfg import Conditions, Flow, ReachingDefs
from ..loader import FuncInfo, Program, enclosing_stmt, parent, short, walk_own
from ..report import BAD, INFO, OK, UNDET, Instance
from .guards import conds_at


def to_crs_returns_self(prog: Program) -> List[Instance]:
    """C07: Geometry.to_crs hands back the receiver only when it already is in the (normalised) target CRS.
    Any other `return self` - an empty-geometry shortcut before the CRS was even normalised - returns a
    geometry still tagged with its source CRS, and skips the 'no CRS' refusal."""
    f = prog.func("geom:Geometry.to_crs")
    me = f.self_name
    cond = Conditions(f.body)
    out: List[Instance] = []
    for k, r in enumerate(n for n in walk_own(f.node) if isinstance(n, ast.Return) and isinstance(n.value, ast.Name) and n.value.id == me):
        same = any(p and isinstance(e, ast.Compare) and isinstance(e.ops[0], ast.Eq) and any(isinstance(x, ast.Attribute) and x.attr in ("crs", "_crs") for x in ast.walk(e)) for e, p in conds_at(cond, r))
        out.append(Instance("R-GUARDSEQ", f"{f.qual}#return-self:{k}", OK if same else BAD,
                            "the receiver is returned only under `self.crs == crs`" if same else
                            f"`return {me}` is reachable without the CRSs having been compared: the result keeps its source CRS although another was asked for (and a CRS-less geometry is not refused)", f.where(r)))
    return out


def shape_beats_resolution(prog: Program) -> List[Instance]:
    """C11: an explicit shape takes precedence: every assignment that turns the caller's numeric `resolution`
    into the output resolution is reached only with `shape is None`."""
    f = prog.func("overlap:compute_output_geobox")
    cond = Conditions(f.body)
    out: List[Instance] = []
    for n in walk_own(f.node):
        if isinstance(n, (ast.Assign, ast.AnnAssign)) and n.value is not None and isinstance(n.value, ast.Call) and call_name(n.value) == "res_" and n.value.args and short(n.value.args[0]) == "resolution":
            ok = any(isinstance(e, ast.Compare) and short(e.left) == "shape" and ((isinstance(e.ops[0], ast.Is) and p) or (isinstance(e.ops[0], ast.IsNot) and not p)) for e, p in conds_at(cond, n))
            out.append(Instance("R-GUARDSEQ", f"{f.qual}#shape-beats-resolution", OK if ok else BAD,
                                "a numeric resolution is used only when no shape was given" if ok else
                                f"`{short(n, 50)}` is reachable with a shape given: GeoBox.from_bbox prefers the resolution, the requested (ny, nx) is silently ignored", f.where(n)))
    if not out:
        out.append(Instance("R-GUARDSEQ", f"{f.qual}#shape-beats-resolution", INFO, "res_(resolution) not found", f.where(), nontrivial=False))
    return out


def pix_bbox_half_open(prog: Program) -> List[Instance]:
    """C12: a tile's pixel box is the half-open extent [start, stop) of its slices. `stop - 1` (last pixel
    index) makes every tile one pixel short on its right/bottom side in the linear dependency path."""
    f = prog.func("geobox:GeoboxTiles.pix_bbox")
    bad = [n for n in walk_own(f.node) if isinstance(n, ast.BinOp) and isinstance(n.op, (ast.Sub, ast.Add)) and any(isinstance(x, ast.Attribute) and x.attr in ("stop", "start") for x in ast.walk(n)) and const_num(n.right) is not None]
    ends = {x.attr for x in walk_own(f.node) if isinstance(x, ast.Attribute) and x.attr in ("start", "stop")}
    ok = not bad and ends == {"start", "stop"}
    return [Instance("R-ROUND", f"{f.qual}#half-open", OK if ok else BAD,
                     "tile box is built from the slices' start and stop as they are" if ok else
                     f"`{short(bad[0]) if bad else 'box'}`: the tile box is not the half-open [start, stop) extent: destination tiles are mapped one pixel short and the source tile under their last row/column is not listed", f.where(bad[0]) if bad else f.where())]


def tiles_yield_under_test(prog: Program) -> List[Instance]:
    """C12: GeoboxTiles.tiles yields an index for a geometry query only when the query was tested against the
    extent of that tile, on every path (no untested 'interior' shortcut)."""
    f = prog.func("geobox:GeoboxTiles.tiles")
    cond = Conditions(f.body)
    out: List[Instance] = []
    k = 0
    for y in (n for n in walk_own(f.node) if isinstance(n, ast.Yield) and y_is_index(n)):
        st = enclosing_stmt(y)
        ok = any(isinstance(e, ast.Call) and ((call_name(e) == "disjoint" and not p) or (call_name(e) == "intersects" and p)) for e, p in conds_at(cond, st))
        out.append(Instance("R-GUARDSEQ", f"{f.qual}#yield-under-test:{k}", OK if ok else BAD,
                            "index yielded only after the query was tested against that tile's extent" if ok else
                            f"`{short(st, 40)}` is reachable without the footprint test: a tile inside the candidate block that the query (L-shape, polygon with a hole, diagonal line) does not touch is returned", f.where(y)))
        k += 1
    return out


def y_is_index(y: ast.Yield) -> bool:
    return y.value is not None and isinstance(y.value, ast.Name)


def pad_before_align(prog: Program) -> List[Instance]:
    """C17: the envelope is padded first and aligned afterwards, so its edges stay multiples of `align`.
    Padding added to the bounds after the alignment step breaks the alignment the caller asked for."""
    f = prog.func("roi:roi_from_points")
    pads = [p for p in f.param_names() if p.startswith("pad")]
    if not pads:
        return [Instance("R-ORDER", f"{f.qual}#pad-before-align", INFO, "no padding parameter", f.where(), nontrivial=False)]
    pad = pads[0]
    al = [n for n in walk_own(f.node) if isinstance(n, ast.Call) and call_name(n) in ("align_up", "align_down")]
    if not al:
        return [Instance("R-ORDER", f"{f.qual}#pad-before-align", INFO, "no alignment step", f.where(), nontrivial=False)]
    last_align = max(a.lineno for a in al)
    late = [n for n in walk_own(f.node) if isinstance(n, ast.BinOp) and isinstance(n.op, (ast.Add, ast.Sub)) and pad in names_in(n) and n.lineno > last_align]
    org = Origins(f)
    fed = all(pad in org.deps_names(a.args[0]) for a in al)
    ok = not late and fed
    return [Instance("R-ORDER", f"{f.qual}#pad-before-align", OK if ok else BAD,
                     "alignment is applied to the padded bounds" if ok else
                     (f"`{short(late[0], 40)}` adds the padding after the alignment step: with padding not a multiple of align the edges are no longer aligned" if late else "the aligned value does not include the padding"), f.where(late[0]) if late else f.where(al[0]))]


def sink_writes_always(prog: Program) -> List[Instance]:
    """C18: MPUFileSink.__call__ writes the bytes it was given on every path before it returns the receipt.
    Skipping the write because 'a file of that size is already there' lets stale bytes of an earlier run
    end up in the destination."""
    f = prog.func("cog._mpu_fs:MPUFileSink.__call__")

    def tr(st, facts):
        for x in ast.walk(st) if not isinstance(st, (ast.If, ast.For, ast.While, ast.With, ast.Try)) else [st]:
            pass
        return facts

    writes = [n for n in walk_own(f.node) if isinstance(n, ast.Call) and isinstance(n.func, ast.Attribute) and n.func.attr in ("write", "write_bytes")]
    if not writes:
        return [Instance("R-MPU", f"{f.qual}#SINK:write-always", BAD, "the sink never writes the data it is given", f.where())]
    w = writes[0]
    conditional = False
    p = parent(w)
    while p is not None and p is not f.node:
        if isinstance(p, (ast.If, ast.IfExp, ast.Try)) and not (isinstance(p, ast.Try)):
            conditional = True
        p = parent(p)
    early = [r for r in walk_own(f.node) if isinstance(r, ast.Return) and r.lineno < w.lineno]
    ok = not conditional and not early
    return [Instance("R-MPU", f"{f.qual}#SINK:write-always", OK if ok else BAD,
                     "the part's bytes are written unconditionally before the receipt is returned" if ok else
                     f"`{short(w, 40)}` is skipped on some path ({'under a condition' if conditional else 'early return'}): a stale part file of the same size left by an earlier run is kept and assembled into the destination", f.where(w))]


def mark_final_last_only(prog: Program) -> List[Instance]:
    """C06: only the last partition of the LAST sub-stream may be marked final; the value handed to
    from_dask_bag(mark_final=...) must depend on the position of the sub-stream."""
    f = prog.func("cog._mpu:mpu_write")
    org = Origins(f)
    out: List[Instance] = []
    for n in walk_own(f.node):
        if isinstance(n, ast.Call) and call_name(n) == "from_dask_bag":
            mf = next((k.value for k in n.keywords if k.arg == "mark_final"), None)
            if mf is None:
                continue
            idx = set()
            for a in _anc(n, f.node):
                if isinstance(a, ast.For):
                    idx |= {t.id for t in ast.walk(a.target) if isinstance(t, ast.Name)}
                elif isinstance(a, (ast.ListComp, ast.GeneratorExp, ast.SetComp, ast.DictComp)):
                    idx |= {t.id for g in a.generators for t in ast.walk(g.target) if isinstance(t, ast.Name)}
            if not idx:
                out.append(Instance("R-MPU", f"{f.qual}#PAIRING:mark-final-last", UNDET, "from_dask_bag(mark_final=) is not called per sub-stream inside a loop / comprehension", f.where(n)))
                continue
            deps = org.deps_names(mf)
            positional = bool(deps & idx) and any(isinstance(x, ast.Call) and call_name(x) == "len" for v in [mf] + [d for nm in deps for _, d in org.defs.get(nm, [])] for x in ast.walk(v))
            out.append(Instance("R-MPU", f"{f.qual}#PAIRING:mark-final-last", OK if positional else BAD,
                                "mark_final depends on the sub-stream being the last one" if positional else
                                f"`mark_final={short(mf)}` does not depend on the position of the sub-stream: every sub-stream's last partition is flushed as final, a non-last part below min_write_sz is written", f.where(n)))
    return out


def partial_forwards_writer(prog: Program) -> List[Instance]:
    """C06: an operator built with functools.partial for a fold/collate must carry the writer the enclosing
    function was given, when the wrapped function takes one: without it merged chunks that have already
    started writing cannot flush ('Flush required but no writer provided')."""
    out: List[Instance] = []
    for fi in prog.all_functions({"cog._mpu"}):
        if "write" not in fi.param_names():
            continue
        for n in walk_own(fi.node):
            if isinstance(n, ast.Call) and call_name(n) == "partial" and n.args and isinstance(n.args[0], ast.Name):
                tgt = prog.resolve_name_expr(n.args[0], fi.mod, fi)
                if not isinstance(tgt, FuncInfo) or "write" not in tgt.param_names():
                    continue
                passed = any(k.arg == "write" for k in n.keywords) or any(isinstance(a, ast.Name) and a.id == "write" for a in n.args[1:])
                if not passed and any(k.arg is None for k in n.keywords):
                    # partial(op, **opts): the writer may travel inside the options dict - followed one step
                    via = any(isinstance(k.value, ast.Name) and any(
                        isinstance(a_, ast.Assign) and any(isinstance(t_, ast.Name) and t_.id == k.value.id for t_ in a_.targets) and "write" in names_in(a_.value) for a_ in walk_own(fi.node)) for k in n.keywords if k.arg is None)
                    out.append(Instance("R-FORWARD", f"{fi.qual}#partial:{tgt.name}:write", OK if via else UNDET,
                                        "the writer is carried inside the options dict splatted into partial()" if via else "partial(.., **opts): contents of the options object not followed", fi.where(n)))
                    continue
                out.append(Instance("R-FORWARD", f"{fi.qual}#partial:{tgt.name}:write", OK if passed else BAD,
                                    f"partial({tgt.name}, ...) carries the writer" if passed else
                                    f"`{short(n, 60)}` builds the {tgt.name} operator without the `write` this function was given: with writes_per_chunk >= 2 two chunks that both started writing cannot be merged", fi.where(n)))
    return out


def predictor_axis_agreement(prog: Program) -> List[Instance]:
    """C05: both tile compressors apply the TIFF predictor along the X axis of the tile (axis=1 for (y, x) and
    (y, x, s) tiles alike); the header declares that. The two call sites must agree on the axis constant."""
    sites = []
    for q in ("cog._tifffile:_cog_block_compressor_yxs", "cog._tifffile:_cog_block_compressor_syx"):
        f = prog.maybe_func(q)
        if f is None:
            continue
        for n in walk_own(f.node):
            if isinstance(n, ast.Call) and isinstance(n.func, ast.Name) and n.func.id == "predictor":
                ax = next((k.value for k in n.keywords if k.arg == "axis"), None)
                sites.append((f, n, const_num(ax) if ax is not None else None))
    if len(sites) < 2:
        return [Instance("R-SIBLING", "cog._tifffile#predictor-axis", INFO, "fewer than two predictor call sites", "", nontrivial=False)]
    vals = {v for _, _, v in sites}
    out = []
    for f, n, v in sites:
        ok = len(vals) == 1 and v == 1
        out.append(Instance("R-SIBLING", f"{f.qual}#predictor-axis", OK if ok else BAD,
                            "predictor applied along axis 1 (X) like in the sibling compressor" if ok else
                            f"`{short(n)}` differences along axis {v} while the sibling compressor uses {sorted(x for x in vals if x != v)}: for (y, x, s) tiles axis -1 is the sample axis, the header still declares horizontal differencing", f.where(n)))
    return out


def ovr_sidecar_readdir(prog: Program) -> List[Instance]:
    """C15: the final copy of write_cog_layers relies on GDAL finding the side-car .ovr files next to the
    temporary image; under an ambient GDAL_DISABLE_READDIR_ON_OPEN=EMPTY_DIR (the usual cloud setup) it does
    not, unless the Env around the copy switches directory listing back on."""
    f = prog.func("cog._rio:write_cog_layers")
    out: List[Instance] = []
    for w in walk_own(f.node):
        if isinstance(w, ast.With) and any(isinstance(c, ast.Call) and call_name(c) == "rio_copy" and any(k.arg == "copy_src_overviews" for k in c.keywords) for c in ast.walk(w)):
            envs = [i.context_expr for i in w.items if isinstance(i.context_expr, ast.Call) and call_name(i.context_expr) == "Env"]
            if not envs:
                continue
            has = any(k.arg == "GDAL_DISABLE_READDIR_ON_OPEN" for k in envs[0].keywords)
            out.append(Instance("R-GUARDSEQ", f"{f.qual}#sidecar-readdir", OK if has else BAD,
                                "the Env around the overview-copying step sets GDAL_DISABLE_READDIR_ON_OPEN" if has else
                                "the Env around rio_copy(copy_src_overviews=True) does not set GDAL_DISABLE_READDIR_ON_OPEN: with the ambient value EMPTY_DIR GDAL does not find the side-car .ovr files and the supplied overviews are silently missing", f.where(envs[0])))
    if not out:
        out.append(Instance("R-GUARDSEQ", f"{f.qual}#sidecar-readdir", INFO, "no rasterio.Env around the overview copy", f.where(), nontrivial=False))
    return out


def ds_passes_destination(prog: Program) -> List[Instance]:
    """C09: the Dataset variant computes the destination geobox once (options popped from kw) and must hand
    THAT to the per-variable DataArray call; passing the caller's raw `how` makes every variable re-derive a
    default grid while the dataset coordinates come from the requested one."""
    f = prog.func("_xr_interop:_xr_reproject_ds")
    from .specific import dst_geobox_locals

    dst = dst_geobox_locals(prog, f)
    out: List[Instance] = []
    if not dst:
        return [Instance("R-SIBLING", f"{f.qual}#per-variable-destination", UNDET, "no local holding the destination geobox (result of output_geobox) found", f.where())]
    for nf in list(f.nested.values()) + [f]:
        for n in walk_own(nf.node):
            if isinstance(n, ast.Call) and call_name(n) == "_xr_reproject_da":
                how = next((k.value for k in n.keywords if k.arg == "how"), n.args[1] if len(n.args) > 1 else None)
                ok = isinstance(how, ast.Name) and how.id in dst
                out.append(Instance("R-SIBLING", f"{f.qual}#per-variable-destination", OK if ok else BAD,
                                    "every variable is reprojected onto the one destination geobox computed for the dataset" if ok else
                                    f"`how={short(how) if how is not None else '?'}` is handed to the per-variable call instead of the destination geobox computed here ({sorted(dst)}): with resolution=/shape=/anchor= options the variables land on another grid than the dataset's coordinates", nf.where(n)))
    return out


def _anc(n: ast.AST, stop: ast.AST):
    p = parent(n)
    while p is not None and p is not stop:
        yield p
        p = parent(p)


def overlap_keeps_sign(prog: Program) -> List[Instance]:
    """C10/C03: box_overlap hands compute_axis_overlap the *signed* per-axis scale of the pixel-to-pixel
    affine; the sign is how mirrored grids are recognised. Scales obtained through a magnitude helper
    (get_scale_from_linear_transform returns absolute values) lose it."""
    f = prog.func("overlap:box_overlap")
    org = Origins(f)
    out: List[Instance] = []
    for n in walk_own(f.node):
        if isinstance(n, ast.Call) and call_name(n) == "compute_axis_overlap" and len(n.args) >= 3:
            sc = n.args[2]
            defs = [sc] + [v for nm in names_in(sc) for _, v in org.defs.get(nm, [])]
            via_mag = any(isinstance(c, ast.Call) and (call_name(c) in ("abs", "fabs") or "get_scale" in (call_name(c) or "")) for d in defs for c in ast.walk(d))
            out.append(Instance("R-SIGNROLE", f"{f.qual}#signed-scale:{short(sc)}", BAD if via_mag else OK,
                                f"scale `{short(sc)}` reaches compute_axis_overlap through a magnitude (abs / get_scale_*): mirrored grids are planned as if they were not mirrored" if via_mag
                                else f"scale `{short(sc)}` is the signed component of the affine", f.where(n)))
    return out


def variable_locate_searches(prog: Program) -> List[Instance]:
    """C04/C13: a variable-sized tiling has no single tile size: locate() finds the tile by searching the
    cumulative offsets. Dividing the pixel by one chunk's size (a 'regular chunking' shortcut) is wrong as soon
    as any chunk - the last one included - differs."""
    f = prog.func("roi:VariableSizedTiles.locate")
    divs = [n for n in walk_own(f.node) if isinstance(n, ast.BinOp) and isinstance(n.op, (ast.FloorDiv, ast.Div))]
    search = any(isinstance(n, ast.Call) and call_name(n) in ("searchsorted", "bisect", "bisect_right", "bisect_left", "digitize") for n in walk_own(f.node))
    ok = search and not divs
    return [Instance("R-GUARDSEQ", f"{f.qual}#search-offsets", OK if ok else BAD,
                     "tile found by searching the cumulative offsets on every path" if ok else
                     (f"`{short(divs[0], 40)}` locates a tile by dividing by one chunk size: for chunks like (4, 4, 6) pixel 12 lands in a tile that does not exist" if divs else "no search over the offsets"), f.where(divs[0]) if divs else f.where())]


SIGN_PRESERVING = ("math:snap_scale", "math:maybe_int", "math:maybe_zero")


def sign_preserving_returns(prog: Program) -> List[Instance]:
    """C20: snap_scale / maybe_int / maybe_zero return their argument or a snapped version of it - with its
    sign. Every return value must depend on the parameter along a path that does not go through abs(): a
    value rebuilt from the magnitude alone (1 / n with n from abs(s)) un-mirrors negative scales."""
    out: List[Instance] = []
    for q in SIGN_PRESERVING:
        f = prog.maybe_func(q)
        if f is None:
            continue
        p0 = f.param_names()[0]
        org = Origins(f)

        def signed(e: ast.AST, seen: Set[str]) -> bool:
            """does `e` depend on p0 without passing through abs()?"""
            stack = [e]
            while stack:
                x = stack.pop()
                if isinstance(x, ast.Call) and call_name(x) in ("abs", "fabs"):
                    continue
                if isinstance(x, ast.Name):
                    if x.id == p0:
                        return True
                    if x.id not in seen:
                        seen.add(x.id)
                        for _, v in org.defs.get(x.id, []):
                            if signed(v, seen):
                                return True
                    continue
                stack.extend(ast.iter_child_nodes(x))
            return False

        for k, r in enumerate(n for n in walk_own(f.node) if isinstance(n, ast.Return) and n.value is not None):
            ok = signed(r.value, set()) or any(isinstance(c, ast.Call) and call_name(c) == "copysign" for c in ast.walk(r.value)) or const_num(r.value) == 0
            out.append(Instance("R-SIGNROLE", f"{f.qual}#sign-kept:{k}", OK if ok else BAD,
                                f"`{short(r)}` carries the sign of `{p0}`" if ok else
                                f"`{short(r)}` depends on `{p0}` only through abs(): a negative argument comes back positive (snap_scale(-0.5) == +0.5 un-mirrors a flipped transform)", f.where(r)))
    return out


def rotate_in_world(prog: Program) -> List[Instance]:
    """C02: GeoBox.rotate turns the grid about its centre *in the world*: the rotation is composed on the world
    side (`Affine.rotation(deg, <world centre>) * self`, GeoBox.__rmul__) and its pivot is the centre pushed
    through the affine. Composing on the pixel side (`self * Affine.rotation(..)`) rotates in the pixel plane,
    which differs for non-square or mirrored pixels."""
    f = prog.func("geobox:GeoBox.rotate")
    me = f.self_name
    out: List[Instance] = []
    for r in (n for n in walk_own(f.node) if isinstance(n, ast.Return) and n.value is not None):
        v = r.value
        if not (isinstance(v, ast.BinOp) and isinstance(v.op, ast.Mult)):
            out.append(Instance("R-FRAME", f"{f.qual}#world-side", INFO, f"`{short(v)}` is not a composition", f.where(r), nontrivial=False))
            continue
        rot_left = isinstance(v.left, ast.Call) and call_name(v.left) == "rotation" and isinstance(v.right, ast.Name) and v.right.id == me
        pivot_world = False
        if rot_left and len(v.left.args) >= 2:
            org = Origins(f)
            piv = v.left.args[1]
            defs = [piv] + [d for nm in names_in(piv) for _, d in org.defs.get(nm, [])]
            pivot_world = any(isinstance(d, ast.BinOp) and isinstance(d.op, ast.Mult) and any(isinstance(x, ast.Attribute) and x.attr in ("_affine", "affine", "transform") for x in ast.walk(d.left)) for d in defs for d in ast.walk(d))
        ok = rot_left and pivot_world
        out.append(Instance("R-FRAME", f"{f.qual}#world-side", OK if ok else BAD,
                            "rotation composed on the world side about the centre mapped through the affine" if ok else
                            f"`{short(v, 60)}` does not compose the rotation on the world side about the world position of the centre: for non-square or mirrored pixels a pixel-plane rotation is a different grid", f.where(r)))
    return out


def idx_bounds_absolute_tol(prog: Program) -> List[Instance]:
    """C14: the bounding-box query excludes edge contacts 'within 1e-8 units': the shrink applied to the query
    box before indexing is an absolute constant in CRS units. A shrink that scales with the tile size
    (1e-8 * tile_size) excludes real overlaps of up to tile_size*1e-8 units."""
    f = prog.func("gridspec:GridSpec.idx_bounds")
    org = Origins(f)
    out: List[Instance] = []
    shrinks = []
    for n in walk_own(f.node):
        if isinstance(n, ast.Call) and call_name(n) == "pt2idx":
            for a in n.args:
                if isinstance(a, ast.BinOp) and isinstance(a.op, (ast.Add, ast.Sub)):
                    shrinks.append(a.right)
    if not shrinks:
        return [Instance("R-GUARDSEQ", f"{f.qual}#absolute-tolerance", INFO, "no shrink of the query box found", f.where(), nontrivial=False)]
    bad = []
    for sh in shrinks:
        defs = [sh] + [d for nm in names_in(sh) for _, d in org.defs.get(nm, [])]
        for d in defs:
            if any(isinstance(x, ast.BinOp) and isinstance(x.op, (ast.Mult, ast.Div)) and any(isinstance(y, (ast.Name, ast.Attribute)) for y in ast.walk(x)) for x in ast.walk(d)):
                bad.append(sh)
    ok = not bad
    return [Instance("R-GUARDSEQ", f"{f.qual}#absolute-tolerance", OK if ok else BAD,
                     "the query box is shrunk by an absolute constant before indexing" if ok else
                     f"the shrink `{short(bad[0])}` is scaled by a run-time quantity: the excluded edge contact grows with the tile size instead of staying at 1e-8 CRS units", f.where())]


def constructor_only_state(prog: Program) -> List[Instance]:
    """C04: the tilings establish their invariants in `__init__` (VariableSizedTiles re-bases its cumulative
    offsets to start at 0; Tiles derives its tile-count shape). An instance assembled around the constructor -
    `Cls.__new__(Cls)` followed by attribute stores, or a slot written from another method or from outside -
    skips that: a cropped variable tiling built from sliced offsets keeps the parent's offsets."""
    out: List[Instance] = []
    for cq in ("roi:VariableSizedTiles", "roi:Tiles"):
        ci = prog.classes.get(cq)
        if ci is None:
            continue
        slots: Set[str] = set()
        for st in ci.node.body:
            if isinstance(st, ast.Assign) and any(isinstance(t, ast.Name) and t.id == "__slots__" for t in st.targets):
                slots = {e.value for e in ast.walk(st.value) if isinstance(e, ast.Constant) and isinstance(e.value, str)}
        bad: List[str] = []
        for fi in prog.all_functions({"roi", "geobox", "_blocks"}):
            for n in walk_own(fi.node):
                # Cls.__new__(Cls)
                if isinstance(n, ast.Call) and isinstance(n.func, ast.Attribute) and n.func.attr == "__new__" and short(n.func.value).split(".")[-1] == ci.name:
                    bad.append(f"{fi.qual}: `{short(n)}` bypasses {ci.name}.__init__")
                # stores to the slots outside __init__
                tg = n.targets if isinstance(n, ast.Assign) else [n.target] if isinstance(n, (ast.AugAssign, ast.AnnAssign)) else []
                for t in tg:
                    for x in ast.walk(t):
                        if isinstance(x, ast.Attribute) and x.attr in slots and isinstance(x.ctx, ast.Store):
                            inside_init = fi.cls is ci and fi.name == "__init__"
                            typed = fi.cls is ci and isinstance(x.value, ast.Name) and x.value.id == fi.self_name
                            if not inside_init and (typed or fi.cls is not ci):
                                # a foreign store only counts when the receiver can be this class
                                if fi.cls is ci or ci in prog.receiver_classes(x.value, fi) or not prog.receiver_classes(x.value, fi):
                                    if fi.cls is ci or any(isinstance(c, ast.Call) and short(c.func).split(".")[-1] in (ci.name, "__new__") for c in ast.walk(fi.node)):
                                        bad.append(f"{fi.qual}: `{short(n, 40)}` writes {x.attr} outside {ci.name}.__init__")
        out.append(Instance("R-IMMUT", f"{ci.qual}#constructor-only", OK if not bad else BAD,
                            f"{ci.name} state {sorted(slots)} is established by __init__ only" if not bad else
                            f"{bad[0]}: the invariants __init__ establishes (offsets re-based to 0, derived shapes) do not hold for that instance", f"{ci.mod.relpath}:{ci.node.lineno}"))
    return out
