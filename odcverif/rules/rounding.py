"""R-ROUND: outward rounding and clamp roles.

Every float->int conversion is classified by the *role* of the value it produces (LOWER edge of
an interval, UPPER edge, COUNT of pixels/tiles) inferred from the sink it flows to (slice /
range / BoundingBox argument position, interval-named local, shape-named local, name of the
enclosing helper).  LOWER must round down, UPPER and COUNT must round up.  Sites whose role
cannot be inferred are looked up in a small table keyed by function, one reason per line; sites
that are neither are reported as informational (never as violations).
"""
from __future__ import annotations

import ast
import re
from typing import Dict, List, Optional, Set, Tuple

from ..astutil import call_name, const_num, names_in
from ..loader import FuncInfo, Program, enclosing_stmt, parent, short, walk_own
from ..report import BAD, INFO, OK, UNDET, Instance

DOWN = {"floor", "align_down", "align_down_pow2", "floordiv", "trunc"}
UP = {"ceil", "align_up", "align_up_pow2", "ceildiv"}
NEAREST = {"round", "rint", "around"}

LOWER_NAMES = re.compile(r"^(_in|_x0|_y0|a1|x0|y0|x1_|start|_start|ix1|iy1|_lo|lo|tx|ty|_tx|off[xy]?)$")
UPPER_NAMES = re.compile(r"^(_out|_x1|_y1|a2|stop|_stop|ix2|iy2|_hi|hi|a)$")
COUNT_NAMES = re.compile(r"^(nx|ny|n|nx_|ny_|count|c|b[xy]|n_side|nparts|npix)$")

# (function qual prefix, kind) -> (role | "T", reason).  T = no direction requirement.
TABLE: Dict[Tuple[str, str], Tuple[str, str]] = {
    ("overlap:_pick_read_scale", "trunc"): ("LOWER", "shrink factor: snap to nearest integer *below* (shrinking more than the scale loses resolution)"),
    ("overlap:compute_output_geobox", "round"): ("T", "caller-requested rounding of a resolution"),
    ("geom:BoundingBox.width", "trunc"): ("T", "documented int(span); callers pass integral spans"),
    ("geom:BoundingBox.height", "trunc"): ("T", "documented int(span); callers pass integral spans"),
    ("geom:BoundingBox.qr2sample", "round"): ("T", "sampling density, not a cover"),
    ("geom:BoundingBox.qr2sample", "trunc"): ("T", "sampling density, not a cover"),
    ("geobox:bounding_box_in_pixel_domain", "round"): ("T", "NEAREST, legal only behind the is_almost_int guard (R-GUARDSEQ ties the two)"),
    ("geobox:GeoBox.center_pixel", "floordiv"): ("T", "a choice of pixel, not a cover"),
    ("gcp:GCPGeoBox.center_pixel", "floordiv"): ("T", "a choice of pixel, not a cover"),
    ("cog._shared:num_overviews", "floordiv"): ("T", "exact halving; shape was padded to 2^n"),
    ("types:Shape2d.shrink2", "floordiv"): ("T", "exact halving; shape was padded to 2^n"),
    ("math:Bin1D.bin", "floor"): ("LOWER", "index of the bin *containing* x"),
    ("math:Bin1D.bin", "trunc"): ("T", "int() of an already floored value"),
    ("math:maybe_int", "trunc"): ("T", "int() of the whole part returned by split_float"),
    ("math:align_down_pow2", "floordiv"): ("LOWER", "halving a power of two that overshoots"),
    ("math:align_up_pow2", "ceil"): ("UPPER", "smallest power of two >= x"),
    ("math:align_up_pow2", "trunc"): ("T", "int() of an already ceiled value"),
    ("roi:Tiles.locate", "floordiv"): ("LOWER", "tile containing the pixel"),
    ("roi:Tiles.__init__", "trunc"): ("T", "int() of an already ceiled value"),
    ("geobox:_round_to_res", "trunc"): ("T", "int() of an already ceiled value"),
    ("geobox:_round_to_res", "ceil"): ("UPPER", "buffer in pixels covers the requested distance (10% slack is the contract)"),
    ("geobox:GeoBoxBase.compute_crop", "trunc"): ("T", "int() of spans/offsets of an already rounded (integral) pixel box"),
    ("geobox:GeoBox.enclosing", "trunc"): ("T", "int() of spans of an already rounded (integral) pixel box"),
    ("geobox:GeoBox.overlap_roi", "trunc"): ("T", "int() of an integral pixel-domain box"),
    ("geobox:GeoboxTiles.range_from_bbox/_clamp", "trunc"): ("T", "int() of an already floored/ceiled value"),
    ("roi:roi_from_points/to_roi", "trunc"): ("T", "int() of integer array elements"),
    ("gridspec:GridSpec.tiles", "trunc"): ("T", "int() of integer indexes"),
    ("geom:BoundingBox.boundary", "trunc"): ("T", ""),
    ("cog._tifffile:save_cog_with_dask", "floordiv"): ("T", "default overview tile size / partition count, not a cover"),
    ("cog._tifffile:save_cog_with_dask", "trunc"): ("T", "default overview tile size"),
    ("roi:VariableSizedTiles", "trunc"): ("T", "int() of integer offsets"),
    ("geobox:GeoBoxBase.boundary", "trunc"): ("T", ""),
    ("types:shape_", "trunc"): ("T", "int() of integer shape components"),
    ("cog._shared:adjust_blocksize", "align_up"): ("UPPER", "a tile may not be smaller than the block it has to hold; multiples of 16"),
    ("cog._shared:cog_gbox", "align_up"): ("UPPER", "padded shape covers the data"),
    ("cog._shared:compute_cog_spec/", "align_up"): ("UPPER", "padded shape covers the data"),
    ("cog._shared:compute_cog_spec", "align_down_pow2"): ("LOWER", "padding may not exceed max_pad"),
    ("math:align_down_pow2", "align_up_pow2"): ("T", "intermediate: halved below when it overshoots"),
}


class Site:
    def __init__(self, fi: FuncInfo, node: ast.AST, kind: str):
        self.fi = fi
        self.node = node
        self.kind = kind
        self.role: Optional[str] = None
        self.how = ""


def _is_ceildiv(e: ast.AST) -> bool:
    """(N + n - 1) // n   |   align_up(s, k) // k   |   X // s + (1 if X % s else 0)"""
    if isinstance(e, ast.BinOp) and isinstance(e.op, ast.FloorDiv):
        d = short(e.right)
        l = e.left
        if isinstance(l, ast.Call) and call_name(l) == "align_up" and len(l.args) == 2 and short(l.args[1]) == d:
            return True
        if isinstance(l, ast.BinOp):
            txt = short(l).replace(" ", "")
            for pat in (f"+{d}-1", f"+({d}-1)", f"-1+{d}"):
                if txt.endswith(pat) or pat + ")" in txt or txt.replace("(", "").replace(")", "").endswith(pat.replace("(", "").replace(")", "")):
                    return True
    if isinstance(e, ast.Call) and call_name(e) == "align_down" and len(e.args) == 2:
        d = short(e.args[1])
        txt = short(e.args[0]).replace(" ", "").replace("(", "").replace(")", "")
        if txt.endswith(f"+{d}-1"):
            return True
    if isinstance(e, ast.BinOp) and isinstance(e.op, ast.Add):
        for a, b in ((e.left, e.right), (e.right, e.left)):
            if isinstance(a, ast.BinOp) and isinstance(a.op, ast.FloorDiv) and isinstance(b, ast.IfExp):
                if const_num(b.body) == 1 and const_num(b.orelse) == 0 and isinstance(b.test, ast.BinOp) and isinstance(b.test.op, ast.Mod):
                    if short(b.test.left) == short(a.left) and short(b.test.right) == short(a.right):
                        return True
    return False


def find_sites(fi: FuncInfo) -> List[Site]:
    sites: List[Site] = []
    ceildiv_nodes: Set[int] = set()
    for n in walk_own(fi.node):
        if _is_ceildiv(n):
            sites.append(Site(fi, n, "ceildiv"))
            for x in ast.walk(n):
                ceildiv_nodes.add(id(x))
    for n in walk_own(fi.node):
        if id(n) in ceildiv_nodes:
            continue
        if isinstance(n, ast.Call):
            nm = call_name(n)
            if nm in ("floor", "ceil", "align_up", "align_down", "align_up_pow2", "align_down_pow2") and n.args:
                sites.append(Site(fi, n, nm))
            elif nm in ("round", "rint", "around") and n.args:
                sites.append(Site(fi, n, "round"))
            elif nm == "int" and isinstance(n.func, ast.Name) and len(n.args) == 1:
                a = n.args[0]
                # int(<literal>) / int(str) are not rounding
                if isinstance(a, ast.Constant):
                    continue
                sites.append(Site(fi, n, "trunc"))
            elif nm == "map" and len(n.args) >= 2 and isinstance(n.args[0], ast.Name) and n.args[0].id == "int":
                sites.append(Site(fi, n, "trunc"))
        elif isinstance(n, ast.BinOp) and isinstance(n.op, ast.FloorDiv):
            sites.append(Site(fi, n, "floordiv"))
    return sites


def _role_by_name(name: str) -> Optional[str]:
    if LOWER_NAMES.match(name):
        return "LOWER"
    if UPPER_NAMES.match(name):
        return "UPPER"
    if COUNT_NAMES.match(name):
        return "COUNT"
    return None


def _strip_wrappers(node: ast.AST) -> ast.AST:
    """Climb through int()/max()/min()/clamp()/maybe_int()/abs-free wrappers to the consumer."""
    cur = node
    while True:
        p = parent(cur)
        if isinstance(p, ast.Call) and cur in p.args and call_name(p) in ("int", "max", "min", "clamp", "clip", "float"):
            cur = p
            continue
        if isinstance(p, ast.Attribute) and p.attr in ("astype",) and isinstance(parent(p), ast.Call) and parent(p).func is p:
            cur = parent(p)
            continue
        if isinstance(p, ast.BinOp) and isinstance(p.op, (ast.Add, ast.Sub)) and const_num(p.right if p.left is cur else p.left) is not None:
            cur = p  # +- constant keeps the role
            continue
        if isinstance(p, ast.BinOp) and isinstance(p.op, (ast.Add, ast.Sub)) and short(p.right if p.left is cur else p.left) in ("padding", "pad"):
            cur = p
            continue
        return cur


def infer_role(site: Site) -> None:
    fi = site.fi
    top = _strip_wrappers(site.node)
    p = parent(top)
    # 1. slice(a, b) / range(a, b) / np.s_[a:b]
    if isinstance(p, ast.Call) and call_name(p) in ("slice", "range") and top in p.args and len(p.args) >= 2:
        i = p.args.index(top)
        if i < 2:
            site.role, site.how = ("LOWER", f"argument 0 of {call_name(p)}()") if i == 0 else ("UPPER", f"argument 1 of {call_name(p)}()")
            return
    if isinstance(p, ast.Slice):
        if p.lower is top:
            site.role, site.how = "LOWER", "lower bound of a slice expression"
            return
        if p.upper is top:
            site.role, site.how = "UPPER", "upper bound of a slice expression"
            return
    # 2. BoundingBox(l, b, r, t)
    if isinstance(p, ast.Call) and call_name(p) == "BoundingBox" and top in p.args:
        i = p.args.index(top)
        if i < 4:
            site.role, site.how = ("LOWER" if i < 2 else "UPPER"), f"argument {i} of BoundingBox()"
            return
    # 3. element of a tuple assigned to an interval-named local:  _in = (0, min(floor(t_), Nd))
    q = p
    hops = 0
    while isinstance(q, (ast.Tuple, ast.List, ast.GeneratorExp, ast.ListComp)) and hops < 3:
        q = parent(q)
        hops += 1
    st = enclosing_stmt(top)
    if isinstance(st, ast.Assign) and (q is st or p is st or top is st.value):
        tg = st.targets[0]
        names = [tg.id] if isinstance(tg, ast.Name) else [e.id for e in getattr(tg, "elts", []) if isinstance(e, ast.Name)]
        # positional match for tuple = tuple
        if isinstance(tg, ast.Tuple) and isinstance(st.value, ast.Tuple) and top in st.value.elts:
            e = tg.elts[st.value.elts.index(top)]
            names = [e.id] if isinstance(e, ast.Name) else names
        roles = {_role_by_name(nm) for nm in names}
        roles.discard(None)
        if len(roles) == 1:
            site.role, site.how = roles.pop(), f"assigned to `{', '.join(names)}`"
            return
    if isinstance(st, ast.AugAssign) and isinstance(st.target, ast.Name):
        r = _role_by_name(st.target.id)
        if r:
            site.role, site.how = r, f"accumulated into `{st.target.id}`"
            return
    # 4. returned from a helper whose name states the direction
    if isinstance(st, ast.Return):
        nm = fi.name
        if "align_up" in nm or nm in ("scaled_down_shape",) or "up" in nm.split("_"):
            site.role, site.how = "UPPER", f"return value of `{nm}`"
            return
        if "align_down" in nm or "down" in nm.split("_"):
            site.role, site.how = "LOWER", f"return value of `{nm}`"
            return
    # 5. keyword / constructor shape arguments
    if isinstance(p, ast.keyword) and p.arg in ("x", "y", "nx", "ny") and isinstance(parent(p), ast.Call) and call_name(parent(p)) in ("Shape2d", "shape_", "wh_"):
        site.role, site.how = "COUNT", f"{p.arg}= of {call_name(parent(p))}()"
        return


def _effective_kind(site: Site) -> str:
    """int(ceil(x)) is a ceil; map(int, <rounded>) keeps the inner direction."""
    n = site.node
    if site.kind == "trunc" and isinstance(n, ast.Call) and n.args:
        a = n.args[-1] if call_name(n) == "map" else n.args[0]
        for x in ast.walk(a):
            if isinstance(x, ast.Call) and call_name(x) in ("floor", "ceil"):
                return "wrapped"
    return site.kind


def rule_round(prog: Program, modules: Set[str]) -> List[Instance]:
    out: List[Instance] = []
    for fi in prog.all_functions(modules):
        if fi.is_stub:
            continue
        sites = find_sites(fi)
        counter: Dict[str, int] = {}
        for s in sites:
            infer_role(s)
            ek = _effective_kind(s)
            base = f"{fi.qual}#round:{s.kind}:{short(s.node, 40)}"
            counter[base] = counter.get(base, 0) + 1
            cid = base if counter[base] == 1 else f"{base}#{counter[base]}"
            where = fi.where(s.node)
            role, how = s.role, s.how
            if ek == "wrapped":
                out.append(Instance("R-ROUND", cid, INFO, "int() of an already floored/ceiled value", where, nontrivial=False))
                continue
            t = next(((r, why) for (q, k), (r, why) in TABLE.items() if fi.qual.startswith(q) and k == s.kind), None)
            if t is not None:
                if t[0] == "T":
                    out.append(Instance("R-ROUND", cid, INFO, f"table: {t[1]}", where, nontrivial=False))
                    continue
                role, how = t[0], f"table: {t[1]}"
            elif s.kind == "trunc":
                # int() converts values that are integral already; it carries a direction only
                # where the table says so
                out.append(Instance("R-ROUND", cid, INFO, f"int() conversion `{short(s.node, 50)}` (no direction requirement)", where, nontrivial=False))
                continue
            if role is None:
                out.append(Instance("R-ROUND", cid, INFO, f"unclassified rounding site `{short(s.node, 60)}` (no interval/count sink recognised)", where, nontrivial=False))
                continue
            if s.kind in NEAREST or s.kind == "round":
                out.append(Instance("R-ROUND", cid, BAD, f"`{short(s.node, 60)}` rounds to nearest but feeds a {role} ({how}): a partially covered pixel can be lost", where))
                continue
            down = s.kind in DOWN
            if role == "LOWER":
                ok = down
            else:
                ok = not down
            if ok:
                out.append(Instance("R-ROUND", cid, OK, f"{role} ({how}) rounds {'down' if down else 'up'}: `{short(s.node, 50)}`", where))
            else:
                out.append(Instance("R-ROUND", cid, BAD,
                                    f"`{short(s.node, 60)}` rounds {'down' if down else 'up'} but is a {role} ({how}): a region documented to cover loses a partially covered pixel / a count comes out one short",
                                    where))
    return out


# ---------------------------------------------------------------------------------------------
# clamps
# ---------------------------------------------------------------------------------------------


def rule_clamps(prog: Program) -> List[Instance]:
    """Clamp roles: interval starts through max(0, .), stops through min(N, .)."""
    out: List[Instance] = []
    # roi_pad.pad_slice
    f = prog.func("roi:roi_pad/pad_slice")
    for n in walk_own(f.node):
        if isinstance(n, ast.Call) and call_name(n) == "slice" and len(n.args) == 2:
            a, b = n.args
            ok_a = isinstance(a, ast.Call) and call_name(a) == "max" and any(const_num(x) == 0 for x in a.args) and any("start" in short(x) and "- pad" in short(x) for x in a.args)
            ok_b = isinstance(b, ast.Call) and call_name(b) == "min" and any(short(x) == "n" for x in b.args) and any("stop" in short(x) and "+ pad" in short(x) for x in b.args)
            out.append(Instance("R-ROUND", f"{f.qual}#clamp:start", OK if ok_a else BAD, "start = max(0, start - pad)" if ok_a else f"padded start is `{short(a)}`", f.where(n)))
            out.append(Instance("R-ROUND", f"{f.qual}#clamp:stop", OK if ok_b else BAD, "stop = min(n, stop + pad)" if ok_b else f"padded stop is `{short(b)}`", f.where(n)))
    # Tiles.__getitem__._slice: slice(_in, min(_out, N)), guard 0 <= _in < N and _out < N + n
    f = prog.func("roi:Tiles.__getitem__/_slice")
    for n in walk_own(f.node):
        if isinstance(n, ast.Return) and isinstance(n.value, ast.Call) and call_name(n.value) == "slice":
            a, b = n.value.args[:2]
            ok = short(a) == "_in" and isinstance(b, ast.Call) and call_name(b) == "min" and {short(x) for x in b.args} == {"_out", "N"}
            out.append(Instance("R-ROUND", f"{f.qual}#clamp:last-tile", OK if ok else BAD, "tile = slice(_in, min(_out, N))" if ok else f"tile slice is `{short(n.value)}`", f.where(n)))
        if isinstance(n, ast.Assign) and short(n.targets[0]) in ("_in", "_out"):
            want = {"_in": "i.start * n", "_out": "i.stop * n"}[short(n.targets[0])]
            ok = short(n.value) == want
            out.append(Instance("R-ROUND", f"{f.qual}#{short(n.targets[0])}", OK if ok else BAD, f"{short(n.targets[0])} = {want}" if ok else f"`{short(n)}`", f.where(n)))
        if isinstance(n, ast.If) and isinstance(n.test, ast.BoolOp):
            t = short(n.test).replace(" ", "")
            ok = t == "0<=_in<Nand_out<N+n"
            out.append(Instance("R-ROUND", f"{f.qual}#index-validation", OK if ok else BAD, "0 <= _in < N and _out < N + n" if ok else f"index validation is `{short(n.test)}`", f.where(n)))
    # GeoboxTiles.range_from_bbox._clamp: floor->[0,N-1] ; ceil->[1,N] then -1
    f = prog.func("geobox:GeoboxTiles.range_from_bbox/_clamp")
    for n in walk_own(f.node):
        if isinstance(n, ast.Assign) and short(n.targets[0]) in ("a1", "a2"):
            v = short(n.value).replace(" ", "")
            if short(n.targets[0]) == "a1" and "clamp" in v:
                ok = v == "int(clamp(math.floor(a1),0,N-1))"
                out.append(Instance("R-ROUND", f"{f.qual}#clamp:first", OK if ok else BAD, "first pixel = clamp(floor(a1), 0, N-1)" if ok else f"`{short(n)}`", f.where(n)))
            if short(n.targets[0]) == "a2" and "clamp" in v:
                ok = v == "int(clamp(math.ceil(a2),1,N))-1"
                out.append(Instance("R-ROUND", f"{f.qual}#clamp:last", OK if ok else BAD, "last pixel = clamp(ceil(a2), 1, N) - 1" if ok else f"`{short(n)}`", f.where(n)))
    # range_from_bbox: inclusive tile range -> range(y1, y2 + 1)
    f = prog.func("geobox:GeoboxTiles.range_from_bbox")
    for n in walk_own(f.node):
        if isinstance(n, ast.Return) and isinstance(n.value, ast.Tuple):
            t = [short(e).replace(" ", "") for e in n.value.elts]
            ok = t == ["range(y1,y2+1)", "range(x1,x2+1)"]
            out.append(Instance("R-ROUND", f"{f.qual}#inclusive-range", OK if ok else BAD, "rows range(y1, y2+1), cols range(x1, x2+1)" if ok else f"tile ranges are {t}", f.where(n)))
    # GeoBox.overlap_roi: max(0, .) on starts, min(., n) on stops, same axis
    f = prog.func("geobox:GeoBox.overlap_roi")
    seen = {}
    for n in walk_own(f.node):
        if isinstance(n, ast.Assign) and isinstance(n.targets[0], ast.Tuple) and isinstance(n.value, ast.Tuple) and all(isinstance(v, ast.Call) and call_name(v) in ("max", "min") for v in n.value.elts):
            for t, v in zip(n.targets[0].elts, n.value.elts):
                seen[short(t)] = (call_name(v), {short(a) for a in v.args})
    want = {"x0": ("max", {"0", "x0"}), "y0": ("max", {"0", "y0"}), "x1": ("min", {"x1", "nx"}), "y1": ("min", {"y1", "ny"})}
    for k, w in want.items():
        ok = seen.get(k) == w
        out.append(Instance("R-ROUND", f"{f.qual}#clamp:{k}", OK if ok else BAD, f"{k} = {w[0]}({', '.join(sorted(w[1]))})" if ok else f"{k} clamped as {seen.get(k)}", f.where()))
    # scaled_up_roi clamp
    f = prog.func("roi:scaled_up_roi")
    for n in walk_own(f.node):
        if isinstance(n, ast.Call) and call_name(n) == "slice" and len(n.args) == 2 and all(isinstance(a, ast.Call) and call_name(a) == "min" for a in n.args):
            ok = {short(x) for x in n.args[0].args} == {"dim", "s.start"} and {short(x) for x in n.args[1].args} == {"dim", "s.stop"}
            out.append(Instance("R-ROUND", f"{f.qual}#clamp:shape", OK if ok else BAD, "both ends clamped to the image size" if ok else f"`{short(n)}`", f.where(n)))
        if isinstance(n, ast.Call) and call_name(n) == "slice" and len(n.args) == 2 and all(isinstance(a, ast.BinOp) and isinstance(a.op, ast.Mult) for a in n.args):
            ok = [short(a).replace(" ", "") for a in n.args] == ["s.start*scale", "s.stop*scale"]
            out.append(Instance("R-ROUND", f"{f.qual}#scale", OK if ok else BAD, "start*scale, stop*scale" if ok else f"`{short(n)}`", f.where(n)))
    # minimum one pixel / tile
    for q, names in (("math:_snap_edge_pos", ["nx"]), ("math:snap_grid", ["nx"]), ("geobox:GeoBoxBase.compute_zoom_out", ["ny", "nx"])):
        f = prog.func(q)
        hit = 0
        for n in walk_own(f.node):
            if isinstance(n, ast.Call) and call_name(n) == "max" and any(const_num(a) == 1 for a in n.args):
                hit += 1
        need = 2 if q == "math:snap_grid" else 1
        out.append(Instance("R-ROUND", f"{q}#at-least-one-pixel", OK if hit >= need else BAD, "pixel count is max(1, .)" if hit >= need else "pixel count is no longer forced to at least 1", f.where()))
    return out
