"""R-ROUND: outward rounding and clamp roles.

Every float->int conversion is classified by the *role* of the value it produces (LOWER edge of
an interval, UPPER edge, COUNT of pixels/tiles) inferred from the sink it flows to (slice /
range / BoundingBox argument position, interval-named local, shape-named local, name of the
enclosing helper).  LOWER must round down, UPPER and COUNT must round up.  Sites whose role
cannot be inferred are looked up in a small table keyed by function, one reason per line; sites
that are neither are reported as informational (never as violations).
"""
from __future__ import annotations

import ast
import re
from typing import Dict, List, Optional, Set, Tuple

from ..astutil import call_name, const_num, names_in
from ..loader import FuncInfo, Program, enclosing_stmt, parent, short, walk_own
from ..report import BAD, INFO, OK, UNDET, Instance

DOWN = {"floor", "align_down", "align_down_pow2", "floordiv", "trunc"}
UP = {"ceil", "align_up", "align_up_pow2", "ceildiv"}
NEAREST = {"round", "rint", "around"}

LOWER_NAMES = re.compile(r"^(_in|_x0|_y0|a1|x0|y0|x1_|start|_start|ix1|iy1|_lo|lo|tx|ty|_tx|off[xy]?)$")
UPPER_NAMES = re.compile(r"^(_out|_x1|_y1|a2|stop|_stop|ix2|iy2|_hi|hi|a)$")
COUNT_NAMES = re.compile(r"^(nx|ny|n|nx_|ny_|count|c|b[xy]|n_side|nparts|npix)$")

# (function qual prefix, kind) -> (role | "T", reason).  T = no direction requirement.
TABLE: Dict[Tuple[str, str], Tuple[str, str]] = {
    ("overlap:_pick_read_scale", "trunc"): ("LOWER", "shrink factor: snap to nearest integer *below* (shrinking more than the scale loses resolution)"),
    ("overlap:compute_output_geobox", "round"): ("T", "caller-requested rounding of a resolution"),
    ("geom:BoundingBox.width", "trunc"): ("T", "documented int(span); callers pass integral spans"),
    ("geom:BoundingBox.height", "trunc"): ("T", "documented int(span); callers pass integral spans"),
    ("geom:BoundingBox.qr2sample", "round"): ("T", "sampling density, not a cover"),
    ("geom:BoundingBox.qr2sample", "trunc"): ("T", "sampling density, not a cover"),
    ("geobox:bounding_box_in_pixel_domain", "round"): ("T", "NEAREST, legal only behind the is_almost_int guard (R-GUARDSEQ ties the two)"),
    ("geobox:GeoBox.center_pixel", "floordiv"): ("T", "a choice of pixel, not a cover"),
    ("gcp:GCPGeoBox.center_pixel", "floordiv"): ("T", "a choice of pixel, not a cover"),
    ("cog._shared:num_overviews", "floordiv"): ("T", "exact halving; shape was padded to 2^n"),
    ("types:Shape2d.shrink2", "floordiv"): ("T", "exact halving; shape was padded to 2^n"),
    ("math:Bin1D.bin", "floor"): ("LOWER", "index of the bin *containing* x"),
    ("math:Bin1D.bin", "trunc"): ("T", "int() of an already floored value"),
    ("math:maybe_int", "trunc"): ("T", "int() of the whole part returned by split_float"),
    ("math:align_down_pow2", "floordiv"): ("LOWER", "halving a power of two that overshoots"),
    ("math:align_up_pow2", "ceil"): ("UPPER", "smallest power of two >= x"),
    ("math:align_up_pow2", "trunc"): ("T", "int() of an already ceiled value"),
    ("roi:Tiles.locate", "floordiv"): ("LOWER", "tile containing the pixel"),
    ("roi:Tiles.__init__", "trunc"): ("T", "int() of an already ceiled value"),
    ("geobox:_round_to_res", "trunc"): ("T", "int() of an already ceiled value"),
    ("geobox:_round_to_res", "ceil"): ("UPPER", "buffer in pixels covers the requested distance (10% slack is the contract)"),
    ("geobox:GeoBoxBase.compute_crop", "trunc"): ("T", "int() of spans/offsets of an already rounded (integral) pixel box"),
    ("geobox:GeoBox.enclosing", "trunc"): ("T", "int() of spans of an already rounded (integral) pixel box"),
    ("geobox:GeoBox.overlap_roi", "trunc"): ("T", "int() of an integral pixel-domain box"),
    ("geobox:GeoboxTiles.range_from_bbox/_clamp", "trunc"): ("T", "int() of an already floored/ceiled value"),
    ("roi:roi_from_points/to_roi", "trunc"): ("T", "int() of integer array elements"),
    ("gridspec:GridSpec.tiles", "trunc"): ("T", "int() of integer indexes"),
    ("geom:BoundingBox.boundary", "trunc"): ("T", ""),
    ("cog._tifffile:save_cog_with_dask", "floordiv"): ("T", "default overview tile size / partition count, not a cover"),
    ("cog._tifffile:save_cog_with_dask", "trunc"): ("T", "default overview tile size"),
    ("roi:VariableSizedTiles", "trunc"): ("T", "int() of integer offsets"),
    ("geobox:GeoBoxBase.boundary", "trunc"): ("T", ""),
    ("types:shape_", "trunc"): ("T", "int() of integer shape components"),
    ("cog._shared:adjust_blocksize", "align_up"): ("UPPER", "a tile may not be smaller than the block it has to hold; multiples of 16"),
    ("cog._shared:cog_gbox", "align_up"): ("UPPER", "padded shape covers the data"),
    ("cog._shared:compute_cog_spec/", "align_up"): ("UPPER", "padded shape covers the data"),
    ("cog._shared:compute_cog_spec", "align_down_pow2"): ("LOWER", "padding may not exceed max_pad"),
    ("math:align_down_pow2", "align_up_pow2"): ("T", "intermediate: halved below when it overshoots"),
}


class Site:
    def __init__(self, fi: FuncInfo, node: ast.AST, kind: str):
        self.fi = fi
        self.node = node
        self.kind = kind
        self.role: Optional[str] = None
        self.how = ""


def _is_ceildiv(e: ast.AST) -> bool:
    """(N + n - 1) // n   |   align_up(s, k) // k   |   X // s + (1 if X % s else 0)"""
    if isinstance(e, ast.BinOp) and isinstance(e.op, ast.FloorDiv):
        d = short(e.right)
        l = e.left
        if isinstance(l, ast.Call) and call_name(l) == "align_up" and len(l.args) == 2 and short(l.args[1]) == d:
            return True
        if isinstance(l, ast.BinOp):
            txt = short(l).replace(" ", "")
            for pat in (f"+{d}-1", f"+({d}-1)", f"-1+{d}"):
                if txt.endswith(pat) or pat + ")" in txt or txt.replace("(", "").replace(")", "").endswith(pat.replace("(", "").replace(")", "")):
                    return True
    if isinstance(e, ast.Call) and call_name(e) == "align_down" and len(e.args) == 2:
        d = short(e.args[1])
        txt = short(e.args[0]).replace(" ", "").replace("(", "").replace(")", "")
        if txt.endswith(f"+{d}-1"):
            return True
    if isinstance(e, ast.BinOp) and isinstance(e.op, ast.Add):
        for a, b in ((e.left, e.right), (e.right, e.left)):
            if isinstance(a, ast.BinOp) and isinstance(a.op, ast.FloorDiv) and isinstance(b, ast.IfExp):
                if const_num(b.body) == 1 and const_num(b.orelse) == 0 and isinstance(b.test, ast.BinOp) and isinstance(b.test.op, ast.Mod):
                    if short(b.test.left) == short(a.left) and short(b.test.right) == short(a.right):
                        return True
    return False


def find_sites(fi: FuncInfo) -> List[Site]:
    sites: List[Site] = []
    ceildiv_nodes: Set[int] = set()
    for n in walk_own(fi.node):
        if _is_ceildiv(n):
            sites.append(Site(fi, n, "ceildiv"))
            for x in ast.walk(n):
                ceildiv_nodes.add(id(x))
    for n in walk_own(fi.node):
        if id(n) in ceildiv_nodes:
            continue
        if isinstance(n, ast.Call):
            nm = call_name(n)
            if nm in ("floor", "ceil", "align_up", "align_down", "align_up_pow2", "align_down_pow2") and n.args:
                sites.append(Site(fi, n, nm))
            elif nm in ("round", "rint", "around") and n.args:
                sites.append(Site(fi, n, "round"))
            elif nm == "int" and isinstance(n.func, ast.Name) and len(n.args) == 1:
                a = n.args[0]
                # int(<literal>) / int(str) are not rounding
                if isinstance(a, ast.Constant):
                    continue
                sites.append(Site(fi, n, "trunc"))
            elif nm == "map" and len(n.args) >= 2 and isinstance(n.args[0], ast.Name) and n.args[0].id == "int":
                sites.append(Site(fi, n, "trunc"))
        elif isinstance(n, ast.BinOp) and isinstance(n.op, ast.FloorDiv):
            sites.append(Site(fi, n, "floordiv"))
    return sites



def _known_near_integer(site) -> bool:
    """The argument of a round() is under a path condition `is_almost_int(<same expr>, ..)` known true."""
    from ..cfg import Conditions

    n = site.node
    if not (isinstance(n, ast.Call) and n.args):
        return False
    arg = short(n.args[0], 200)
    st = enclosing_stmt(n)
    if st is None:
        return False
    cache = getattr(site.fi, "_cond_cache", None)
    if cache is None:
        cache = Conditions(site.fi.body)
        site.fi._cond_cache = cache  # type: ignore[attr-defined]
    for key, pol in cache.conds_at(st):
        if pol and "is_almost_int(" in key:
            try:
                e = ast.parse(key, mode="eval").body
            except SyntaxError:
                continue
            for c in ast.walk(e):
                if isinstance(c, ast.Call) and call_name(c) == "is_almost_int" and c.args and short(c.args[0], 200) == arg:
                    return True
    return False


def _role_by_name(name: str, fi: Optional[FuncInfo] = None) -> Optional[str]:
    # numbered pairs: <stem>0/<stem>1 or <stem>1/<stem>2 - which number is the lower end depends on the twin that
    # occurs in the same function (ix0, ix1 -> ix1 is the UPPER end; ix1, ix2 -> ix1 is the LOWER end)
    m = re.match(r"^(_?[a-z]+?)([012])_?$", name)
    if m and fi is not None:
        if not hasattr(fi, "_all_names"):
            fi._all_names = {x.id for x in ast.walk(fi.node) if isinstance(x, ast.Name)} | {a.arg for a in ast.walk(fi.node) if isinstance(a, ast.arg)}  # type: ignore[attr-defined]
        stem, d = m.group(1), int(m.group(2))
        sfx = name[len(stem) + 1:]
        has = lambda k: f"{stem}{k}{sfx}" in fi._all_names  # type: ignore[attr-defined]  # noqa: E731
        if d == 1 and has(0) and not has(2):
            return "UPPER" if (LOWER_NAMES.match(f"{stem}0{sfx}") or LOWER_NAMES.match(name) or UPPER_NAMES.match(name)) else None
        if d == 0 and has(1) and (LOWER_NAMES.match(name) or LOWER_NAMES.match(f"{stem}1{sfx}")):
            return "LOWER"
    if LOWER_NAMES.match(name):
        return "LOWER"
    if UPPER_NAMES.match(name):
        return "UPPER"
    if COUNT_NAMES.match(name):
        return "COUNT"
    return None


def _strip_wrappers(node: ast.AST) -> ast.AST:
    """Climb through int()/max()/min()/clamp()/maybe_int()/abs-free wrappers to the consumer."""
    cur = node
    while True:
        p = parent(cur)
        if isinstance(p, ast.Call) and cur in p.args and call_name(p) in ("int", "max", "min", "clamp", "clip", "float"):
            cur = p
            continue
        if isinstance(p, ast.Attribute) and p.attr in ("astype",) and isinstance(parent(p), ast.Call) and parent(p).func is p:
            cur = parent(p)
            continue
        if isinstance(p, ast.BinOp) and isinstance(p.op, (ast.Add, ast.Sub)) and const_num(p.right if p.left is cur else p.left) is not None:
            cur = p  # +- constant keeps the role
            continue
        if isinstance(p, ast.BinOp) and isinstance(p.op, (ast.Add, ast.Sub)) and short(p.right if p.left is cur else p.left) in ("padding", "pad"):
            cur = p
            continue
        return cur


def infer_role(site: Site) -> None:
    fi = site.fi
    top = _strip_wrappers(site.node)
    p = parent(top)
    # 1. slice(a, b) / range(a, b) / np.s_[a:b]
    if isinstance(p, ast.Call) and call_name(p) in ("slice", "range") and top in p.args and len(p.args) >= 2:
        i = p.args.index(top)
        if i < 2:
            site.role, site.how = ("LOWER", f"argument 0 of {call_name(p)}()") if i == 0 else ("UPPER", f"argument 1 of {call_name(p)}()")
            return
    if isinstance(p, ast.Slice):
        if p.lower is top:
            site.role, site.how = "LOWER", "lower bound of a slice expression"
            return
        if p.upper is top:
            site.role, site.how = "UPPER", "upper bound of a slice expression"
            return
    # 2. BoundingBox(l, b, r, t)
    if isinstance(p, ast.Call) and call_name(p) == "BoundingBox" and top in p.args:
        i = p.args.index(top)
        if i < 4:
            site.role, site.how = ("LOWER" if i < 2 else "UPPER"), f"argument {i} of BoundingBox()"
            return
    # 3. element of a tuple assigned to an interval-named local:  _in = (0, min(floor(t_), Nd))
    q = p
    hops = 0
    while isinstance(q, (ast.Tuple, ast.List, ast.GeneratorExp, ast.ListComp)) and hops < 3:
        q = parent(q)
        hops += 1
    st = enclosing_stmt(top)
    if isinstance(st, ast.Assign) and (q is st or p is st or top is st.value):
        tg = st.targets[0]
        names = [tg.id] if isinstance(tg, ast.Name) else [e.id for e in getattr(tg, "elts", []) if isinstance(e, ast.Name)]
        # positional match for tuple = tuple
        if isinstance(tg, ast.Tuple) and isinstance(st.value, ast.Tuple) and top in st.value.elts:
            e = tg.elts[st.value.elts.index(top)]
            names = [e.id] if isinstance(e, ast.Name) else names
        roles = {_role_by_name(nm, fi) for nm in names}
        roles.discard(None)
        if len(roles) == 1:
            site.role, site.how = roles.pop(), f"assigned to `{', '.join(names)}`"
            return
    if isinstance(st, ast.AugAssign) and isinstance(st.target, ast.Name):
        r = _role_by_name(st.target.id, fi)
        if r:
            site.role, site.how = r, f"accumulated into `{st.target.id}`"
            return
    # 4. returned from a helper whose name states the direction
    if isinstance(st, ast.Return):
        nm = fi.name
        if "align_up" in nm or nm in ("scaled_down_shape",) or "up" in nm.split("_"):
            site.role, site.how = "UPPER", f"return value of `{nm}`"
            return
        if "align_down" in nm or "down" in nm.split("_"):
            site.role, site.how = "LOWER", f"return value of `{nm}`"
            return
    # 5. keyword / constructor shape arguments
    if isinstance(p, ast.keyword) and p.arg in ("x", "y", "nx", "ny") and isinstance(parent(p), ast.Call) and call_name(parent(p)) in ("Shape2d", "shape_", "wh_"):
        site.role, site.how = "COUNT", f"{p.arg}= of {call_name(parent(p))}()"
        return


def _effective_kind(site: Site) -> str:
    """int(ceil(x)) is a ceil; map(int, <rounded>) keeps the inner direction."""
    n = site.node
    if site.kind == "trunc" and isinstance(n, ast.Call) and n.args:
        a = n.args[-1] if call_name(n) == "map" else n.args[0]
        for x in ast.walk(a):
            if isinstance(x, ast.Call) and call_name(x) in ("floor", "ceil"):
                return "wrapped"
    return site.kind


def rule_round(prog: Program, modules: Set[str]) -> List[Instance]:
    out: List[Instance] = []
    for fi in prog.all_functions(modules):
        if fi.is_stub:
            continue
        # int(x + 0.5): rounding by truncation is only correct for non-negative x; the numeric
        # helpers here are used with negative coordinates and scales
        for n in walk_own(fi.node):
            if isinstance(n, ast.Call) and isinstance(n.func, ast.Name) and n.func.id == "int" and len(n.args) == 1:
                a = n.args[0]
                if isinstance(a, ast.BinOp) and isinstance(a.op, (ast.Add, ast.Sub)) and (const_num(a.right) == 0.5 or const_num(a.left) == 0.5):
                    out.append(Instance("R-ROUND", f"{fi.qual}#round:trunc-as-nearest:{short(n, 40)}", BAD,
                                        f"`{short(n)}` rounds by truncating towards zero: negative values come out one too high (-17.0 -> -16)", fi.where(n)))
            # abs(ceil(E)) / abs(floor(E)): the rounding direction is that of E's sign, abs() afterwards turns
            # "up" into "towards zero" for negative E
            if isinstance(n, ast.Call) and isinstance(n.func, ast.Name) and n.func.id == "abs" and len(n.args) == 1:
                a = n.args[0]
                if isinstance(a, ast.Call) and call_name(a) in ("ceil", "floor") and a.args and not (isinstance(a.args[0], ast.Call) and call_name(a.args[0]) == "abs"):
                    inner = a.args[0]
                    signed = any(isinstance(x, (ast.Name, ast.Attribute)) for x in ast.walk(inner)) and not any(isinstance(x, ast.Call) and call_name(x) == "abs" for x in ast.walk(inner))
                    if signed:
                        out.append(Instance("R-ROUND", f"{fi.qual}#round:abs-after-{call_name(a)}:{short(n, 40)}", BAD,
                                            f"`{short(n, 60)}` rounds first and takes the magnitude afterwards: for a negative argument {call_name(a)} rounds towards zero, so the magnitude comes out one short (ceil(-3.2) = -3)", fi.where(n)))
            # power-of-two idioms: 1 << n.bit_length() is the smallest power of two STRICTLY greater than n
            # (exact powers are doubled); "smallest power >= x" needs (x - 1).bit_length(), "largest power <= x"
            # needs bit_length() - 1
            sh = None
            if isinstance(n, ast.BinOp) and isinstance(n.op, ast.LShift) and const_num(n.left) == 1:
                sh = n.right
            elif isinstance(n, ast.BinOp) and isinstance(n.op, ast.Pow) and const_num(n.left) == 2:
                sh = n.right
            if sh is not None:
                bl = [c for c in ast.walk(sh) if isinstance(c, ast.Call) and isinstance(c.func, ast.Attribute) and c.func.attr == "bit_length"]
                if bl:
                    recv = bl[0].func.value
                    while isinstance(recv, ast.Call) and call_name(recv) == "int" and recv.args:
                        recv = recv.args[0]
                    minus1_inside = isinstance(recv, ast.BinOp) and isinstance(recv.op, ast.Sub) and const_num(recv.right) == 1
                    minus1_outside = isinstance(sh, ast.BinOp) and isinstance(sh.op, ast.Sub) and const_num(sh.right) == 1
                    lname = fi.name.lower()
                    want = "up" if ("up" in lname or "ceil" in lname or "next" in lname) else "down" if ("down" in lname or "floor" in lname or "prev" in lname) else None
                    cid0 = f"{fi.qual}#round:pow2-idiom:{short(n, 40)}"
                    if want == "up":
                        okp = minus1_inside and not minus1_outside
                        out.append(Instance("R-ROUND", cid0, OK if okp else BAD,
                                            "smallest power of two >= x via (x - 1).bit_length()" if okp else
                                            f"`{short(n, 50)}` is the smallest power of two strictly greater than its argument: an exact power (8) is doubled (16) although {fi.name} promises the smallest power >= x", fi.where(n)))
                    elif want == "down":
                        okp = minus1_outside and not minus1_inside
                        out.append(Instance("R-ROUND", cid0, OK if okp else BAD,
                                            "largest power of two <= x via bit_length() - 1" if okp else
                                            f"`{short(n, 50)}` does not compute the largest power of two <= x (needs bit_length() - 1)", fi.where(n)))
        sites = find_sites(fi)
        counter: Dict[str, int] = {}
        for s in sites:
            infer_role(s)
            ek = _effective_kind(s)
            base = f"{fi.qual}#round:{s.kind}:{short(s.node, 40)}"
            counter[base] = counter.get(base, 0) + 1
            cid = base if counter[base] == 1 else f"{base}#{counter[base]}"
            where = fi.where(s.node)
            role, how = s.role, s.how
            if ek == "wrapped":
                out.append(Instance("R-ROUND", cid, INFO, "int() of an already floored/ceiled value", where, nontrivial=False))
                continue
            t = next(((r, why) for (q, k), (r, why) in TABLE.items() if fi.qual.startswith(q) and k == s.kind), None)
            if t is not None:
                if t[0] == "T":
                    out.append(Instance("R-ROUND", cid, INFO, f"table: {t[1]}", where, nontrivial=False))
                    continue
                role, how = t[0], f"table: {t[1]}"
            elif s.kind == "trunc":
                # int() converts values that are integral already; it carries a direction only
                # where the table says so
                out.append(Instance("R-ROUND", cid, INFO, f"int() conversion `{short(s.node, 50)}` (no direction requirement)", where, nontrivial=False))
                continue
            if role is None:
                out.append(Instance("R-ROUND", cid, INFO, f"unclassified rounding site `{short(s.node, 60)}` (no interval/count sink recognised)", where, nontrivial=False))
                continue
            if (s.kind in NEAREST or s.kind == "round") and _known_near_integer(s):
                # round() of a value an is_almost_int() path condition already accepted only removes float noise: no direction involved
                out.append(Instance("R-ROUND", cid, OK, f"`{short(s.node, 60)}` converts a value known to be near-integer (is_almost_int held)", where))
                continue
            if s.kind in NEAREST or s.kind == "round":
                out.append(Instance("R-ROUND", cid, BAD, f"`{short(s.node, 60)}` rounds to nearest but feeds a {role} ({how}): a partially covered pixel can be lost", where))
                continue
            # floor(x + c) / ceil(x - c) with 0 < c < 1 shifts the bound inwards before rounding (round-to-nearest
            # in disguise for c = 0.5): a pixel covered by less than c is dropped
            if s.kind in ("floor", "ceil") and isinstance(s.node, ast.Call) and s.node.args:
                a0 = s.node.args[0]
                if isinstance(a0, ast.BinOp) and isinstance(a0.op, (ast.Add, ast.Sub)):
                    c = const_num(a0.right)
                    if c is not None and 0 < abs(c) < 1:
                        shift = c if isinstance(a0.op, ast.Add) else -c
                        inward = (s.kind == "floor" and shift > 0) or (s.kind == "ceil" and shift < 0)
                        if inward:
                            out.append(Instance("R-ROUND", cid, BAD,
                                                f"`{short(s.node, 60)}` shifts the {role} bound inwards by {abs(c):g} before rounding (round-to-nearest in disguise): a pixel covered by less than that is lost", where))
                            continue
            down = s.kind in DOWN
            if role == "LOWER":
                ok = down
            else:
                ok = not down
            # a COUNT taken as ceil(float quotient): a quotient that is integral in exact arithmetic comes out
            # n + 1ulp for many operand pairs (100 / (100 / 29) == 29.000000000000004) and the ceiling adds a whole
            # pixel. The repository's idiom is ceil(maybe_int(q, tol)); integer/integer quotients are exact when
            # divisible and need no snap; an explicit margin term (x - k*res) is the other accepted form.
            if ok and role == "COUNT" and s.kind == "ceil" and isinstance(s.node, ast.Call) and s.node.args:
                a0 = s.node.args[0]
                divs = [x for x in ast.walk(a0) if isinstance(x, ast.BinOp) and isinstance(x.op, ast.Div)]
                if divs:
                    snapped = any(isinstance(x, ast.Call) and call_name(x) in ("maybe_int", "round") for x in ast.walk(a0))
                    pann = {p_.arg: (ast.unparse(p_.annotation) if p_.annotation is not None else "") for f_ in [fi] + ([fi.parent] if fi.parent else []) for p_ in f_.params()}

                    # names iterating over pixel shapes (Shape2d components are ints by type)
                    shape_iter: Set[str] = set()
                    for c_ in ast.walk(fi.node):
                        if isinstance(c_, (ast.comprehension, ast.For)):
                            srcs = c_.iter.args if isinstance(c_.iter, ast.Call) and call_name(c_.iter) == "zip" else [c_.iter]
                            tgts = c_.target.elts if isinstance(c_.target, (ast.Tuple, ast.List)) and len(getattr(c_.target, "elts", [])) == len(srcs) else [c_.target]
                            for t_, sx_ in zip(tgts, srcs):
                                if isinstance(t_, ast.Name) and isinstance(sx_, ast.Attribute) and sx_.attr in ("yx", "xy", "shape", "_shape", "wh") and ("shape" in short(sx_).lower()):
                                    shape_iter.add(t_.id)

                    def _is_int(e: ast.AST) -> bool:
                        if isinstance(e, ast.Name) and e.id in shape_iter:
                            return True
                        if isinstance(e, ast.Call) and call_name(e) in ("float", "int") and e.args:
                            return _is_int(e.args[0])
                        if isinstance(e, ast.Constant):
                            return isinstance(e.value, int)
                        return isinstance(e, ast.Name) and pann.get(e.id, "") == "int"

                    exact = all(_is_int(d.left) and _is_int(d.right) for d in divs)
                    margin = isinstance(a0, ast.BinOp) and any(isinstance(x, ast.BinOp) and isinstance(x.op, (ast.Sub, ast.Add)) and any(isinstance(c, ast.BinOp) and isinstance(c.op, ast.Mult) and const_num(c.left) is not None for c in (x.left, x.right)) for x in ast.walk(a0))
                    if not (snapped or exact or margin):
                        out.append(Instance("R-ROUND", cid, BAD,
                                            f"`{short(s.node, 60)}` takes the ceiling of a raw float quotient for a {role} ({how}): where the quotient is a whole number in exact arithmetic it is often n + 1ulp in floats and the count comes out one too many (use ceil(maybe_int(q, tol)))", where))
                        continue
            if ok:
                out.append(Instance("R-ROUND", cid, OK, f"{role} ({how}) rounds {'down' if down else 'up'}: `{short(s.node, 50)}`", where))
            else:
                out.append(Instance("R-ROUND", cid, BAD,
                                    f"`{short(s.node, 60)}` rounds {'down' if down else 'up'} but is a {role} ({how}): a region documented to cover loses a partially covered pixel / a count comes out one short",
                                    where))
    return out


# ---------------------------------------------------------------------------------------------
# clamps
# ---------------------------------------------------------------------------------------------


def _last_defs(fi: FuncInfo, name: str, before: Optional[ast.AST] = None) -> List[ast.AST]:
    """Values assigned to ``name`` (positional match through tuple = tuple), in source order."""
    out: List[ast.AST] = []
    for n in walk_own(fi.node):
        if isinstance(n, ast.Assign):
            t = n.targets[0]
            if isinstance(t, ast.Name) and t.id == name:
                out.append(n.value)
            elif isinstance(t, ast.Tuple) and isinstance(n.value, ast.Tuple) and len(t.elts) == len(n.value.elts):
                for e, v in zip(t.elts, n.value.elts):
                    if isinstance(e, ast.Name) and e.id == name:
                        out.append(v)
            elif isinstance(t, ast.Tuple) and isinstance(n.value, (ast.GeneratorExp, ast.ListComp)) and len(n.value.generators) == 1:
                # a, b = (f(v) for v in (a, b)): every target gets the element expression
                if any(isinstance(e, ast.Name) and e.id == name for e in t.elts):
                    out.append(n.value.elt)
    return out


def _slice_bounds(fi: FuncInfo) -> List[Tuple[ast.AST, ast.AST, ast.AST]]:
    """(node, lower, upper) for every slice(a, b) call and a:b slice expression with both bounds."""
    out = []
    for n in walk_own(fi.node):
        if isinstance(n, ast.Call) and call_name(n) == "slice" and isinstance(n.func, ast.Name) and len(n.args) >= 2:
            out.append((n, n.args[0], n.args[1]))
        elif isinstance(n, ast.Slice) and n.lower is not None and n.upper is not None:
            out.append((n, n.lower, n.upper))
    return out


def _is_clamp(e: ast.AST, fn: str, fi: FuncInfo, depth: int = 0) -> Optional[ast.Call]:
    """e is (or is a local last assigned from) a two-argument max()/min() call."""
    if isinstance(e, ast.Call) and call_name(e) == fn and len(e.args) == 2:
        return e
    if isinstance(e, ast.Call) and call_name(e) in ("min", "max", "int", "clamp") and depth < 3:
        # nested two-sided clamp  min(max(0, v), n)
        for a in e.args:
            r = _is_clamp(a, fn, fi, depth + 1)
            if r is not None:
                return r
    if isinstance(e, ast.Name) and depth < 2:
        ds = _last_defs(fi, e.id)
        if ds:
            return _is_clamp(ds[-1], fn, fi, depth + 1)
    return None


def rule_clamps(prog: Program) -> List[Instance]:
    """Clamp roles: interval starts are clamped from below (max(0, .)), stops from above
    (min(N, .)); a pixel/tile count is at least one.  Bounds are located through the slice
    they end up in, never by variable name."""
    out: List[Instance] = []
    targets = [
        ("roi:roi_pad/pad_slice", "both", "padded slice stays inside [0, n]"),
        ("roi:Tiles.__getitem__/_slice", "upper", "last tile is cut at the image size"),
        ("geobox:GeoBox.overlap_roi", "twosided", "overlap region stays inside the first operand, also when the operands do not overlap"),
        ("roi:scaled_up_roi", "shape", "up-scaled region is clamped to the supplied shape"),
    ]
    for q, mode, what in targets:
        f = prog.maybe_func(q)
        if f is None:
            out.append(Instance("R-ROUND", f"{q}#clamp", UNDET, "function not found", ""))
            continue
        sb = _slice_bounds(f)
        if mode == "shape":
            # the clamped variant: both bounds are min(dim, .); the slice may be built in a local helper
            sbn = [(g, x) for g in [f] + list(f.nested.values()) for x in _slice_bounds(g)]
            cl = [(g, n, lo, hi) for g, (n, lo, hi) in sbn if _is_clamp(lo, "min", g) is not None or _is_clamp(hi, "min", g) is not None]
            if not cl:
                out.append(Instance("R-ROUND", f"{q}#clamp:shape", UNDET, "no slice with a min(dim, .) bound found in the function or its local helpers", f.where()))
                continue
            ok = all(_is_clamp(lo, "min", g) is not None and _is_clamp(hi, "min", g) is not None for g, _, lo, hi in cl)
            out.append(Instance("R-ROUND", f"{q}#clamp:shape", OK if ok else BAD, what if ok else "when a shape is supplied, both ends of the up-scaled slice must be min(dim, .)", f.where()))
            continue
        if not sb:
            out.append(Instance("R-ROUND", f"{q}#clamp", UNDET, "no slice found", f.where()))
            continue
        for k, (n, lo, hi) in enumerate(sb):
            sfx = f":{k}" if len(sb) > 1 else ""
            if mode == "twosided":
                # bounds come from an unbounded pixel-domain box: each end needs both clamps, or a
                # box lying entirely outside yields a negative / reversed slice that numpy reads as non-empty
                for nm_, b_ in (("start", lo), ("stop", hi)):
                    c0, c1 = _is_clamp(b_, "max", f), _is_clamp(b_, "min", f)
                    ok = c0 is not None and any(const_num(a) == 0 for a in c0.args) and c1 is not None and not any(const_num(a) is not None for a in c1.args)
                    out.append(Instance("R-ROUND", f"{q}#clamp:{nm_}{sfx}", OK if ok else BAD,
                                        f"{nm_} is clamped to [0, extent]: {what}" if ok else f"slice {nm_} `{short(b_)}` is not clamped on both sides (max(0, .) and min(extent, .)): for non-overlapping operands the slice is negative or reversed, which numpy does not read as empty", f.where(n)))
                continue
            if mode == "both":
                c = _is_clamp(lo, "max", f)
                ok = c is not None and any(const_num(a) == 0 for a in c.args)
                out.append(Instance("R-ROUND", f"{q}#clamp:start{sfx}", OK if ok else BAD, f"start is max(0, .): {what}" if ok else f"slice start `{short(lo)}` is not clamped with max(0, .)", f.where(n)))
            c = _is_clamp(hi, "min", f)
            ok = c is not None
            if ok and mode == "both":
                # the other operand of min() is an extent (a parameter / shape component), not a constant
                ok = not any(const_num(a) is not None for a in c.args)
            out.append(Instance("R-ROUND", f"{q}#clamp:stop{sfx}", OK if ok else BAD, f"stop is min(extent, .): {what}" if ok else f"slice stop `{short(hi)}` is not clamped with min(extent, .)", f.where(n)))
    # range_from_bbox._clamp: the floored start is clamped from below by 0, the ceiled stop from above by N
    f = prog.maybe_func("geobox:GeoboxTiles.range_from_bbox/_clamp")
    if f is not None:
        Np = f.param_names()[-1]
        for n in walk_own(f.node):
            if isinstance(n, ast.Call) and call_name(n) in ("clamp", "clip") and len(n.args) == 3:
                inner = {call_name(x) for x in ast.walk(n.args[0]) if isinstance(x, ast.Call)}
                if "floor" in inner:
                    ok = const_num(n.args[1]) == 0 and Np in names_in(n.args[2])
                    out.append(Instance("R-ROUND", f"{f.qual}#clamp:first", OK if ok else BAD, f"first pixel clamped to [0, {Np}-..]" if ok else f"`{short(n)}`: first pixel is not clamped between 0 and the image size", f.where(n)))
                if "ceil" in inner:
                    ok = Np in names_in(n.args[2]) and const_num(n.args[2]) is None
                    out.append(Instance("R-ROUND", f"{f.qual}#clamp:last", OK if ok else BAD, f"last pixel clamped from above by {Np}" if ok else f"`{short(n)}`: last pixel is not clamped by the image size", f.where(n)))
    # minimum one pixel: every COUNT produced by ceil in these helpers goes through max(1, .)
    for q in ("math:_snap_edge_pos", "math:snap_grid", "geobox:GeoBoxBase.compute_zoom_out"):
        f = prog.maybe_func(q)
        if f is None:
            continue
        ceils = [n for n in walk_own(f.node) if isinstance(n, ast.Call) and call_name(n) == "ceil"]
        maxes = [n for n in walk_own(f.node) if isinstance(n, ast.Call) and call_name(n) == "max" and any(const_num(a) == 1 for a in n.args)]
        # each count-ceil (not the interval stop in _snap_edge_pos, which feeds a difference) needs one max(1, .)
        need = len(ceils) if q != "math:_snap_edge_pos" else 1
        ok = len(maxes) >= need
        out.append(Instance("R-ROUND", f"{q}#at-least-one-pixel", OK if ok else BAD, "pixel count is max(1, .)" if ok else "a pixel count is no longer forced to at least 1", f.where()))
    return out
