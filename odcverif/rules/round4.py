"""Clauses added after the fourth round (defect hunt, repairs F57-F90).

Each clause states the structural part of a repaired defect: the construct whose absence (or presence) was
the cause, decided on the current source, so that the defect coming back is reported with the construct
named.  None of them matches text: values are followed through locals (Origins.closure / deps_names),
wrappers that do not change the value are looked through, and every clause lists the alternative repairs it
accepts.  What each one does *not* decide is said in its docstring.
"""
from __future__ import annotations

import ast
from typing import List, Optional, Set

from ..astutil import Origins, call_name, const_num, names_in
from ..cfg import Conditions
from ..loader import ClassInfo, FuncInfo, Program, dotted, enclosing_stmt, parent, short, walk_own
from ..report import BAD, INFO, OK, UNDET, Instance
from .guards import conds_at


def _calls(fn: FuncInfo, *names: str) -> List[ast.Call]:
    return [n for n in walk_own(fn.node) if isinstance(n, ast.Call) and call_name(n) in names]


# ---------------------------------------------------------------------------------------------
# C01 / C19 / C07: CRS text of an EPSG spec is canonical
# ---------------------------------------------------------------------------------------------
def epsg_str_canonical(prog: Program) -> List[Instance]:
    """F58. CRS.__eq__ has a text fast path for two `EPSG:` strings; `_make_crs` parses the code with int(),
    which (like PROJ) accepts `04326`, `+4326`, `4326\\n`. The stored text therefore has to be rebuilt from the
    parsed integer, or the fast path must not compare text. Accepted: (a) under the EPSG test the returned
    string is assigned from an f-string/format/str() of the int() result; (b) __eq__ compares parsed codes or
    has no textual EPSG fast path. Also: the int() parse must sit in a try (compound `EPSG:7856+5711` codes) or
    behind a digits test. Decides the text handling, not pyproj's own equality."""
    out: List[Instance] = []
    # the function that turns a spec into (pyproj object, text, code): discovered, not named - it tests the text for
    # the 'EPSG:' prefix and parses the remainder with int()
    cands = [f for f in prog.all_functions({"crs"}) if f.name != "__eq__" and f.cls is None
             and any(isinstance(n, ast.Call) and call_name(n) == "startswith" and n.args and isinstance(n.args[0], ast.Constant) and str(n.args[0].value).upper() == "EPSG:" for n in walk_own(f.node))
             and any(isinstance(n, ast.Call) and call_name(n) == "int" and n.args and not isinstance(n.args[0], (ast.Constant, ast.Name)) for n in walk_own(f.node))]
    if not cands:
        return [Instance("R-CACHE", "crs#STRCANON", UNDET, "no function in odc.geo.crs parses the code of an 'EPSG:' text with int() any more: re-read how the stored text is produced", "")]
    mk = cands[0]
    eq = prog.func("crs:CRS.__eq__")
    # does __eq__ compare `_str` of both sides under a startswith('EPSG:') condition?
    cond = Conditions(eq.body)
    text_fast = None
    for r in (n for n in walk_own(eq.node) if isinstance(n, ast.Return)):
        v = r.value
        if isinstance(v, ast.Compare) and len(v.ops) == 1 and isinstance(v.ops[0], ast.Eq) and all(isinstance(x, ast.Attribute) and x.attr == "_str" for x in (v.left, v.comparators[0])):
            cs = conds_at(cond, r)
            if any(p and any(isinstance(c, ast.Call) and call_name(c) == "startswith" for c in ast.walk(e)) for e, p in cs):
                text_fast = r
    ints = [c for c in _calls(mk, "int") if c.args and not isinstance(c.args[0], ast.Constant)]
    int_names: Set[str] = set()
    for n in walk_own(mk.node):
        if isinstance(n, ast.Assign) and isinstance(n.value, ast.Call) and call_name(n.value) == "int" and isinstance(n.targets[0], ast.Name):
            int_names.add(n.targets[0].id)
    rebuilt = False
    for n in walk_own(mk.node):
        if isinstance(n, ast.Assign) and isinstance(n.targets[0], ast.Name):
            v = n.value
            fv = [x.value for x in ast.walk(v) if isinstance(x, ast.FormattedValue)] if isinstance(v, ast.JoinedStr) else []
            if isinstance(v, ast.Call) and call_name(v) in ("format", "str") and v.args:
                fv = list(v.args)
            if fv and any((isinstance(x, ast.Name) and x.id in int_names) or (isinstance(x, ast.Call) and call_name(x) == "int") for x in fv):
                org = Origins(mk)
                # the rebuilt text reaches the returned tuple
                rets = [r for r in walk_own(mk.node) if isinstance(r, ast.Return) and r.value is not None]
                if any(n.targets[0].id in org.deps_names(r.value) for r in rets):
                    rebuilt = True
    # ... or the rebuilt text is returned in place: `return f"EPSG:{code}", code`
    for r in (r for r in walk_own(mk.node) if isinstance(r, ast.Return) and r.value is not None):
        for js in (x for x in ast.walk(r.value) if isinstance(x, ast.JoinedStr) or (isinstance(x, ast.Call) and call_name(x) in ("format", "str") and x.args)):
            fv = [x.value for x in ast.walk(js) if isinstance(x, ast.FormattedValue)] if isinstance(js, ast.JoinedStr) else list(js.args)
            if any((isinstance(x, ast.Name) and x.id in int_names) or (isinstance(x, ast.Call) and call_name(x) == "int") for x in fv):
                rebuilt = True
    if text_fast is None:
        out.append(Instance("R-CACHE", f"{mk.qual}#STRCANON", OK, "CRS.__eq__ has no textual EPSG fast path: spelling of the code cannot decide equality", eq.where()))
    else:
        out.append(Instance("R-CACHE", f"{mk.qual}#STRCANON", OK if rebuilt else BAD,
                            "for an EPSG spec the stored text is rebuilt from the parsed integer: every spelling PROJ accepts gives the same _str / hash / token and the text fast path of __eq__ is exact" if rebuilt else
                            f"CRS.__eq__ decides two EPSG specs by comparing their text (`{short(text_fast)}`) while _make_crs keeps the user's spelling: CRS('EPSG:04326') / CRS('EPSG:4326\\n') are unequal to CRS('EPSG:4326') although int() and PROJ read the same code (and equality is not transitive through the WKT form)", mk.where(ints[0]) if ints else mk.where()))
    # the parse tolerates compound codes
    for c in ints:
        in_try = False
        q: Optional[ast.AST] = c
        while q is not None and q is not mk.node:
            if isinstance(q, ast.Try) and any(isinstance(h.type, (ast.Name, ast.Tuple)) or h.type is None for h in q.handlers) and any(c is x for st in q.body for x in ast.walk(st)):
                in_try = True
            q = parent(q)
        digits = any(p and any(isinstance(x, ast.Call) and call_name(x) in ("isdigit", "isdecimal", "isnumeric", "fullmatch", "match") for x in ast.walk(e)) for e, p in conds_at(Conditions(mk.body), enclosing_stmt(c)))
        ok = in_try or digits
        out.append(Instance("R-CACHE", f"{mk.qual}#STRCANON:parse-guarded", OK if ok else BAD,
                            "the integer parse of the EPSG text is guarded (try/except or a digits test): compound `EPSG:<h>+<v>` codes fall through" if ok else
                            f"`{short(c)}` parses whatever follows 'EPSG:' unguarded: pyproj keeps compound CRSs as 'EPSG:7856+5711', CRS() of such a code (or of the pyproj object) raises ValueError from int()", mk.where(c)))
    return out


# ---------------------------------------------------------------------------------------------
# C01: explicit crs= versus CRS found on the operands
# ---------------------------------------------------------------------------------------------
def explicit_crs_checked(prog: Program) -> List[Instance]:
    """F57. A constructor that takes CRS-tagged operands *and* an explicit `crs` parameter, and defaults the
    parameter from the operands (`if crs is None: crs = found`), must on the other side compare the two (and
    raise) or re-project: otherwise tagged coordinates are silently re-labelled. Sites are discovered: every
    function with a parameter named `crs` and an `if crs is None:` whose body assigns `crs` from a value that
    originates in another parameter."""
    out: List[Instance] = []
    for fi in prog.all_functions({"gcp", "geobox", "geom"}):
        if "crs" not in fi.param_names():
            continue
        org = Origins(fi)
        for n in walk_own(fi.node):
            if not isinstance(n, ast.If):
                continue
            t = n.test
            # `crs is None` possibly or-ed with isinstance(crs, Unset)
            tests = t.values if isinstance(t, ast.BoolOp) and isinstance(t.op, ast.Or) else [t]
            if not any(isinstance(x, ast.Compare) and isinstance(x.left, ast.Name) and x.left.id == "crs" and isinstance(x.ops[0], ast.Is) and isinstance(x.comparators[0], ast.Constant) and x.comparators[0].value is None for x in tests):
                continue
            found = None
            for st in n.body:
                if isinstance(st, ast.Assign) and isinstance(st.targets[0], ast.Name) and st.targets[0].id == "crs":
                    deps = org.deps(st.value) - {"crs", "self"}
                    if deps:
                        found = st.value
            if found is None:
                continue
            other = list(n.orelse)
            cmp_ok = False
            for st in other:
                for x in ast.walk(st):
                    if isinstance(x, ast.Compare) and isinstance(x.ops[0], (ast.NotEq, ast.Eq)) and "crs" in org.deps_names(x) and (org.deps(x) - {"crs", "self"}):
                        cmp_ok = True
                    if isinstance(x, ast.Call) and call_name(x) in ("to_crs", "_to_crs") and "crs" in names_in(x):
                        cmp_ok = True
            out.append(Instance("R-CRSGUARD", f"{fi.qual}#explicit-crs", OK if cmp_ok else BAD,
                                "an explicit crs= is compared with (or the operand re-projected to) the CRS found on the operands" if cmp_ok else
                                f"`crs` defaults to `{short(found)}` when omitted, but an explicit crs= that contradicts the CRS of the tagged operands is applied without comparison: coordinates are re-labelled, not re-projected", fi.where(n)))
    if not out:
        out.append(Instance("R-CRSGUARD", "gcp+geobox+geom#explicit-crs", UNDET, "no constructor defaulting `crs` from its operands found (expected GCPMapping.__init__, GeoBox.from_geopolygon)", ""))
    return out


def wrapper_keywords(prog: Program) -> List[Instance]:
    """F59. The decorator that lifts shapely methods to Geometry replaces `def union(self, other)` by its own
    function: that function has to accept what the declared signature accepts, i.e. keywords (`**kwargs` or
    named parameters), not `*args` alone."""
    out: List[Instance] = []
    w = prog.maybe_func("geom:wrap_shapely")
    if w is None:
        return [Instance("R-WRAPNAME", "geom:wrap_shapely#keywords", UNDET, "decorator not found", "")]
    for nf in w.nested.values():
        a = nf.node.args
        ok = a.kwarg is not None or len(a.args) + len(a.kwonlyargs) >= 2
        out.append(Instance("R-WRAPNAME", f"{nf.qual}#keywords", OK if ok else BAD,
                            "the wrapper accepts keyword operands" if ok else
                            "the wrapper takes *args only: `a.union(other=b)` - legal for the declared signature and for shapely - raises TypeError before the CRS comparison", nf.where()))
    return out


# ---------------------------------------------------------------------------------------------
# C02 / C20: polynomial fits on layouts that do not determine the higher-order terms
# ---------------------------------------------------------------------------------------------
def poly_fit_rank_safe(prog: Program) -> List[Instance]:
    """F60. Pixel-side GCPs sit on axis-aligned sets (image border, two rows, two columns) on which some of the
    bi-quadratic / bilinear monomials are linearly dependent; a plain least-squares over the full basis then
    returns a solution that matches the GCPs and is far off between them, and `rcond=-1` (cut at machine
    epsilon) lets a 1e-16 singular value through. A fit over more than the three affine terms is accepted when
    (a) it solves the affine terms first and the full basis on the residual with a real cut-off (the
    minimum-norm residual fit keeps undetermined terms at 0), or (b) it reads the rank / singular values
    lstsq returns and falls back. Decides the shape of the solve, not its numerical quality."""
    out: List[Instance] = []
    ci = prog.cls("math:Poly2d")
    helper_ok: dict = {}

    def solve_quality(fn: FuncInfo) -> Optional[str]:
        ls = [c for c in _calls(fn, "lstsq")]
        if not ls:
            return None
        org = Origins(fn)
        bad_rcond = [c for c in ls if any(k.arg == "rcond" and isinstance(k.value, ast.UnaryOp) for k in c.keywords)]
        residual = any(len(c.args) >= 2 and any(isinstance(x, ast.BinOp) and isinstance(x.op, ast.Sub) for x in org.closure(c.args[1])) and any(isinstance(k.value, ast.Constant) and isinstance(k.value.value, float) and 0 < k.value.value < 1e-3 for k in c.keywords if k.arg == "rcond") for c in ls)
        rank_read = False
        for c in ls:
            st = enclosing_stmt(c)
            if isinstance(st, ast.Assign) and isinstance(st.targets[0], ast.Tuple):
                named = [e for e in st.targets[0].elts[1:] if isinstance(e, ast.Name) and e.id != "_"]
                used = {x.id for x in ast.walk(fn.node) if isinstance(x, ast.Name) and isinstance(x.ctx, ast.Load)}
                if any(e.id in used for e in named):
                    rank_read = True
        if residual and len(ls) >= 2:
            return "two-step"
        if rank_read:
            return "rank-read"
        return "plain" + (" rcond=-1" if bad_rcond else "")

    for m in ci.methods.values():
        q = solve_quality(m)
        if q is not None and m.name.startswith("_") and "fit" not in m.name:
            helper_ok[m.name] = q
    n = 0
    for m in ci.methods.values():
        width = None
        for c in _calls(m, "empty", "zeros", "ones"):
            if c.args and isinstance(c.args[0], ast.Tuple) and len(c.args[0].elts) == 2:
                width = const_num(c.args[0].elts[1])
        if width is None or width <= 3:
            continue
        n += 1
        q = solve_quality(m)
        if q is None:
            # delegated to a helper of the class
            for c in walk_own(m.node):
                if isinstance(c, ast.Call) and call_name(c) in helper_ok:
                    q = helper_ok[call_name(c)]
        ok = q in ("two-step", "rank-read")
        out.append(Instance("R-GUARDSEQ", f"{m.qual}#rank-safe", OK if ok else BAD,
                            f"{int(width)}-term fit: {q} solve (affine terms first, full basis on the residual with a cut-off / rank consulted)" if ok else
                            f"{int(width)}-term least squares solved in one step ({q}): for GCPs on the image border, on two rows/columns or at the corners of a 45 degree rotated image the design matrix is rank deficient and the result reproduces the GCPs but is hundreds of pixels off between them although the mapping is exactly affine", m.where()))
    if n < 2:
        out.append(Instance("R-GUARDSEQ", f"{ci.qual}#rank-safe", UNDET, f"expected the 4- and 9-term fits, found {n} methods allocating a design matrix wider than 3 columns", ""))
    return out


# ---------------------------------------------------------------------------------------------
# C03
# ---------------------------------------------------------------------------------------------
def scale_fit_offsets(prog: Program) -> List[Instance]:
    """F62. get_scale_at_point needs the linear part of the local transform only. Fitting [x, y, 1] against
    absolute pixel coordinates ~1e8 makes the columns collinear to 1e-8 and lstsq drops a singular value: the
    source points handed to affine_from_pts must be offsets (must not depend on the point `pt`), or
    affine_from_pts must normalise its input itself."""
    f = prog.func("overlap:get_scale_at_point")
    org = Origins(f)
    pt = f.param_names()[0]
    out: List[Instance] = []
    for c in _calls(f, "affine_from_pts"):
        if not c.args:
            continue
        dep = pt in org.deps(c.args[0])
        afp = prog.maybe_func("math:affine_from_pts")
        normalises = afp is not None and any(isinstance(x, ast.Call) and call_name(x) in ("norm_xy", "mean") for x in walk_own(afp.node))
        ok = (not dep) or normalises
        out.append(Instance("R-GUARDSEQ", f"{f.qual}#offset-fit", OK if ok else BAD,
                            "the local affine is fitted against offsets from the point (or the fit normalises its input): translation invariant" if ok else
                            f"`{short(c)}` fits against absolute pixel coordinates of `{pt}`: 7e7 pixels away from the origin (web-mercator zoom 19+) the fit is rank deficient and the reported scale is 1e-5 instead of 3", f.where(c)))
    if not out:
        out.append(Instance("R-GUARDSEQ", f"{f.qual}#offset-fit", UNDET, "affine_from_pts call not found", f.where()))
    return out


# ---------------------------------------------------------------------------------------------
# C04
# ---------------------------------------------------------------------------------------------
def tiles_edge_cases(prog: Program) -> List[Instance]:
    """F64. (1) VariableSizedTiles.__getitem__ reads the cumulative-offset arrays at normalised positions: a
    position that is still negative wraps around inside numpy a second time, so the lookup must be preceded by
    a range test that raises IndexError (as Tiles.__getitem__ and tile_shape have). (2) Tiles.chunks must not
    derive the tuple from `tile_shape()` of the first/last tile unconditionally: an axis with 0 tiles has
    neither."""
    out: List[Instance] = []
    g = prog.func("roi:VariableSizedTiles.__getitem__")
    subs = [n for n in walk_own(g.node) if isinstance(n, ast.Subscript) and any(isinstance(x, ast.Attribute) and x.attr in ("start", "stop") for x in ast.walk(n.slice))]
    raises = [r for r in walk_own(g.node) if isinstance(r, ast.Raise) and r.exc is not None and "IndexError" in short(r.exc)]
    guarded = False
    for r in raises:
        p = parent(r)
        while p is not None and p is not g.node:
            if isinstance(p, ast.If) and any(isinstance(c, ast.Compare) and any(isinstance(x, ast.Attribute) and x.attr == "start" for x in ast.walk(c)) and any(isinstance(o, (ast.Lt, ast.GtE, ast.LtE, ast.Gt)) for o in c.ops) for c in ast.walk(p.test)):
                guarded = True
            p = parent(p)
    if subs:
        out.append(Instance("R-NEGIDX", f"{g.qual}#range-check", OK if guarded else BAD,
                            "offset lookup is preceded by a range test on the normalised start that raises IndexError" if guarded else
                            f"`{short(subs[0])}` indexes the offsets array with a normalised position that can still be negative: index -n-2 silently returns the last tile (numpy wraps a second time) where Tiles and tile_shape raise IndexError", g.where(subs[0])))
    else:
        out.append(Instance("R-NEGIDX", f"{g.qual}#range-check", INFO, "offsets are not indexed by slice bounds any more", g.where(), nontrivial=False))
    ch = prog.func("roi:Tiles.chunks")
    cond = Conditions(ch.body)
    uncond = [c for c in _calls(ch, "tile_shape") if not conds_at(cond, enclosing_stmt(c))]
    out.append(Instance("R-EMPTY", f"{ch.qual}#empty-axis", BAD if uncond else OK,
                        f"`{short(uncond[0])}` is evaluated unconditionally: for a tiling with 0 tiles along an axis (crop to an empty block, GeoBox with a zero side) there is no first/last tile and .chunks raises IndexError" if uncond else
                        "chunk tuples are built per axis without asking for the shape of a tile that may not exist", ch.where(uncond[0]) if uncond else ch.where()))
    return out


# ---------------------------------------------------------------------------------------------
# C19: tokens
# ---------------------------------------------------------------------------------------------
ARRAY_MAKERS = {"asarray", "array", "cumsum", "stack", "vstack", "hstack", "arange", "linspace", "empty", "zeros", "ones", "_points_to_array"}
TOKEN_WRAPPERS = {"tobytes", "tolist", "tuple", "list", "str", "bytes", "normalize_token", "tokenize", "hash", "sha1", "md5", "hexdigest"}


def _array_fields(ci: ClassInfo) -> Set[str]:
    out: Set[str] = set()
    for m in ci.methods.values():
        me = m.self_name
        if me is None:
            continue
        org = Origins(m)
        for n in walk_own(m.node):
            tv = []
            if isinstance(n, ast.Assign):
                tv = [(t, n.value) for t in n.targets]
            elif isinstance(n, ast.AnnAssign) and n.value is not None:
                tv = [(n.target, n.value)]
            for t, v in tv:
                if isinstance(t, ast.Attribute) and isinstance(t.value, ast.Name) and t.value.id == me:
                    if any(isinstance(x, ast.Call) and call_name(x) in ARRAY_MAKERS for x in org.closure(v)):
                        out.add(t.attr)
    return out


def token_no_raw_arrays(prog: Program) -> List[Instance]:
    """F64/F65. What `__dask_tokenize__` returns ends up in the token through str(): numpy prints arrays
    abbreviated (>1000 elements) and rounded (8 digits), so a field holding an ndarray (assigned from
    np.asarray / cumsum / ... in the class) must not be returned as is, alone or splatted: it has to go
    through tobytes()/tolist()/tuple()/normalize_token. Decides which fields are arrays from the class's own
    assignments; fields assigned elsewhere are not seen."""
    out: List[Instance] = []
    n = 0
    for ci in prog.classes.values():
        m = ci.methods.get("__dask_tokenize__")
        if m is None:
            continue
        arr = _array_fields(ci)
        if not arr:
            continue
        n += 1
        me = m.self_name or "self"
        raw: List[ast.AST] = []
        for r in (x for x in walk_own(m.node) if isinstance(x, ast.Return) and x.value is not None):
            elts = r.value.elts if isinstance(r.value, ast.Tuple) else [r.value]
            for e in elts:
                e0 = e.value if isinstance(e, ast.Starred) else e
                if isinstance(e0, ast.Attribute) and isinstance(e0.value, ast.Name) and e0.value.id == me and e0.attr in arr:
                    raw.append(e0)
        out.append(Instance("R-VALUEOBJ", f"{ci.qual}#TOKENRAW", BAD if raw else OK,
                            f"__dask_tokenize__ returns the ndarray field(s) {sorted({x.attr for x in raw})} as they are: they enter the token as str(array), which elides the middle of arrays with more than 1000 elements and prints 8 digits - unequal objects share a token" if raw else
                            f"array-valued fields {sorted(arr)} reach the token through an exact encoding (tobytes/tolist/tuple)", m.where(raw[0]) if raw else m.where()))
    if n < 2:
        out.append(Instance("R-VALUEOBJ", "package#TOKENRAW", UNDET, f"expected GCPMapping and VariableSizedTiles (classes with array fields and a __dask_tokenize__), found {n}", ""))
    return out


# ---------------------------------------------------------------------------------------------
# C05
# ---------------------------------------------------------------------------------------------
def cog_header_and_dtype(prog: Program) -> List[Instance]:
    """F66. (1) The empty header is produced by handing tifffile an iterator of empty tiles; for an uncompressed
    level that is exactly one tile big tifffile drains the iterator, so it has to be bounded
    (`itertools.repeat(x, n)`), never `repeat(x)`. (2) Tiles are encoded from the array's memory while the header
    is written in native byte order, and tifffile declares 1 bit per sample for bool: save_cog_with_dask (or the
    header/tile functions) must look at byte order and at bool. (3) the no-compression codec is tifffile's
    identity function, which returns the ndarray: the encoder must be dropped for COMPRESSION.NONE or the raw
    branch be taken. Decides the presence of the three guards, not the bytes produced."""
    out: List[Instance] = []
    mk = prog.func("cog._tifffile:_make_empty_cog")
    for c in (n for n in walk_own(mk.node) if isinstance(n, ast.Call) and isinstance(n.func, ast.Attribute) and n.func.attr == "write"):
        if not c.args:
            continue
        org = Origins(mk)
        # the data argument itself, or the local it was bound to (not everything it transitively depends on)
        direct = list(ast.walk(c.args[0]))
        if isinstance(c.args[0], ast.Name):
            direct += [x for _k, v in org.defs.get(c.args[0].id, []) for x in ast.walk(v)]
        reps = [x for x in direct if isinstance(x, ast.Call) and call_name(x) == "repeat"]
        unbounded = [x for x in reps if len(x.args) + len(x.keywords) < 2]
        out.append(Instance("R-TERMINATION", f"{mk.qual}#bounded-iterator", BAD if unbounded else OK,
                            f"`{short(unbounded[0])}` hands the TIFF writer an endless iterator: for an uncompressed level of exactly one tile tifffile takes its contiguous path and drains it - save_cog_with_dask(compression='none') never returns" if unbounded else
                            "the empty-tile iterator handed to the TIFF writer is bounded", mk.where(c)))
    sv = prog.func("cog._tifffile:save_cog_with_dask")
    fns = [sv, mk] + [f for f in (prog.maybe_func("cog._tifffile:_compress_tiles"),) if f is not None]
    sees_order = any(isinstance(n, ast.Attribute) and n.attr in ("isnative", "byteorder", "newbyteorder") or (isinstance(n, ast.Call) and call_name(n) in ("newbyteorder", "byteswap")) for f in fns for n in walk_own(f.node))
    sees_bool = any(isinstance(n, ast.Compare) and any(isinstance(x, ast.Constant) and x.value in ("bool", "b", "?") for x in ast.walk(n)) and any(isinstance(x, ast.Attribute) and x.attr in ("dtype", "kind", "name") for x in ast.walk(n)) for f in fns for n in walk_own(f.node))
    out.append(Instance("R-GUARDSEQ", f"{sv.qual}#native-dtype", OK if sees_order and sees_bool else BAD,
                        "byte order and bool are normalised before header and tiles are produced" if sees_order and sees_bool else
                        f"nothing on the dask COG path looks at {'byte order' if not sees_order else ''}{' / ' if not sees_order and not sees_bool else ''}{'bool' if not sees_bool else ''} of the source dtype: the header is native-endian (1 bit per sample for bool) while tiles are encoded from the array's memory as it is - '>u2' and bool rasters are written without error and decode to garbage", sv.where()))
    tc = prog.func("cog._tifffile:_mk_tile_compressor")
    none_aware = any(isinstance(n, (ast.Compare, ast.IfExp, ast.If)) and any(isinstance(x, ast.Attribute) and x.attr == "compression" for x in ast.walk(n)) and any((isinstance(x, ast.Constant) and x.value == 1) or (isinstance(x, ast.Attribute) and x.attr == "NONE") for x in ast.walk(n)) for n in walk_own(tc.node))
    out.append(Instance("R-GUARDSEQ", f"{tc.qual}#none-codec", OK if none_aware else BAD,
                        "COMPRESSION.NONE gets no encoder: tiles are emitted as raw bytes" if none_aware else
                        "the encoder is looked up in TIFF.COMPRESSORS whatever the compression: for COMPRESSION.NONE that is tifffile's identity function (truthy), the 'compressed' tile is an ndarray and MPUChunk.append fails with a broadcast error", tc.where()))
    return out


# ---------------------------------------------------------------------------------------------
# C06
# ---------------------------------------------------------------------------------------------
def mpu_task_hygiene(prog: Program) -> List[Instance]:
    """F67. (1) dask tasks must be re-runnable: the per-partition op and merge() must not call a mutating
    method (append / maybe_write / flush_rhs) on an object that is one of their inputs - the receiver has to
    be re-bound to a copy or a fresh object first. (2) mpu_write hands out part numbers up front: it must
    consult the writer's max_part. (3) the key of the finalising task must depend on the data stream."""
    out: List[Instance] = []
    MUT = {"append", "maybe_write", "flush_rhs", "flush"}
    FRESH = {"_clone", "clone", "copy", "deepcopy", "MPUChunk", "replace", "merge"}
    from ..cfg import ReachingDefs

    # every function dask runs as a task (the module-level *_op functions) and merge(), which they call on inputs
    tasks = [f for f in prog.all_functions({"cog._mpu"}) if f.cls is None and f.parent is None and f.name.endswith("_op")]
    mg = prog.maybe_func("cog._mpu:MPUChunk.merge")
    if mg is not None:
        tasks.append(mg)
    for f in tasks:
        rd = ReachingDefs(f.node)
        for c in (n for n in walk_own(f.node) if isinstance(n, ast.Call) and isinstance(n.func, ast.Attribute) and n.func.attr in MUT and isinstance(n.func.value, ast.Name)):
            recv = c.func.value.id  # type: ignore[union-attr]
            defs = rd.reaching(enclosing_stmt(c), recv)
            # on EVERY path the receiver was bound to a copy / a freshly built chunk (merge() and the constructor build
            # new objects); a parameter, an element unpacked from a parameter or an alias of one is an input
            stale = [d for d in defs if not (d[3] == "assign" and isinstance(d[2], ast.Call) and call_name(d[2]) in FRESH)]
            bad = bool(stale) or not defs
            out.append(Instance("R-MPU", f"{f.qual}#no-input-mutation:{recv}.{c.func.attr}", BAD if bad else OK,
                                f"`{short(c, 50)}` mutates `{recv}`, which on some path is still (an element of) the task's input ({'; '.join(sorted({short(d[1], 40) if d[1] is not None and not isinstance(d[1], ast.arg) else 'parameter' for d in stale}))}): the object lives in the dask graph or on another worker, a second compute() or a retry starts from the dirty state and writes chunks / footer twice" if bad else
                                f"`{recv}` is a copy / freshly built chunk on every path when `{c.func.attr}` is called on it", f.where(c)))
    # the copy itself must not share mutable state with the original
    ci = prog.cls("cog._mpu:MPUChunk")
    cl = ci.methods.get("_clone") or ci.methods.get("clone")
    if cl is not None:
        init = ci.methods.get("__init__")
        # fields that hold a mutable container: assigned in __init__ from a list / bytearray literal or constructor
        mutable: Set[str] = set()
        if init is not None:
            for n in walk_own(init.node):
                tv = [(t, n.value) for t in n.targets] if isinstance(n, ast.Assign) else [(n.target, n.value)] if isinstance(n, ast.AnnAssign) and n.value is not None else []
                for t, v in tv:
                    if isinstance(t, ast.Attribute) and isinstance(t.value, ast.Name) and t.value.id == (init.self_name or "self"):
                        if any(isinstance(x, (ast.List, ast.Dict, ast.Set)) or (isinstance(x, ast.Call) and call_name(x) in ("bytearray", "list", "dict", "set")) for x in ast.walk(v)):
                            mutable.add(t.attr)
        me = cl.self_name or "self"
        shared = []
        for r in (x for x in walk_own(cl.node) if isinstance(x, ast.Return) and isinstance(x.value, ast.Call)):
            for a in list(r.value.args) + [k.value for k in r.value.keywords]:
                leaves = [a.body, a.orelse] if isinstance(a, ast.IfExp) else [a]
                for e in leaves:
                    if isinstance(e, ast.Attribute) and isinstance(e.value, ast.Name) and e.value.id == me and e.attr in mutable:
                        shared.append(e)
        out.append(Instance("R-MPU", f"{cl.qual}#copies-mutable-fields", BAD if shared else OK,
                            f"the copy is built with `{short(shared[0])}` as it is: the working copy a task makes shares that container with the object in the graph, receipts / bytes appended during one run are still there on the next" if shared else
                            f"every mutable field ({sorted(mutable)}) is copied into the clone", cl.where(shared[0]) if shared else cl.where()))
    w = prog.func("cog._mpu:mpu_write")
    reads_max = any(isinstance(n, ast.Attribute) and n.attr == "max_part" for n in walk_own(w.node))
    out.append(Instance("R-MPU", f"{w.qual}#part-range", OK if reads_max else BAD,
                        "part-number allocation consults the writer's max_part" if reads_max else
                        "part numbers are handed out as min_part + 1 + partition * writes_per_chunk without looking at write.max_part: 12 partitions x 1000 credits give an S3 writer part 11002", w.where()))
    org = Origins(w)
    toks = _calls(w, "tokenize")
    stream_param = w.param_names()[0]
    ok = any(stream_param in org.deps(a) for c in toks for a in c.args)
    uniq = any(isinstance(n, ast.Call) and call_name(n) in ("uuid4", "uuid1") for n in walk_own(w.node))
    out.append(Instance("R-CACHE", f"{w.qual}#token-covers-stream", OK if ok or uniq else BAD,
                        "the finalising task's key depends on the data stream (or is unique)" if ok or uniq else
                        f"the key of the finalising task is built from `{short(toks[0], 60) if toks else '?'}`, which does not depend on `{stream_param}`: two writes of different streams to one destination share the key and one of them is dropped", w.where(toks[0]) if toks else w.where()))
    return out


# ---------------------------------------------------------------------------------------------
# C09
# ---------------------------------------------------------------------------------------------
def affine_st_relative(prog: Program) -> List[Instance]:
    """F70. `is_affine_st` decides whether x/y labels can describe the grid. Its tolerance has to be relative to
    the scale terms (pixel size): with an absolute 1e-10 a geographic grid of 1e-7 degree pixels rotated by
    0.05 degrees passes as axis aligned and the far corner is 8.8 px off. Accepted: every comparison of a
    rotation/shear term has a product (or quotient) with a scale term on the other side."""
    f = prog.func("math:is_affine_st")
    out: List[Instance] = []
    cmps = [n for r in walk_own(f.node) if isinstance(r, ast.Return) and r.value is not None for n in ast.walk(r.value) if isinstance(n, ast.Compare)]
    if not cmps:
        return [Instance("R-ROTTOL", f"{f.qual}#relative", UNDET, "no comparison in the return expression", f.where())]
    rel = all(any(isinstance(x, ast.BinOp) and isinstance(x.op, (ast.Mult, ast.Div)) for side in [c.left] + c.comparators for x in ast.walk(side)) for c in cmps)
    out.append(Instance("R-ROTTOL", f"{f.qual}#relative", OK if rel else BAD,
                        "rotation/shear terms are compared with tol times the scale terms" if rel else
                        f"`{short(cmps[0])}` compares a rotation/shear term with an absolute tolerance: for pixels of 1e-7 CRS units a term of 8.7e-11 is an 8.7e-4 rad rotation (8.7 px over 10000 columns) and passes as 'scale and translation only'", f.where(cmps[0])))
    return out


# ---------------------------------------------------------------------------------------------
# C10 / C13
# ---------------------------------------------------------------------------------------------
def warp_buffers(prog: Program) -> List[Instance]:
    """F71/F72. (1) GDAL takes numpy buffers as native-endian: _rio_reproject must look at the byte order of
    src/dst. (2) the detour through a wider integer type copies back with casting='unsafe': values GDAL moved
    just outside the narrow range (it steps valid pixels off the nodata value) wrap around unless clipped."""
    f = prog.func("warp:_rio_reproject")
    out: List[Instance] = []
    fns = [f] + list(f.nested.values())
    sees_order = any(isinstance(n, ast.Attribute) and n.attr in ("isnative", "byteorder", "newbyteorder") for _g, n in prog.closure_nodes(f))
    out.append(Instance("R-GUARDSEQ", f"{f.qual}#native-dtype", OK if sees_order else BAD,
                        "arrays in non-native byte order are converted before GDAL sees them" if sees_order else
                        "src/dst go to rasterio.warp.reproject whatever their byte order (the dtype *name* of '>f4' is 'float32' too): GDAL reads and writes them as native, NaN fill comes back as 6.9e-41", f.where()))
    cps = [c for g in fns for c in _calls(g, "copyto") if any(k.arg == "casting" and isinstance(k.value, ast.Constant) and k.value.value == "unsafe" for k in c.keywords)]
    clipped = any(isinstance(x, ast.Call) and call_name(x) == "clip" for c in cps for x in ast.walk(c))
    if cps:
        out.append(Instance("R-CAST", f"{f.qual}#detour-clip", OK if clipped else BAD,
                            "the integer detour clips to the destination type before the unsafe cast" if clipped else
                            f"`{short(cps[0], 60)}`: every copy back from the wider working type is an unsafe cast without clipping - a valid int8 -128 that GDAL moved to -129 (dst_nodata=-128, no src nodata) comes back as +127", f.where(cps[0])))
    return out


# ---------------------------------------------------------------------------------------------
# C11
# ---------------------------------------------------------------------------------------------
def same_crs_shortcut(prog: Program) -> List[Instance]:
    """F73. compute_output_geobox returns the source itself for a same-CRS request. The statement allows that
    for the all-defaults request only; for a rotated source any other option (tight, resolution='same') must
    go through from_bbox, so the condition of `return gbox` has to involve `tight` and the source's
    axis-alignment."""
    f = prog.func("overlap:compute_output_geobox")
    cond = Conditions(f.body)
    src = f.param_names()[0]
    out: List[Instance] = []
    for r in (n for n in walk_own(f.node) if isinstance(n, ast.Return) and isinstance(n.value, ast.Name) and n.value.id == src):
        cs = conds_at(cond, r)
        nm: Set[str] = set()
        attrs: Set[str] = set()
        for e, p in cs:
            nm |= names_in(e)
            attrs |= {x.attr for x in ast.walk(e) if isinstance(x, ast.Attribute)}
        ok = "tight" in nm and bool(attrs & {"axis_aligned", "is_axis_aligned", "rotation", "linear"} or any(isinstance(x, ast.Call) and call_name(x) in ("is_affine_st",) for e, _p in cs for x in ast.walk(e)))
        out.append(Instance("R-GUARDSEQ", f"{f.qual}#same-crs-shortcut", OK if ok else BAD,
                            "the source is returned unchanged only if it is axis aligned or every option is default (tight included)" if ok else
                            f"`return {src}` is taken whatever `tight` is and for resolution='same' too: a rotated source asked for its own CRS with tight=True comes back rotated, not axis aligned in the requested CRS", f.where(r)))
    if not out:
        out.append(Instance("R-GUARDSEQ", f"{f.qual}#same-crs-shortcut", INFO, "no `return <source>` shortcut", f.where(), nontrivial=False))
    return out


# ---------------------------------------------------------------------------------------------
# C12 / C13
# ---------------------------------------------------------------------------------------------
def tile_query_nonlinear(prog: Program) -> List[Instance]:
    """F75/F77/F78. (1) GeoboxTiles.tiles narrows candidates with range_from_bbox, which maps the query through
    world->pixel; for a GCP geobox that mapping is an independent fit, so the narrowing is only valid under a
    `.linear` condition (or not at all). (2) _check_linear snaps the pixel-to-pixel scale; the tolerance must
    depend on the raster sizes (a 1e-6 relative error is 18 px over 2e7 columns). (3) on the general path of
    grid_intersect each destination tile's query is padded (buffer) before the source tiling is asked: GDAL's
    approximate transformer may sample a fraction of a source pixel outside the exact footprint."""
    out: List[Instance] = []
    t = prog.func("geobox:GeoboxTiles.tiles")
    cond = Conditions(t.body)
    for c in _calls(t, "range_from_bbox"):
        cs = conds_at(cond, enclosing_stmt(c))
        if any(p and isinstance(e, ast.Compare) and isinstance(e.ops[0], ast.Is) and isinstance(e.left, ast.Attribute) and e.left.attr == "crs" and isinstance(e.comparators[0], ast.Constant) and e.comparators[0].value is None for e, p in cs):
            continue  # a CRS-less box is already in the pixel plane: no world->pixel mapping involved
        ok = any(p and any(isinstance(x, ast.Attribute) and x.attr == "linear" for x in ast.walk(e)) for e, p in cs)
        out.append(Instance("R-GUARDSEQ", f"{t.qual}#nonlinear-all-tiles", OK if ok else BAD,
                            "candidate narrowing through world->pixel happens only for linear geoboxes" if ok else
                            f"`{short(c, 50)}` narrows the candidate tiles through wld2pix for every kind of geobox: for a GCP geobox that is a separate fit (5 px off the footprints on the repository's own sample) and world-aligned boxes are curved in pixel space - whole rows of intersecting tiles are never looked at", t.where(c)))
    cl = prog.func("geobox:GeoboxTiles._check_linear")
    org = Origins(cl)
    for c in _calls(cl, "snap_affine"):
        st = next((k.value for k in c.keywords if k.arg == "stol"), None)
        ok = st is not None and any(isinstance(x, ast.Attribute) and x.attr in ("shape", "width", "height", "size") for x in org.closure(st))
        out.append(Instance("R-GUARDSEQ", f"{cl.qual}#size-aware-stol", OK if ok else BAD,
                            "the scale snapping tolerance shrinks with the raster size" if ok else
                            f"`{short(c, 60)}` snaps the pixel-to-pixel scale with a fixed relative tolerance: over millions of columns the snapped mapping is whole pixels off and the dependency graph misses the neighbouring source tile", cl.where(c)))
    gi = prog.func("geobox:GeoboxTiles.grid_intersect")
    orgg = Origins(gi)
    srcp = [p.arg for p in gi.positional_params()][1]
    hits = [c for c in (n for n in walk_own(gi.node) if isinstance(n, ast.Call) and call_name(n) == "tiles" and isinstance(n.func, ast.Attribute) and short(n.func.value) == srcp and n.args) if isinstance(parent(enclosing_stmt(c)), ast.For) or any(isinstance(p_, ast.For) for p_ in _anc(c, gi.node))]
    for c in hits[:1]:
        padded = any(isinstance(x, ast.Call) and call_name(x) in ("buffer", "buffered", "pad") for x in orgg.closure(c.args[0]))
        out.append(Instance("R-GUARDSEQ", f"{gi.qual}#source-pixel-slack", OK if padded else BAD,
                            "each destination tile's query is padded before the source tiling is asked" if padded else
                            f"`{short(c, 50)}` asks for the source tiles of the exact footprint: the warp's approximate transformer samples up to a fraction of a source pixel outside it, tiles just outside are assembled as nodata and show as seams of holes inside the image (x32 up-sampling, 1x1 source chunks)", gi.where(c)))
    return out


def _anc(n: ast.AST, stop: ast.AST):
    p = parent(n)
    while p is not None and p is not stop:
        yield p
        p = parent(p)


# ---------------------------------------------------------------------------------------------
# C14
# ---------------------------------------------------------------------------------------------
def web_tiles_exact(prog: Program) -> List[Instance]:
    """F79. The slippy-map tile size pi*R*2**(1-z) is exact in floating point; from_sample_tile recovers it as
    the difference of two ~2e7 coordinates (one ulp = 3.7e-9 lost) which GridSpec then multiplies by the tile
    index. web_tiles must pass the tile size / resolution it computed to the constructor, not go through a
    sample tile."""
    f = prog.func("gridspec:GridSpec.web_tiles")
    via = _calls(f, "from_sample_tile", "from_sample_bin")
    return [Instance("R-PRECISION", f"{f.qual}#exact-tile-size", BAD if via else OK,
                     f"`{short(via[0], 60)}`: the grid is rebuilt from a sample tile, its size recovered by subtracting the tile's edges: from zoom 4 on tile edges are off by more than the 1e-8 contact tolerance, 13 px at zoom 25" if via else
                     "the grid is constructed from the exactly computed tile size", f.where(via[0]) if via else f.where())]


# ---------------------------------------------------------------------------------------------
# C15
# ---------------------------------------------------------------------------------------------
def rio_writer_inputs(prog: Program) -> List[Instance]:
    """F80/F81. (1) a float nodata is handed to GDAL as stored in the pixel type (the value passes through the
    dtype's scalar type / astype): otherwise main image and overviews are tagged with different roundings and
    GDALClose spins. (2) write_cog / write_cog_layers look at the position of the x dimension (directly or
    through a helper): `_write_cog` assumes rows then columns."""
    out: List[Instance] = []
    w = prog.func("cog._rio:_write_cog")
    org = Origins(w)
    upd = [c for c in _calls(w, "update") if any(k.arg == "nodata" for k in c.keywords)]
    if upd:
        v = next(k.value for k in upd[0].keywords if k.arg == "nodata")
        conv = any((isinstance(x, ast.Attribute) and x.attr in ("type", "astype")) or (isinstance(x, ast.Call) and call_name(x) in ("float32", "astype", "asarray", "array")) for x in org.closure(v))
        out.append(Instance("R-CAST", f"{w.qual}#nodata-as-stored", OK if conv else BAD,
                            "float nodata is rounded to the pixel type before GDAL gets it" if conv else
                            "nodata goes to GDAL as the Python float the caller gave: for float32 pixels and nodata=0.1 the image is tagged 0.1 and the overviews 0.100000001490116, closing the dataset never returns once two overview levels exist", w.where(upd[0])))
    for q in ("cog._rio:write_cog", "cog._rio:write_cog_layers"):
        f = prog.func(q)
        reach = list(prog.reachable([f]))
        # helpers handed over as values (`map(_yx_order, xx)`) count as used
        for n in walk_own(f.node):
            if isinstance(n, ast.Name) and isinstance(n.ctx, ast.Load):
                g = prog.maybe_func(f"{f.mod.name}:{n.id}")
                if g is not None and g not in reach:
                    reach.append(g)
        sees = any(isinstance(n, ast.Attribute) and n.attr == "xdim" for g in reach if g.mod.name == "cog._rio" for n in walk_own(g.node))
        out.append(Instance("R-GUARDSEQ", f"{q}#yx-order", OK if sees else BAD,
                            "the order of the spatial dimensions is checked (x has to follow y) before pixels are handed over" if sees else
                            "only `ydim` is looked at: a DataArray with dims (x, y) is written as if it were (y, x) - transposed relative to its transform for square images, a bare AssertionError otherwise", f.where()))
    return out


# ---------------------------------------------------------------------------------------------
# C16
# ---------------------------------------------------------------------------------------------
def grid_union_details(prog: Program) -> List[Instance]:
    """F82/F83. (1) geobox_union_conservative leaves operands without pixels out of the extent (is_empty
    consulted). (2) the near-integer test of the pixel translation widens its tolerance by the floating point
    spacing of the origin coordinates (an ulp/spacing term): 5 cm pixels at 6e6 m are known to 2e-8 px only."""
    out: List[Instance] = []
    u = prog.func("geobox:geobox_union_conservative")
    sees = any((isinstance(n, ast.Call) and call_name(n) == "is_empty") or (isinstance(n, ast.Attribute) and n.attr in ("is_empty",)) for n in walk_own(u.node))
    out.append(Instance("R-LATTICE", f"{u.qual}#skip-empty", OK if sees else BAD,
                        "operands without pixels do not contribute to the union's extent" if sees else
                        "every operand's pixel-domain box enters the union, empty ones included: (a & b) | c for disjoint a, b is stretched to wherever the empty intersection is parked, the union of two empty geoboxes is non-empty", u.where()))
    bb = prog.func("geobox:bounding_box_in_pixel_domain")
    org = Origins(bb)
    ai = _calls(bb, "is_almost_int")
    spacing = any(isinstance(x, ast.Call) and call_name(x) in ("ulp", "spacing", "nextafter") or (isinstance(x, ast.Attribute) and x.attr == "eps") for c in ai for a in c.args[1:] + [k.value for k in c.keywords] for x in org.closure(a))
    if not spacing:
        # the tolerance may be computed by a private helper: look inside the helpers the tolerance expression calls
        def _is_spacing(x: ast.AST) -> bool:
            return isinstance(x, ast.Call) and call_name(x) in ("ulp", "spacing", "nextafter") or (isinstance(x, ast.Attribute) and x.attr == "eps")
        for c in ai:
            for a in c.args[1:] + [k.value for k in c.keywords]:
                for x in org.closure(a):
                    if isinstance(x, ast.Call) and any(g is not bb and _is_spacing(y) for g, y in prog.closure_nodes(bb, x)):
                        spacing = True
    out.append(Instance("R-GUARDSEQ", f"{bb.qual}#spacing-aware-tol", OK if spacing else BAD,
                        "the near-integer tolerance accounts for the floating point spacing of the origins" if spacing else
                        "the pixel translation is tested against a fixed 1e-8 px: origins of crops of one grid are only known to ulp(coordinate)/pixel, which is 2e-8 px for 5 cm pixels at 6e6 m - 40% of crop pairs of one base GeoBox are rejected as incompatible", bb.where(ai[0]) if ai else bb.where()))
    return out


# ---------------------------------------------------------------------------------------------
# C17
# ---------------------------------------------------------------------------------------------
def slice_normalisation(prog: Program) -> List[Instance]:
    """F63. `_norm_slice` (behind roi_normalise / roi_pad / roi_is_full) (1) clamps non-negative bounds to the
    axis length as numpy does (a `min(.., n)` on the non-negative side), (2) turns the bounds into Python ints
    (operator.index / int) before doing arithmetic with them: slice bounds may be unsigned or narrow numpy
    scalars, `n + x` and `stop - start` then wrap or overflow. The same conversion is required in roi_shape and
    _norm_slice_or_error, which read `.start/.stop` directly."""
    out: List[Instance] = []
    ns = prog.func("roi:_norm_slice")
    clamps = any(isinstance(n, ast.Call) and call_name(n) == "min" and any(isinstance(a, ast.Name) and a.id == ns.param_names()[1] for a in n.args) for n in walk_own(ns.node))
    if not clamps:
        # ... or in a private helper that is handed the axis length
        n_p = ns.param_names()[1]
        for g, x in prog.closure_nodes(ns):
            if g is not ns and isinstance(x, ast.Call) and call_name(x) == "min" and any(isinstance(a, ast.Name) and a.id in g.param_names() for a in x.args) \
                    and any(cs_ is ns and any(isinstance(a, ast.Name) and a.id == n_p for a in list(call_.args) + [k.value for k in call_.keywords]) for cs_, call_ in prog.callers_of(g)):
                clamps = True
    out.append(Instance("R-NEGIDX", f"{ns.qual}#clamp-past-end", OK if clamps else BAD,
                        "offsets past the end stop at the end, as in numpy" if clamps else
                        "non-negative bounds are passed through unclamped: roi_normalise(s_[5:20], 10) describes 15 elements where X[5:20] has 5, roi_pad(s_[12:14], 1, 10) leaves the array", ns.where()))
    for q in ("roi:_norm_slice", "roi:_norm_slice_or_error", "roi:roi_shape"):
        f = prog.func(q)
        fns = [f] + list(f.nested.values())
        reads = [n for g in fns for n in walk_own(g.node) if isinstance(n, ast.Attribute) and n.attr in ("start", "stop") and isinstance(n.ctx, ast.Load)]
        raw_arith = []
        for g in fns:
            org = Origins(g)
            for n in walk_own(g.node):
                if isinstance(n, ast.BinOp) and isinstance(n.op, (ast.Add, ast.Sub)):
                    for side in (n.left, n.right):
                        cl = org.closure(side)
                        has_bound = any(isinstance(x, ast.Attribute) and x.attr in ("start", "stop") for x in cl)
                        conv = any(isinstance(x, ast.Call) and call_name(x) in ("index", "int", "_norm_slice", "_norm_slice_or_error", "norm_slice_2d") for x in cl)
                        if has_bound and not conv:
                            raw_arith.append(n)
        if not reads:
            continue
        out.append(Instance("R-NUMNORM", f"{q}#bounds-as-int", BAD if raw_arith else OK,
                            f"`{short(raw_arith[0])}` does arithmetic with a slice bound as it is: bounds that are unsigned / narrow numpy scalars wrap or overflow (roi_pad(s_[uint16(2):uint16(5)], 3, 10) was slice(65535, 8))" if raw_arith else
                            "slice bounds are converted with operator.index()/int() before any arithmetic", f.where(raw_arith[0]) if raw_arith else f.where()))
    return out


# ---------------------------------------------------------------------------------------------
# C18
# ---------------------------------------------------------------------------------------------
def sink_identity(prog: Program) -> List[Instance]:
    """F84/F85. (1) with a shared parts_base the parts directory must depend on more than the destination's
    file name (its full path, a digest, a uuid): out/2020/red.tif and out/2021/red.tif otherwise share part
    files. (2) the token of the S3 writer names the Variable/Lock of the cluster-coordinated upload and the task
    keys: it must include the endpoint (same bucket/key on another store is another object)."""
    out: List[Instance] = []
    init = prog.func("cog._mpu_fs:MPUFileSink.__init__")
    org = Origins(init)
    cond = Conditions(init.body)
    for n in walk_own(init.node):
        if isinstance(n, ast.Assign) and isinstance(n.targets[0], ast.Name) and n.targets[0].id == "parts_dir":
            cs = conds_at(cond, n)
            def _given(e: ast.AST, pol: bool) -> bool:
                # the side on which parts_base was supplied: `parts_base is None` false / `is not None` true
                if isinstance(e, ast.Compare) and isinstance(e.left, ast.Name) and e.left.id == "parts_base" and isinstance(e.comparators[0], ast.Constant) and e.comparators[0].value is None:
                    return (isinstance(e.ops[0], ast.Is) and not pol) or (isinstance(e.ops[0], ast.IsNot) and pol)
                return False

            shared = any(_given(e, p) for e, p in cs) or any("parts_base" in names_in(x) for x in ast.walk(n.value))
            if not shared:
                continue
            cl = org.closure(n.value)
            more = any((isinstance(x, ast.Attribute) and x.attr in ("parent", "parts", "stem") and False) or (isinstance(x, ast.Call) and call_name(x) in ("absolute", "resolve", "sha1", "md5", "sha256", "uuid4", "hash", "tokenize", "as_posix", "str")) for x in cl)
            out.append(Instance("R-SHAREDWRITE", f"{init.qual}#parts-dir-unique", OK if more else BAD,
                                "under a shared parts_base the parts directory is derived from the full destination path" if more else
                                f"`{short(n, 70)}`: under a shared parts_base the parts directory depends on the file *name* only: two destinations called red.tif in different directories overwrite each other's part files", init.where(n)))
    for q in ("cog._s3:DelayedS3Writer.__dask_tokenize__", "cog._s3:MultiPartUpload.__dask_tokenize__"):
        f = prog.func(q)
        has = any(isinstance(n, ast.Attribute) and n.attr == "endpoint_url" for n in walk_own(f.node))
        out.append(Instance("R-VALUEOBJ", f"{q}#endpoint", OK if has else BAD,
                            "the token covers the endpoint" if has else
                            "the token is (bucket, key) only: the same object name on two S3-compatible stores is one task / one shared Variable, the second upload never happens", f.where()))
    return out


# ---------------------------------------------------------------------------------------------
# C20 / C02: a dispatch on the number of points agrees with the precondition the callee asserts
# ---------------------------------------------------------------------------------------------
def dispatch_matches_precondition(prog: Program) -> List[Instance]:
    """Seed C20-r2s1 (stated-belief contradiction, Engler et al.): `Poly2d.fit` picks the model by the number of
    points and each `_fitK` asserts the number it needs (`assert N >= 9`). The lower bound under which `fit` calls
    `_fitK` must equal the bound `_fitK` asserts: a stricter dispatch (`N > 9`) sends a determined system of
    exactly 9 points to the lower-order model - exactly representable bi-quadratic mappings are no longer
    reproduced - and a weaker one trips the assert. Integer bounds are normalised (`N > k` is `N >= k+1`)."""
    out: List[Instance] = []
    ci = prog.cls("math:Poly2d")
    fit = ci.methods.get("fit")
    if fit is None:
        return [Instance("R-SIBLING", f"{ci.qual}#dispatch-bound", UNDET, "Poly2d.fit not found", "")]

    def lower_bound(test: ast.AST, var: str) -> Optional[int]:
        if isinstance(test, ast.Compare) and len(test.ops) == 1 and isinstance(test.left, ast.Name) and test.left.id == var:
            k = const_num(test.comparators[0])
            if k is None:
                return None
            if isinstance(test.ops[0], ast.GtE):
                return int(k)
            if isinstance(test.ops[0], ast.Gt):
                return int(k) + 1
        return None

    cond = Conditions(fit.body)
    n = 0
    for c in (x for x in walk_own(fit.node) if isinstance(x, ast.Call)):
        nm = call_name(c)
        callee = ci.methods.get(nm or "")
        if callee is None or callee is fit:
            continue
        asserted = None
        avar = None
        for st in callee.node.body:
            if isinstance(st, ast.Assert) and isinstance(st.test, ast.Compare) and isinstance(st.test.left, ast.Name):
                b = lower_bound(st.test, st.test.left.id)
                if b is not None:
                    asserted, avar = b, st.test.left.id
                    break
        if asserted is None:
            continue
        bounds = [lower_bound(e, avar) for e, p in conds_at(cond, enclosing_stmt(c)) if p]
        bounds = [b for b in bounds if b is not None]
        if not bounds:
            # reached on the fall-through path: the bound is what the earlier raise leaves
            continue
        n += 1
        disp = max(bounds)
        ok = disp == asserted
        out.append(Instance("R-SIBLING", f"{fit.qual}#dispatch-bound:{nm}", OK if ok else BAD,
                            f"{nm} is called for {avar} >= {disp}, which is what it asserts" if ok else
                            f"{nm} asserts {avar} >= {asserted} but is only called for {avar} >= {disp}: a system of exactly {asserted} points - determined for that model - is sent to the lower-order model and mappings that model cannot represent are no longer reproduced" if disp > asserted else
                            f"{nm} asserts {avar} >= {asserted} but is called for {avar} >= {disp}: the assert fails for {disp} points", fit.where(c)))
    if n < 2:
        out.append(Instance("R-SIBLING", f"{fit.qual}#dispatch-bound", UNDET, f"expected the 9- and 4-point dispatches, found {n}", fit.where()))
    return out
