"""Clauses added after the fifth round (seeded changes Cnn-r5sK against the repaired tree).

Same discipline as round4.py: each clause names the structural part of a property that a seeded change broke,
follows values through locals, and says what it accepts.  Generic rules that came out of the same round
(R-EQSYM, R-SHIFTIDX, R-SWALLOW, R-UNITS, R-REVRANGE, R-IMPORTTIME, element-wise R-ISNUM, exclusive-branch
R-FORWARD, R-EPSGPROXY rebuild, affine-attribute axis tags) live in generic2.py / generic.py / forward.py / axis.py.
"""
from __future__ import annotations

import ast
from typing import List, Optional, Set

from ..astutil import Origins, call_name, const_num, names_in
from ..cfg import Conditions, ReachingDefs
from ..loader import Program, enclosing_stmt, parent, short, walk_own
from ..report import BAD, INFO, OK, UNDET, Instance
from .guards import conds_at


def _calls(fn, *names: str) -> List[ast.Call]:
    return [n for n in walk_own(fn.node) if isinstance(n, ast.Call) and call_name(n) in names]


def point_transform_clamps(prog: Program) -> List[Instance]:
    """C03-r5s1. For a geographic source the point transform keeps coordinates inside the CRS' valid range before
    projecting them: both coordinates are *clipped* (np.clip / clamp). Wrapping with a modulo sends a pixel edge that
    sits exactly on +180 to -180, the other side of the destination, and the planned region loses its columns.
    Decides that each re-assignment of a coordinate array under the clamp condition is a clip of itself."""
    f = prog.func("overlap:GbxPointTransform.__call__")
    out: List[Instance] = []
    cond = Conditions(f.body)
    n = 0
    for st in (x for x in walk_own(f.node) if isinstance(x, ast.Assign) and len(x.targets) == 1 and isinstance(x.targets[0], ast.Name)):
        cs = conds_at(cond, st)
        if not any("_clamps" in short(e) or "clamp" in short(e).lower() for e, p in cs if p):
            continue
        tgt = st.targets[0].id
        if tgt not in names_in(st.value):
            continue  # not a re-assignment of the coordinate from itself
        n += 1
        clip = isinstance(st.value, ast.Call) and call_name(st.value) in ("clip", "clamp", "minimum", "maximum")
        mod = any(isinstance(x, ast.BinOp) and isinstance(x.op, ast.Mod) or (isinstance(x, ast.Call) and call_name(x) in ("mod", "fmod", "remainder")) for x in ast.walk(st.value))
        out.append(Instance("R-GUARDSEQ", f"{f.qual}#clamp:{tgt}", OK if clip and not mod else BAD,
                            f"`{tgt}` is clipped into the valid range" if clip and not mod else
                            f"`{short(st, 70)}`: out-of-range coordinates are {'wrapped with a modulo' if mod else 'not clipped'}: a source edge exactly on +180 (or a hair beyond) lands on the opposite side of the destination, the boundary samples disagree and needed destination pixels fall outside the planned region", f.where(st)))
    if n < 2:
        out.append(Instance("R-GUARDSEQ", f"{f.qual}#clamp", UNDET, f"expected both coordinates to be re-assigned under the clamp condition, found {n}", f.where()))
    return out


def utm_lonlat_needs_no_crs(prog: Program) -> List[Instance]:
    """C11-r5s1. CRS.utm picks the zone from a WGS84 lon/lat box. A Geometry's own coordinates may be used as they are
    only when it has no CRS at all; any CRS - including other geographic ones (Monte Mario's Rome meridian, grads) -
    goes through to_crs(4326). Decides: the branch that takes the bounding box without to_crs is reached only under
    `x.crs is None` (an `or` with further excuses does not count)."""
    f = prog.func("crs:CRS.utm")
    cond = Conditions(f.body)
    org = Origins(f)
    out: List[Instance] = []
    for st in (x for x in walk_own(f.node) if isinstance(x, ast.Assign) and len(x.targets) == 1 and isinstance(x.targets[0], ast.Name)):
        cs = conds_at(cond, st)
        if not any(p and isinstance(e, ast.Call) and call_name(e) == "isinstance" and "Geometry" in short(e) for e, p in cs):
            continue
        v = st.value
        if not any(isinstance(x, ast.Attribute) and x.attr in ("boundingbox", "bbox") for x in ast.walk(v)):
            continue
        reproj = any(isinstance(x, ast.Call) and call_name(x) in ("to_crs", "_to_crs") for x in ast.walk(v))
        if reproj:
            continue
        def _none_side(e: ast.AST, p: bool) -> bool:
            if isinstance(e, ast.Compare) and isinstance(e.comparators[0], ast.Constant) and e.comparators[0].value is None and short(e.left).endswith(".crs"):
                return (isinstance(e.ops[0], ast.Is) and p) or (isinstance(e.ops[0], ast.IsNot) and not p)
            return False
        ok = any(_none_side(e, p) for e, p in cs)
        if not ok:
            # the geometry may arrive through a local that every definition either re-projected or bound under `crs is None`
            recvs = [x.value for x in ast.walk(v) if isinstance(x, ast.Attribute) and x.attr in ("boundingbox", "bbox") and isinstance(x.value, ast.Name)]
            for rv in recvs:
                defs = [d for d in walk_own(f.node) if isinstance(d, ast.Assign) and len(d.targets) == 1 and isinstance(d.targets[0], ast.Name) and d.targets[0].id == rv.id]
                if defs and all(any(isinstance(x, ast.Call) and call_name(x) in ("to_crs", "_to_crs") for x in ast.walk(d.value)) or any(_none_side(e, p) for e, p in conds_at(cond, d)) for d in defs):
                    ok = True
        out.append(Instance("R-GUARDSEQ", f"{f.qual}#lonlat-as-is", OK if ok else BAD,
                            "a geometry's coordinates are taken as lon/lat only when it has no CRS" if ok else
                            f"`{short(st, 60)}` takes the geometry's own coordinates as WGS84 lon/lat under {[short(e) for e, p in cs if p][-1:]}: a geographic CRS that is not Greenwich degrees (EPSG:4806 Monte Mario, EPSG:4807 grads) gets a UTM zone whose valid area misses the raster", f.where(st)))
    if not out:
        out.append(Instance("R-GUARDSEQ", f"{f.qual}#lonlat-as-is", INFO, "no branch uses a geometry's coordinates without re-projection", f.where(), nontrivial=False))
    del org
    return out


def dst_nodata_before_warp(prog: Program) -> List[Instance]:
    """C13-r5s1. The fill of uncovered pixels must be the same in covered, partly covered and uncovered chunks and in
    memory: `_xr_reproject_da` therefore resolves `dst_nodata` (explicit, else the source's) *before* it calls either
    backend. Decides by reaching definitions: at each backend call the `dst_nodata` argument has a definition from
    `src_nodata` reaching it."""
    f = prog.func("_xr_interop:_xr_reproject_da")
    rd = ReachingDefs(f.node)
    out: List[Instance] = []
    for c in _calls(f, "_dask_rio_reproject", "rio_reproject"):
        a = next((k.value for k in c.keywords if k.arg == "dst_nodata"), None)
        if not isinstance(a, ast.Name):
            out.append(Instance("R-FILL", f"{f.qual}#dst-nodata-resolved:{call_name(c)}", INFO, "dst_nodata is not passed as a plain name", f.where(c), nontrivial=False))
            continue
        defs = rd.reaching(enclosing_stmt(c), a.id)
        ok = any(v is not None and "src_nodata" in names_in(v) for (_n, _s, v, k) in defs if k == "assign")
        out.append(Instance("R-FILL", f"{f.qual}#dst-nodata-resolved:{call_name(c)}", OK if ok else BAD,
                            f"{call_name(c)} receives dst_nodata after it was defaulted from the source's nodata" if ok else
                            f"`{short(c, 50)}` is called before dst_nodata is defaulted from src_nodata: the backend falls back to NaN for float data while fully uncovered chunks are filled from the source nodata - the fill is not uniform across chunk boundaries and differs from the advertised nodata", f.where(c)))
    if len(out) < 2:
        out.append(Instance("R-FILL", f"{f.qual}#dst-nodata-resolved", UNDET, f"expected the dask and the in-memory backend call, found {len(out)}", f.where()))
    return out


def auto_resolution_fallback(prog: Program) -> List[Instance]:
    """C16-r5s2. `_auto_resolution` sizes the densification step from sqrt(area) and, for geometries without area
    (lines), from the bounding box: it has to be the *larger* side - the smaller side of an axis-parallel line is 0,
    the step becomes infinite and nothing is densified (GeoBox.enclosing / project then see end points only)."""
    f = prog.func("geom:_auto_resolution")
    out: List[Instance] = []
    for c in _calls(f, "min", "max"):
        if any(isinstance(x, ast.Attribute) and x.attr in ("span_x", "span_y") for x in ast.walk(c)):
            ok = call_name(c) == "max"
            out.append(Instance("R-DENSIFY", f"{f.qual}#line-fallback", OK if ok else BAD,
                                "zero-area geometries are sized by the larger side of their bounding box" if ok else
                                f"`{short(c)}`: the fall-back for zero-area geometries takes the smaller side of the bounding box, which is 0 for an axis-parallel line: the step is infinite and the line is projected by its end points", f.where(c)))
    if not out:
        out.append(Instance("R-DENSIFY", f"{f.qual}#line-fallback", INFO, "no span-based fall-back", f.where(), nontrivial=False))
    return out


def int_index_is_unit_slice(prog: Program) -> List[Instance]:
    """C17-r5s1. Throughout the ROI helpers an integer index i means the one-element region i:i+1 (roi_shape gives 1,
    roi_normalise gives slice(i, i+1)). A helper that special-cases a non-slice index may return a constant, build
    that unit slice, or hand the index to a normaliser and then treat start *and* stop; a value computed from the
    index / the start alone (float(i)) breaks the agreement between the two spellings of the same region."""
    out: List[Instance] = []
    n = 0
    for fi in prog.all_functions({"roi"}):
        cond = Conditions(fi.body)
        for r in (x for x in walk_own(fi.node) if isinstance(x, ast.Return) and x.value is not None):
            cs = conds_at(cond, r)
            idx_branch = [e for e, p in cs if (isinstance(e, ast.Call) and call_name(e) == "isinstance" and "slice" in short(e) and not p)]
            if not idx_branch:
                continue
            n += 1
            v = r.value
            const = isinstance(v, ast.Constant) or (isinstance(v, ast.Compare)) or isinstance(v, (ast.BoolOp,))
            unit = isinstance(v, ast.Call) and call_name(v) == "slice" and len(v.args) >= 2
            both = any(isinstance(x, ast.Attribute) and x.attr == "stop" for x in ast.walk(v)) and any(isinstance(x, ast.Attribute) and x.attr == "start" for x in ast.walk(v))
            delegated = isinstance(v, ast.Call) and call_name(v) in ("_norm_slice", "_norm_slice_or_error", "roi_normalise", "norm_slice_2d")
            ok = const or unit or both or delegated
            out.append(Instance("R-SIBLING", f"{fi.qual}#unit-slice:{short(v, 30)}", OK if ok else BAD,
                                "integer index handled as the region i:i+1" if ok else
                                f"`{short(r)}` in the branch for a non-slice index computes its answer from the index / its start alone: the same region spelled slice(i, i+1) gives another answer (roi_center(3) == 3.0 but roi_center(slice(3, 4)) == 3.5)", fi.where(r)))
    if n == 0:
        out.append(Instance("R-SIBLING", "roi#unit-slice", INFO, "no helper special-cases a non-slice index with a return", "", nontrivial=False))
    return out


def parts_dir_full_name(prog: Program) -> List[Instance]:
    """C18-r5s2. The parts directory is a sibling named after the destination's *file name* (suffix included):
    `x.tif` and `x.msk` in one directory are different destinations and must not share parts. `.stem` drops the
    suffix."""
    init = prog.func("cog._mpu_fs:MPUFileSink.__init__")
    org = Origins(init)
    out: List[Instance] = []
    for n in walk_own(init.node):
        if isinstance(n, ast.Assign) and isinstance(n.targets[0], ast.Name) and n.targets[0].id == "parts_dir":
            cl = org.closure(n.value)
            stem = [x for x in cl if isinstance(x, ast.Attribute) and x.attr in ("stem",)]
            out.append(Instance("R-SHAREDWRITE", f"{init.qual}#parts-dir-name:{len(out)}", BAD if stem else OK,
                                f"`{short(n, 70)}` names the parts directory after `{short(stem[0])}`: destinations that differ in their suffix only (scene_B04.tif / scene_B04.msk) share one directory and overwrite each other's parts" if stem else
                                "parts directory carries the destination's full file name", init.where(n)))
    return out


def snap_tolerance_both_edges(prog: Program) -> List[Instance]:
    """C20-r5s2. In the one-axis snapping helpers every quotient `edge / res` that is rounded to a pixel count goes
    through maybe_int(., tol) first: 3 * 0.1 / 0.1 is 3.0000000000000004 and must not cost a fourth pixel. Sibling
    rule: in a function that takes `tol` and snaps one quotient, every floor()/ceil() of a quotient is snapped."""
    out: List[Instance] = []
    n = 0
    for q in ("math:_snap_edge_pos", "math:_snap_edge", "math:snap_grid"):
        f = prog.maybe_func(q)
        if f is None or "tol" not in f.param_names():
            continue
        for c in _calls(f, "floor", "ceil"):
            if not c.args:
                continue
            a = c.args[0]
            has_div = any(isinstance(x, ast.BinOp) and isinstance(x.op, ast.Div) for x in ast.walk(a))
            if not has_div:
                continue
            n += 1
            snapped = isinstance(a, ast.Call) and call_name(a) in ("maybe_int",) and any("tol" in names_in(x) for x in a.args[1:] + [k.value for k in a.keywords])
            out.append(Instance("R-ROUND", f"{f.qual}#snapped-quotient:{short(c, 30)}", OK if snapped else BAD,
                                f"`{short(c)}` rounds a quotient that was snapped with the caller's tolerance" if snapped else
                                f"`{short(c)}` rounds the raw quotient while the function takes `tol` for exactly this: an edge a float-hair past a grid line (3 * 0.1 / 0.1 = 3.0000000000000004) costs a whole extra pixel, the grid is no longer minimal", f.where(c)))
    if n < 3:
        out.append(Instance("R-ROUND", "math#snapped-quotient", UNDET, f"expected >= 3 rounded quotients in the snapping helpers, found {n}", ""))
    return out


def zoom_to_resolution_exact(prog: Program) -> List[Instance]:
    """C08-r5s1. `zoom_to(resolution=r)` of a linear GeoBox must have exactly the requested pixel size and orientation:
    the value has to reach the construction of the result (from_bbox(resolution=...) / an Affine scale), not only a
    pixel *count* (rescaling the same span by ceil(span / r) pixels gives span / ceil(span / r) instead of r). The
    count-only route is for non-linear geoboxes and must sit under a `linear` test."""
    f = prog.func("geobox:GeoBoxBase.compute_zoom_to")
    org = Origins(f)
    cond = Conditions(f.body)
    out: List[Instance] = []
    reaches = False
    for c in (n for n in walk_own(f.node) if isinstance(n, ast.Call)):
        nm = call_name(c)
        if nm in ("from_bbox", "GeoBox", "scale", "Affine"):
            for a in list(c.args) + [k.value for k in c.keywords]:
                if "resolution" in org.deps_names(a) | names_in(a):
                    reaches = True
    out.append(Instance("R-GUARDSEQ", f"{f.qual}#resolution-reaches-grid", OK if reaches else BAD,
                        "the requested resolution is handed to the construction of the new grid" if reaches else
                        "the requested resolution only feeds a pixel count: the new pixel size is span / ceil(span / r), not r, and the sign of the request is ignored (300 x 210 m zoomed to 40 m gives 37.5 x -35 m)", f.where()))
    # the count-only recursion is limited to non-linear geoboxes
    for c in _calls(f, "compute_zoom_to"):
        if not any("resolution" in org.deps_names(a) for a in c.args):
            continue
        cs = conds_at(cond, enclosing_stmt(c))
        lim = any(any(isinstance(x, ast.Attribute) and x.attr == "linear" for x in ast.walk(e)) for e, p in cs)
        out.append(Instance("R-GUARDSEQ", f"{f.qual}#count-route-nonlinear", OK if lim else BAD,
                            "the pixel-count route is taken for non-linear geoboxes only" if lim else
                            f"`{short(c, 50)}` re-enters with a shape computed from the resolution for every kind of geobox", f.where(c)))
    return out


def resolution_siblings(prog: Program) -> List[Instance]:
    """C02-r5s1 / C20-r5s1. Two functions report the pixel scale of a rotated/sheared affine: resolution_from_affine and
    get_scale_from_linear_transform. Both must take it from the scale factor of the rotation-shear-scale decomposition
    (decompose_rws): the lengths of the affine's column vectors agree with it only without shear (|col2| = sy *
    sqrt(1 + w^2)). Cross-check of siblings (Engler): whoever stops calling the decomposition is reported."""
    out: List[Instance] = []
    for q in ("math:resolution_from_affine", "overlap:get_scale_from_linear_transform"):
        f = prog.maybe_func(q)
        if f is None:
            out.append(Instance("R-SIBLING", f"{q}#scale-from-rws", UNDET, "function not found", ""))
            continue
        uses = bool(_calls(f, "decompose_rws"))
        hyp = [c for c in _calls(f, "hypot", "norm", "sqrt")]
        out.append(Instance("R-SIBLING", f"{q}#scale-from-rws", OK if uses else BAD,
                            "scale of a non-axis-aligned affine is the S factor of decompose_rws" if uses else
                            f"{f.name} no longer derives the scale from decompose_rws{' (uses `' + short(hyp[0]) + '`)' if hyp else ''} while its sibling does: column lengths include the shear, resolution.y of a sheared grid is too large by sqrt(1 + tan^2(shear))", f.where(hyp[0]) if hyp else f.where()))
    return out


def part_budget_matches_reservation(prog: Program) -> List[Instance]:
    """C06-r5s2. mpu_write starts data parts at `min_part + K` (K ids kept for header / left-over bytes) and clamps the
    per-partition credit with a budget of the form `max_part - min_part + C`. The number of ids available to data is
    max_part - (min_part + K) + 1, so C must be 1 - K. Linear normal form of both expressions; anything else is
    reported as undetermined, not guessed."""
    f = prog.func("cog._mpu:mpu_write")
    org = Origins(f)
    out: List[Instance] = []

    def lin(e: ast.AST, depth: int = 0):
        """{name: coeff, '': const} for +/- combinations of names (attributes by their last part) and ints."""
        if depth > 8:
            return None
        if isinstance(e, ast.Constant) and isinstance(e.value, int):
            return {"": e.value}
        if isinstance(e, ast.Attribute):
            return {e.attr: 1}
        if isinstance(e, ast.Name):
            ds = [v for _k, v in org.defs.get(e.id, [])]
            if len(ds) == 1 and e.id not in f.param_names():
                r = lin(ds[0], depth + 1)
                if r is not None:
                    return r
            return {e.id: 1}
        if isinstance(e, ast.BinOp) and isinstance(e.op, (ast.Add, ast.Sub)):
            l, r = lin(e.left, depth + 1), lin(e.right, depth + 1)
            if l is None or r is None:
                return None
            sgn = 1 if isinstance(e.op, ast.Add) else -1
            o = dict(l)
            for k, v in r.items():
                o[k] = o.get(k, 0) + sgn * v
            return o
        return None

    K = None
    for n in walk_own(f.node):
        if isinstance(n, ast.Assign) and isinstance(n.targets[0], ast.Name) and n.targets[0].id == "partId" and isinstance(n.value, ast.BinOp):
            l = lin(n.value)
            if l is not None and l.get("min_part") == 1 and set(l) <= {"min_part", ""}:
                K = l.get("", 0)
    budget = None
    for n in walk_own(f.node):
        if isinstance(n, ast.BinOp) and isinstance(n.op, ast.FloorDiv):
            l = lin(n.left)
            if l is not None and l.get("max_part") == 1 and l.get("min_part") == -1 and set(l) <= {"max_part", "min_part", ""}:
                budget = (n, l.get("", 0))
    if K is None or budget is None:
        return [Instance("R-MPU", f"{f.qual}#RANGE:budget", INFO, "first data part / id budget not in the expected linear form: not decided", f.where(), nontrivial=False)]
    node, C = budget
    ok = C == 1 - K
    out.append(Instance("R-MPU", f"{f.qual}#RANGE:budget", OK if ok else BAD,
                        f"data parts start at min_part + {K}; the budget max_part - min_part {C:+d} is the number of ids left for them" if ok else
                        f"data parts start at min_part + {K}, which leaves max_part - min_part {1 - K:+d} ids, but the credit is clamped with max_part - min_part {C:+d} (`{short(node, 50)}`): the last partition can be handed part max_part + {C - (1 - K)}", f.where(node)))
    return out
