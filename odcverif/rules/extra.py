"""Further structural obligations.  Everything here is keyed on program structure (which
parameter flows where, which call precedes which, which field a value is read from); names of
attributes and locals are *derived* from the code (parameter lists, __init__ assignments, keyword
arguments of result constructors), never frozen.  No formula or constant is compared as text.
"""
from __future__ import annotations

import ast
from typing import Dict, List, Optional, Set, Tuple

from ..astutil import Origins, call_name, const_num, expand_locals, names_in
from ..cfg import Conditions, ReachingDefs
from ..loader import FuncInfo, Program, dotted, enclosing_stmt, parent, short, walk_own
from ..report import BAD, INFO, OK, UNDET, Instance
from .guards import conds_at


def _field_of_param(init: FuncInfo, param: str) -> Optional[str]:
    """self.<field> = <param> in __init__ -> field name."""
    me = init.self_name
    for n in walk_own(init.node):
        if isinstance(n, ast.Assign) and isinstance(n.value, ast.Name) and n.value.id == param:
            t = n.targets[0]
            if isinstance(t, ast.Attribute) and isinstance(t.value, ast.Name) and t.value.id == me:
                return t.attr
    return None


def _stmt_index(fi: FuncInfo, node: ast.AST) -> int:
    st = node
    while parent(st) is not fi.node and parent(st) is not None:
        st = parent(st)
    try:
        return fi.node.body.index(st)
    except ValueError:
        return -1


def point_transform(prog: Program) -> List[Instance]:
    """C03: GbxPointTransform maps src pixels -> src world -> dst world -> dst pixels, clamping
    geographic coordinates before the transformer; back swaps the two geoboxes."""
    out: List[Instance] = []
    ci = prog.cls("overlap:GbxPointTransform")
    init, call, back = ci.find_method("__init__"), ci.find_method("__call__"), ci.find_method("back")
    if init is None or call is None or back is None:
        return [Instance("R-GUARDSEQ", f"{ci.qual}#methods", UNDET, "__init__/__call__/back not found", "")]
    pp = [p.arg for p in init.positional_params()][1:]
    src_p, dst_p = pp[0], pp[1]
    f_src, f_dst = _field_of_param(init, src_p), _field_of_param(init, dst_p)
    # transformer field and its direction
    tr_field = None
    dir_ok = False
    for n in walk_own(init.node):
        if isinstance(n, ast.Assign) and isinstance(n.value, ast.Call) and call_name(n.value) == "transformer_to_crs":
            t = n.targets[0]
            if isinstance(t, ast.Attribute):
                tr_field = t.attr
            recv = n.value.func.value if isinstance(n.value.func, ast.Attribute) else None
            arg = n.value.args[0] if n.value.args else None
            dir_ok = recv is not None and arg is not None and names_in(recv) == {src_p} and names_in(arg) == {dst_p}
    out.append(Instance("R-GUARDSEQ", f"{init.qual}#transformer-direction", OK if dir_ok else BAD,
                        f"transformer built from {src_p}'s CRS to {dst_p}'s CRS" if dir_ok else "CRS transformer is not built from the source geobox's CRS to the destination's", init.where()))
    if not (f_src and f_dst and tr_field):
        out.append(Instance("R-GUARDSEQ", f"{ci.qual}#fields", UNDET, "src/dst/transformer fields not identified", init.where()))
        return out
    me = call.self_name

    def calls_on(field: str, meth: Optional[str]) -> List[ast.Call]:
        r = []
        for n in walk_own(call.node):
            if isinstance(n, ast.Call):
                f = n.func
                if meth is None and isinstance(f, ast.Attribute) and f.attr == field and isinstance(f.value, ast.Name) and f.value.id == me:
                    r.append(n)
                if meth is not None and isinstance(f, ast.Attribute) and f.attr == meth and isinstance(f.value, ast.Attribute) and f.value.attr == field:
                    r.append(n)
        return r

    p2w = calls_on(f_src, "pix2wld")
    w2p = calls_on(f_dst, "wld2pix")
    trc = calls_on(tr_field, None)
    wrong = calls_on(f_dst, "pix2wld") + calls_on(f_src, "wld2pix")
    ok = len(p2w) == 1 and len(w2p) == 1 and len(trc) == 1 and not wrong
    if ok:
        # transformer call consumes values produced after pix2wld; wld2pix consumes transformer output
        ok = _stmt_index(call, p2w[0]) < _stmt_index(call, trc[0]) <= _stmt_index(call, w2p[0])
    out.append(Instance("R-GUARDSEQ", f"{call.qual}#src-to-dst", OK if ok else BAD,
                        "source geobox pix2wld, then the CRS transformer, then destination geobox wld2pix" if ok
                        else "point transform does not go source.pix2wld -> transformer -> destination.wld2pix", call.where()))
    clips = [n for n in walk_own(call.node) if isinstance(n, ast.Call) and call_name(n) == "clip"]
    if not clips:
        # the clamp may live in a private helper called from here: the call that leads to it marks its position
        clips = [n for n in walk_own(call.node) if isinstance(n, ast.Call) and n not in trc and n not in p2w and n not in w2p
                 and any(g is not call and isinstance(x, ast.Call) and call_name(x) == "clip" for g, x in prog.closure_nodes(call, n))]
    okc = bool(clips) and bool(trc) and all(_stmt_index(call, c) < _stmt_index(call, trc[0]) for c in clips) and (not p2w or all(_stmt_index(call, c) > _stmt_index(call, p2w[0]) or any(x is p2w[0] for x in ast.walk(c)) for c in clips))
    out.append(Instance("R-GUARDSEQ", f"{call.qual}#clamp-before-transform", OK if okc else BAD,
                        "geographic coordinates are clamped after pix2wld and before the CRS transformer" if okc else "lon/lat clamp does not sit between pix2wld and the CRS transformer", call.where()))
    swapped = False
    for n in walk_own(back.node):
        if isinstance(n, ast.Call) and call_name(n) == ci.name and len(n.args) >= 2:
            a0, a1 = n.args[0], n.args[1]
            swapped = isinstance(a0, ast.Attribute) and a0.attr == f_dst and isinstance(a1, ast.Attribute) and a1.attr == f_src
    out.append(Instance("R-GUARDSEQ", f"{back.qual}#swap", OK if swapped else BAD, "inverse transform swaps source and destination" if swapped else "inverse transform does not swap source and destination geoboxes", back.where()))
    return out


def relative_rois(prog: Program) -> List[Instance]:
    """C03: source ROI from the destination boundary through tr.back, clipped to the source shape
    with padding/align; empty source => empty destination; destination ROI from the source ROI
    through tr, clipped to the destination shape."""
    out: List[Instance] = []
    f = prog.func("overlap:_relative_rois")
    pp = f.param_names()
    # parameters by what they are (annotation / conventional name), not by position: the signature of a private helper may be re-ordered
    def _by(names, ann_words):
        for a in f.params():
            if a.arg in names:
                return a.arg
        for a in f.params():
            if a.annotation is not None and any(w in ast.unparse(a.annotation) for w in ann_words):
                return a.arg
        return None
    src_p, dst_p, tr_p = _by(("src", "src_gbox", "source"), ()), _by(("dst", "dst_gbox", "destination"), ()), _by(("tr", "transform", "pt_tr"), ("PointTransform",))
    if not (src_p and dst_p and tr_p):
        return [Instance("R-GUARDSEQ", f"{f.qual}#parameters", UNDET, f"source / destination / point-transform parameters not identified among {pp}", f.where())]
    calls = [n for n in walk_own(f.node) if isinstance(n, ast.Call) and call_name(n) == "roi_from_points"]
    if len(calls) != 2:
        return [Instance("R-GUARDSEQ", f"{f.qual}#two-envelopes", UNDET, f"expected two roi_from_points calls, found {len(calls)}", f.where())]
    org = Origins(f)
    c0, c1 = calls
    # which points feed which envelope
    d0, d1 = org.deps(c0.args[0]), org.deps(c1.args[0])
    shp0 = names_in(c0.args[1]) if len(c0.args) > 1 else set()
    shp1 = names_in(c1.args[1]) if len(c1.args) > 1 else set()
    ok = shp0 == {src_p} and shp1 == {dst_p}
    out.append(Instance("R-GUARDSEQ", f"{f.qual}#clip-shapes", OK if ok else BAD, "source envelope clipped to the source shape, destination envelope to the destination shape" if ok else f"envelopes are clipped to {sorted(shp0)} and {sorted(shp1)}", f.where()))
    # first envelope: boundary of dst through tr.back ; second: boundary of roi_src through tr
    def uses_back(c: ast.Call) -> Optional[bool]:
        for nm in names_in(c.args[0]):
            for _, v in org.defs.get(nm, []):
                for x in ast.walk(v):
                    if isinstance(x, ast.Call) and names_in(x.func) >= {tr_p}:
                        return isinstance(x.func, ast.Attribute) and x.func.attr == "back"
        return None
    b0, b1 = uses_back(c0), uses_back(c1)
    ok = b0 is True and b1 is False and dst_p in d0
    out.append(Instance("R-GUARDSEQ", f"{f.qual}#directions", OK if ok else BAD, "destination boundary goes through tr.back into the source; the source ROI goes through tr into the destination" if ok else "boundary points are mapped in the wrong direction", f.where()))
    for kw in ("padding", "align"):
        if kw not in pp:
            continue  # the option does not arrive as a parameter of its own (bundled into an options object)
        a = None
        cps = ["xy", "shape", "padding", "align"]
        if kw in cps and cps.index(kw) < len(c0.args):
            a = c0.args[cps.index(kw)]
        a = a or next((k.value for k in c0.keywords if k.arg == kw), None)
        ok = isinstance(a, ast.Name) and a.id == kw
        out.append(Instance("R-FORWARD", f"{f.qual}#source-envelope:{kw}", OK if ok else BAD, f"{kw} applied to the source envelope" if ok else f"{kw} does not reach the source envelope", f.where(c0)))
    # empty short-circuit between the two envelopes
    cond = Conditions(f.body)
    st1 = enclosing_stmt(c1)
    cs = conds_at(cond, st1)
    ok = any((not p) and isinstance(e, ast.Call) and call_name(e) == "roi_is_empty" for e, p in cs)
    out.append(Instance("R-GUARDSEQ", f"{f.qual}#empty-src-short-circuit", OK if ok else BAD, "destination envelope is only computed for a non-empty source ROI" if ok else "an empty source ROI is projected back instead of yielding an empty destination ROI", f.where(c1)))
    return out


def reproject_info_fields(prog: Program) -> List[Instance]:
    """C03: scale is min over scale2, read_shrink derives from scale via _pick_read_scale."""
    out: List[Instance] = []
    f = prog.func("overlap:compute_reproject_roi")
    rd = ReachingDefs(f.node)
    rets = [n for n in walk_own(f.node) if isinstance(n, ast.Return) and isinstance(n.value, ast.Call) and call_name(n.value) == "ReprojectInfo"]
    for k, r in enumerate(rets):
        kws = {kw.arg: kw.value for kw in r.value.keywords if kw.arg}
        sv, s2v, rsv = kws.get("scale"), kws.get("scale2"), kws.get("read_shrink")
        branch = "nonlinear" if k == 0 else "linear"
        if not all(isinstance(x, ast.Name) for x in (sv, s2v, rsv)):
            out.append(Instance("R-GUARDSEQ", f"{f.qual}#info:{branch}", UNDET, "scale/scale2/read_shrink are not simple variables", f.where(r)))
            continue
        ok_scale = True
        for _, st, v, _k in rd.reaching(r, sv.id):
            if isinstance(v, ast.Constant):
                continue
            if not (isinstance(v, ast.Call) and call_name(v) == "min" and s2v.id in names_in(v)):
                ok_scale = False
        out.append(Instance("R-GUARDSEQ", f"{f.qual}#info:{branch}:scale-is-min-of-scale2", OK if ok_scale else BAD, f"{sv.id} = min over {s2v.id}" if ok_scale else f"reported scale is not the minimum of the per-axis scales {s2v.id}", f.where(r)))
        ok_rs = True
        for _, st, v, _k in rd.reaching(r, rsv.id):
            if isinstance(v, ast.Constant):
                continue
            if not (isinstance(v, ast.Call) and call_name(v) == "_pick_read_scale" and v.args and isinstance(v.args[0], ast.Name) and v.args[0].id == sv.id):
                ok_rs = False
        out.append(Instance("R-GUARDSEQ", f"{f.qual}#info:{branch}:shrink-from-scale", OK if ok_rs else BAD, f"{rsv.id} = _pick_read_scale({sv.id})" if ok_rs else "read_shrink is not derived from the reported scale", f.where(r)))
        tr = kws.get("transform")
        okt = isinstance(tr, ast.Name) and all(isinstance(v, ast.Call) and call_name(v) == "native_pix_transform" and [short(a) for a in v.args] == f.param_names()[:2] for _, _, v, _ in rd.reaching(r, tr.id))
        out.append(Instance("R-GUARDSEQ", f"{f.qual}#info:{branch}:transform", OK if okt else BAD, "transform is native_pix_transform(src, dst)" if okt else "reported transform is not the src->dst pixel transform", f.where(r)))
    # _pick_read_scale: returns >= 1 ; uses maybe_int before int
    p = prog.func("overlap:_pick_read_scale")
    rets_p = [n for n in walk_own(p.node) if isinstance(n, ast.Return)]
    cond = Conditions(p.body)
    ok = False
    for r in rets_p:
        if isinstance(r.value, ast.Constant) and r.value.value == 1:
            cs = conds_at(cond, r)
            ok = any(p_ and isinstance(e, ast.Compare) and isinstance(e.ops[0], (ast.Lt, ast.LtE)) and isinstance(e.comparators[0], ast.Constant) and e.comparators[0].value == 1 for e, p_ in cs)
    out.append(Instance("R-GUARDSEQ", f"{p.qual}#at-least-one", OK if ok else BAD, "scale below 1 yields shrink factor 1" if ok else "scales below 1 no longer map to a shrink factor of 1", p.where()))
    return out


def tile_query(prog: Program) -> List[Instance]:
    """C12: geometry queries keep idx iff the query is not disjoint from the extent of *that* tile."""
    out: List[Instance] = []
    f = prog.func("geobox:GeoboxTiles.tiles")
    me = f.self_name
    loops = [n for n in walk_own(f.node) if isinstance(n, ast.For)]
    ok = False
    detail = "no filtering loop found"
    for lp in loops:
        if not isinstance(lp.target, ast.Name):
            continue
        idx = lp.target.id
        # gbox = self[idx]
        tile_var = None
        for st in lp.body:
            if isinstance(st, ast.Assign) and isinstance(st.value, ast.Subscript) and isinstance(st.value.value, ast.Name) and st.value.value.id == me and short(st.value.slice) == idx:
                tile_var = short(st.targets[0])
        for st in lp.body:
            if isinstance(st, ast.If):
                t = st.test
                neg = isinstance(t, ast.UnaryOp) and isinstance(t.op, ast.Not)
                c = t.operand if neg else t
                if isinstance(c, ast.Call) and call_name(c) in ("disjoint", "intersects"):
                    uses_tile = any(isinstance(x, ast.Attribute) and x.attr == "extent" and ((tile_var is not None and short(x.value) == tile_var) or short(x.value) == f"{me}[{idx}]") for a in c.args for x in ast.walk(a))
                    pol_ok = (call_name(c) == "disjoint" and neg) or (call_name(c) == "intersects" and not neg)
                    yields_idx = any(isinstance(x, (ast.Yield,)) and x.value is not None and short(x.value) == idx for s in st.body for x in ast.walk(s))
                    ok = uses_tile and pol_ok and yields_idx
                    detail = f"tile={tile_var}, test=`{short(t)}`, yields idx={yields_idx}"
    recognised = any(isinstance(x, ast.Call) and call_name(x) in ("disjoint", "intersects") and isinstance(x.func, ast.Attribute) for lp in loops for x in ast.walk(lp))
    if not ok and not recognised:
        out.append(Instance("R-GUARDSEQ", f"{f.qual}#filter-by-own-extent", UNDET, f"no `<query>.disjoint(..)` / `.intersects(..)` method call inside a loop of tiles() ({detail}): the filter is spelled in a way this clause does not read", f.where()))
    else:
      out.append(Instance("R-GUARDSEQ", f"{f.qual}#filter-by-own-extent", OK if ok else BAD,
                        "a candidate index is yielded iff the query is not disjoint from the extent of the tile at that index" if ok else f"tile filter broken ({detail})", f.where()))
    # candidates come from the bounding box of the query polygon that was reconciled
    rb = [n for n in walk_own(f.node) if isinstance(n, ast.Call) and call_name(n) == "range_from_bbox"]
    condq = Conditions(f.body)
    # a CRS-less bounding box is a box in the pixel plane of the base geobox: nothing to project, no polygon to be empty
    rb = [n for n in rb if not any(p and isinstance(e, ast.Compare) and isinstance(e.ops[0], ast.Is) and isinstance(e.left, ast.Attribute) and e.left.attr == "crs" and isinstance(e.comparators[0], ast.Constant) and e.comparators[0].value is None
                                   for e, p in conds_at(condq, enclosing_stmt(n)))]
    if rb:
        okE = any(isinstance(e, ast.Attribute) and e.attr == "is_empty" and not p for e, p in conds_at(condq, enclosing_stmt(rb[0])))
        out.append(Instance("R-EMPTY", f"{f.qual}#empty-query", OK if okE else BAD,
                            "the tile range is computed only for a non-empty query" if okE else
                            "the bounds of the query feed range_from_bbox without an is_empty test: an empty geometry has NaN bounds and the query raises instead of yielding nothing", f.where(rb[0])))
    ok = len(rb) == 1 and isinstance(rb[0].args[0], ast.Attribute) and rb[0].args[0].attr == "boundingbox"
    if not rb:
        out.append(Instance("R-GUARDSEQ", f"{f.qual}#candidates-from-bbox", UNDET, "no range_from_bbox call on a world-space query in GeoboxTiles.tiles", f.where()))
    if ok:
        # ... of the polygon *after* it was brought into the grid's CRS
        recv = rb[0].args[0].value
        reproj = [n for n in walk_own(f.node) if isinstance(n, ast.Assign) and isinstance(n.value, ast.Call) and call_name(n.value) == "to_crs" and isinstance(recv, ast.Name) and short(n.targets[0]) == recv.id]
        ok = bool(reproj) and all(r.lineno < rb[0].lineno for r in reproj)
        if not ok:
            # equally sound: hand the box over in the query's own CRS, range_from_bbox projects a crs-tagged box
            # itself (through GeoBox.project, whose densification R-DENSIFY checks)
            rfb0 = prog.maybe_func("geobox:GeoboxTiles.range_from_bbox")
            ok = rfb0 is not None and any(isinstance(x, ast.If) and any(isinstance(a, ast.Attribute) and a.attr == "crs" for a in ast.walk(x.test)) and any(isinstance(c, ast.Call) and call_name(c) == "project" for y in x.body for c in ast.walk(y)) for x in walk_own(rfb0.node))
    if rb:
      out.append(Instance("R-GUARDSEQ", f"{f.qual}#candidates-from-bbox", OK if ok else BAD, "candidates come from the bounding box of the query, brought into the grid's CRS with densification (here or inside range_from_bbox)" if ok else "candidate tile range is not derived from the bounding box of the re-projected query (a box projected by its corners misses the bulge of curved edges)", f.where()))
    # pixel -> tile lookup is delegated to the tiling (regular or variable), never re-derived
    rfb = prog.func("geobox:GeoboxTiles.range_from_bbox")
    nloc = sum(1 for n in walk_own(rfb.node) if isinstance(n, ast.Call) and call_name(n) == "locate")
    out.append(Instance("R-GUARDSEQ", f"{rfb.qual}#locate-delegation", OK if nloc >= 2 else BAD,
                        "first and last pixel are mapped to tiles by the tiling's own locate()" if nloc >= 2 else "pixel-to-tile lookup no longer goes through the tiling's locate(): variable-sized tilings get wrong tile ranges", rfb.where()))
    # linear path: box of the *same* idx, mapped by the affine parameter, rounded (outwards), queried on src
    g = prog.func("geobox:GeoboxTiles._grid_intersect_linear")
    # src.tiles(<pixel box>) clamps a box outside the raster to the nearest edge tile: the query must be skipped
    # for destination tiles whose mapped box does not reach the source, or disjoint rasters get a full graph
    gcond = Conditions(g.body)
    for n in walk_own(g.node):
        if isinstance(n, ast.Call) and call_name(n) == "tiles" and isinstance(n.func, ast.Attribute):
            st = enclosing_stmt(n)
            loop = next((a for a in _anc(st, g.node) if isinstance(a, ast.For)), None)
            guarded = False
            if loop is not None:
                # a `continue` (or an enclosing if) conditioned on the source's shape precedes the query
                shape_names = {t.id for x in walk_own(g.node) if isinstance(x, ast.Assign) and any(isinstance(a_, ast.Attribute) and a_.attr in ("shape", "yx", "xy") for a_ in ast.walk(x.value)) for t in ast.walk(x.targets[0]) if isinstance(t, ast.Name)}
                for x in loop.body:
                    if x is st:
                        break
                    if isinstance(x, ast.If) and any(isinstance(y, (ast.Continue, ast.Return)) for y in x.body) and names_in(x.test) & shape_names:
                        guarded = True
                guarded = guarded or any(names_in(e) & shape_names for e, _p in conds_at(gcond, st))
            if loop is None:
                out.append(Instance("R-GUARDSEQ", f"{g.qual}#skip-outside-source", UNDET, "the source tiling is not queried from inside a for-loop over destination tiles (comprehension / helper): the skip test is not looked for", g.where(n)))
                continue
            out.append(Instance("R-GUARDSEQ", f"{g.qual}#skip-outside-source", OK if guarded else BAD,
                                "destination tiles whose mapped box lies outside the source are skipped before the (clamping) tile query" if guarded else
                                f"`{short(n, 40)}` is asked for every destination tile: range_from_bbox clamps a box outside the raster to the nearest edge tile, so disjoint rasters yield a full dependency graph instead of an empty one", g.where(n)))
    pp = [p.arg for p in g.positional_params()][1:]
    src_p, A_p = pp[0], pp[1]
    org = Origins(g)
    okl = False
    for lp in (n for n in walk_own(g.node) if isinstance(n, ast.For)):
        if not isinstance(lp.target, ast.Name):
            continue
        idx = lp.target.id
        chain_ok = q_ok = store_ok = False
        for n in ast.walk(lp):
            if isinstance(n, ast.Call) and call_name(n) == "round" and isinstance(n.func, ast.Attribute):
                inner = n.func.value
                if isinstance(inner, ast.Call) and call_name(inner) == "transform" and inner.args and short(inner.args[0]) == A_p:
                    base = inner.func.value if isinstance(inner.func, ast.Attribute) else None
                    if isinstance(base, ast.Call) and call_name(base) == "pix_bbox" and base.args and short(base.args[0]) == idx:
                        chain_ok = True
            if isinstance(n, ast.Call) and call_name(n) == "tiles" and isinstance(n.func, ast.Attribute) and short(n.func.value) == src_p:
                q_ok = True
            if isinstance(n, ast.Assign) and isinstance(n.targets[0], ast.Subscript) and short(n.targets[0].slice) == idx:
                store_ok = True
        okl = chain_ok and q_ok and store_ok
    if not okl and not any(isinstance(n, ast.Call) and call_name(n) == "tiles" and isinstance(n.func, ast.Attribute) and short(n.func.value) == src_p for n in walk_own(g.node)):
        out.append(Instance("R-GUARDSEQ", f"{g.qual}#mapped-box", UNDET, "the source tiling is not queried through `<src>.tiles(..)` here (another entry point is used): not read", g.where()))
    elif not any(isinstance(n, ast.For) for n in walk_own(g.node)):
        out.append(Instance("R-GUARDSEQ", f"{g.qual}#mapped-box", UNDET, "no for-loop over destination tiles in the linear path (comprehension / helper)", g.where()))
    else:
      out.append(Instance("R-GUARDSEQ", f"{g.qual}#mapped-box", OK if okl else BAD,
                        "per destination tile: its own pixel box, mapped by A, rounded outwards, queried on the source tiling, stored under the same index" if okl
                        else "linear dependency path no longer maps each tile's own box through A, rounds it and stores the source tiles under the same index", g.where()))
    # general path: per destination tile query src with that tile's extent
    gi = prog.func("geobox:GeoboxTiles.grid_intersect")
    me = gi.self_name
    srcp = [p.arg for p in gi.positional_params()][1]
    okg = False
    org_gi = Origins(gi)
    for lp in (n for n in walk_own(gi.node) if isinstance(n, ast.For)):
        if not isinstance(lp.target, ast.Name):
            continue
        idx = lp.target.id
        for st in ast.walk(lp):
            if isinstance(st, ast.Assign) and isinstance(st.targets[0], ast.Subscript) and short(st.targets[0].slice) == idx:
                for x in ast.walk(st.value):
                    if isinstance(x, ast.Call) and call_name(x) == "tiles" and isinstance(x.func, ast.Attribute) and short(x.func.value) == srcp and x.args:
                        # the query handed to src.tiles() comes (through whatever temporaries, re-projection or
                        # padding) from `.extent` of `self[idx]`
                        cl = org_gi.closure(x.args[0])
                        own_tile = any(isinstance(y, ast.Subscript) and short(y.value) == me and short(y.slice) == idx for y in cl)
                        via_extent = any(isinstance(y, ast.Attribute) and y.attr in ("extent", "footprint") for y in cl) or any(isinstance(y, ast.Call) and call_name(y) == "footprint" for y in cl)
                        okg = okg or (own_tile and via_extent)
    if not okg and any(isinstance(st, ast.Assign) and isinstance(st.value, ast.Attribute) and st.value.attr in ("base", "crs", "resolution") for st in walk_own(gi.node)):
        out.append(Instance("R-GUARDSEQ", f"{gi.qual}#per-tile-extent", UNDET, "grid_intersect works on locals holding the bases / CRSs: the query's origin is not followed through them", gi.where()))
        return out
    stores_in_loop = any(isinstance(st, ast.Assign) and isinstance(st.targets[0], ast.Subscript) for lp in walk_own(gi.node) if isinstance(lp, ast.For) for st in ast.walk(lp))
    if not okg and not stores_in_loop:
        out.append(Instance("R-GUARDSEQ", f"{gi.qual}#per-tile-extent", UNDET, "the general path does not fill its result in a for-loop of grid_intersect itself (comprehension / helper)", gi.where()))
    else:
      out.append(Instance("R-GUARDSEQ", f"{gi.qual}#per-tile-extent", OK if okg else BAD,
                        "dependencies of tile idx = source tiles overlapping the extent of tile idx" if okg else "general dependency path does not query the source tiling with each destination tile's own extent", gi.where()))
    # _check_linear: A = snap_affine(~src * dst)
    c = prog.func("geobox:GeoboxTiles._check_linear")
    srcp = [p.arg for p in c.positional_params()][1]
    okd = False
    for n in walk_own(c.node):
        if isinstance(n, ast.BinOp) and isinstance(n.op, ast.Mult) and isinstance(n.left, ast.UnaryOp) and isinstance(n.left.op, ast.Invert):
            nx_ = expand_locals(c.node, n, keep={srcp, c.self_name or "self"})
            okd = names_in(nx_.left) == {srcp} and names_in(nx_.right) == {c.self_name}
    for n in walk_own(c.node):
        if isinstance(n, ast.Call) and call_name(n) == "snap_affine":
            relaxed = [k for k in n.keywords if k.arg == "tol"] + list(n.args[3:4])
            out.append(Instance("R-GUARDSEQ", f"{c.qual}#rotation-tolerance", BAD if relaxed else OK,
                                "snap_affine is given its own rotation tolerance: small rotations are zeroed and the pair is treated as scale+translation" if relaxed else "rotation tolerance of snap_affine left at its tight default", c.where(n)))
    if not any(isinstance(n, ast.BinOp) and isinstance(n.op, ast.Mult) and isinstance(n.left, ast.UnaryOp) and isinstance(n.left.op, ast.Invert) for n in walk_own(c.node)):
        out.append(Instance("R-GUARDSEQ", f"{c.qual}#direction", UNDET, "the pixel-to-pixel product (~A * B) is not computed in this function (handed to another one)", c.where()))
        return out
    out.append(Instance("R-GUARDSEQ", f"{c.qual}#direction", OK if okd else BAD, "pixel-to-pixel affine maps destination pixels into source pixels (~src * dst)" if okd else "pixel-to-pixel affine of the linear path is not ~src.transform * self.transform", c.where()))
    return out


def intersect_siblings(prog: Program) -> List[Instance]:
    """C17: slice_intersect3 and roi_intersect.slice_intersect are two implementations of one
    overlap computation: same start/stop roles (max of starts, min of stops) and the same disjoint
    tests (operator and operands by role)."""
    out: List[Instance] = []
    a = prog.func("roi:slice_intersect3")
    b = prog.func("roi:roi_intersect/slice_intersect")

    def summary(f: FuncInfo):
        pa, pb = f.param_names()[:2]
        s = {"tests": [], "lo": None, "hi": None}
        for n in walk_own(f.node):
            if isinstance(n, ast.If) and isinstance(n.test, ast.Compare) and len(n.test.ops) == 1:
                t = n.test
                l, r = t.left, t.comparators[0]
                if isinstance(l, ast.Attribute) and isinstance(r, ast.Attribute) and isinstance(l.value, ast.Name) and isinstance(r.value, ast.Name):
                    role = lambda x: ("A" if x.value.id == pa else "B" if x.value.id == pb else "?") + "." + x.attr
                    s["tests"].append((role(l), type(t.ops[0]).__name__, role(r)))
            if isinstance(n, ast.Call) and call_name(n) in ("max", "min") and len(n.args) == 2 and all(isinstance(x, ast.Attribute) for x in n.args):
                attrs = {x.attr for x in n.args}
                owners = {x.value.id for x in n.args if isinstance(x.value, ast.Name)}
                if owners == {pa, pb} and len(attrs) == 1:
                    key = "lo" if attrs == {"start"} else "hi" if attrs == {"stop"} else None
                    if key:
                        s[key] = call_name(n)
        s["tests"] = sorted(s["tests"])
        return s

    sa, sb = summary(a), summary(b)
    ok_roles = sa["lo"] == "max" and sa["hi"] == "min" and sb["lo"] == "max" and sb["hi"] == "min"
    out.append(Instance("R-SIBLING", "roi:slice_intersect3~roi_intersect#roles", OK if ok_roles else BAD,
                        "both take max of the starts and min of the stops" if ok_roles else f"overlap bounds: slice_intersect3 start={sa['lo']}, stop={sa['hi']}; roi_intersect start={sb['lo']}, stop={sb['hi']} (must be max/min)", a.where()))
    ok_t = sa["tests"] == sb["tests"] and len(sa["tests"]) == 2
    out.append(Instance("R-SIBLING", "roi:slice_intersect3~roi_intersect#disjoint-tests", OK if ok_t else BAD,
                        f"both use the same disjointness tests {sa['tests']}" if ok_t else f"sibling implementations disagree on the disjoint convention: {sa['tests']} vs {sb['tests']}", a.where()))
    return out


def warp_detour(prog: Program) -> List[Instance]:
    """C10: every dtype that takes the conversion detour is copied back into the caller's array."""
    out: List[Instance] = []
    f = prog.func("warp:_rio_reproject")
    remap: Set[str] = set()
    for n in walk_own(f.node):
        if isinstance(n, ast.Assign) and isinstance(n.value, ast.Dict) and all(isinstance(k, ast.Constant) for k in n.value.keys) and any(isinstance(k, ast.Constant) and k.value in ("int8", "bool") for k in n.value.keys):
            remap = {k.value for k in n.value.keys if isinstance(k, ast.Constant)}
    dst_p = f.param_names()[1]
    # the array handed to GDAL as destination
    call = [n for n in walk_own(f.node) if isinstance(n, ast.Call) and call_name(n) == "reproject" and "warp" in short(n.func)]
    if len(call) != 1 or len(call[0].args) < 2:
        return [Instance("R-EXHAUST", f"{f.qual}#detour", UNDET, "rasterio.warp.reproject call not found", f.where())]
    wk = call[0].args[1]
    if isinstance(wk, ast.Name) and wk.id != dst_p:
        # copy back under `dst is not wk`
        cps = []
        for n in walk_own(f.node):
            if isinstance(n, ast.If) and isinstance(n.test, ast.Compare) and isinstance(n.test.ops[0], ast.IsNot) and {short(n.test.left), short(n.test.comparators[0])} == {dst_p, wk.id}:
                for x in ast.walk(n):
                    if isinstance(x, ast.Call) and call_name(x) == "copyto" and x.args and short(x.args[0]) == dst_p and wk.id in names_in(x.args[1]):
                        cps.append(x)
        # one copy per path of the if/else inside
        ok = len(cps) >= 1
        # all paths inside the guard copy back: use flow
        out.append(Instance("R-EXHAUST", f"{f.qual}#detour-copy-back", OK if ok else BAD,
                            f"pixels warped into the converted array `{wk.id}` are copied back into `{dst_p}` ({len(cps)} copy site(s)) for remapped dtypes {sorted(remap)}" if ok
                            else f"the warp writes into `{wk.id}` but nothing copies it back into `{dst_p}`: int8/bool rasters come back untouched", f.where()))
    else:
        out.append(Instance("R-EXHAUST", f"{f.qual}#detour-copy-back", OK, "warp writes straight into the destination", f.where(), nontrivial=False))
    src_p = f.param_names()[0]
    ok = short(call[0].args[0]) == src_p
    out.append(Instance("R-EXHAUST", f"{f.qual}#source-array", OK if ok else BAD, "the (converted) source array is what GDAL reads" if ok else "GDAL does not read the source array", f.where(call[0])))
    # src side gets s_gbox, dst side gets d_gbox
    kws = {k.arg: k.value for k in call[0].keywords if k.arg}
    pp = f.param_names()
    s_g, d_g = pp[2], pp[3]
    sides = {"src_crs": s_g, "dst_crs": d_g, "dst_transform": d_g}
    bad = [k for k, g in sides.items() if k in kws and g not in names_in(kws[k])]
    tr = kws.get("src_transform")
    if isinstance(tr, ast.Name):
        org = Origins(f)
        if not any(s_g in names_in(v) for _, v in org.defs.get(tr.id, []) if not isinstance(v, ast.Constant)):
            bad.append("src_transform")
    out.append(Instance("R-EXHAUST", f"{f.qual}#geobox-sides", OK if not bad else BAD, "source CRS/transform come from the source geobox, destination CRS/transform from the destination geobox" if not bad else f"{bad} taken from the wrong geobox", f.where(call[0])))
    # a detour that changes pixel VALUES (bool stretched to {0, 255}) must map the nodata values the same way:
    # the names handed to GDAL as src_nodata / dst_nodata are re-bound after the conversion
    stretches = [n for nf in list(f.nested.values()) + [f] for n in walk_own(nf.node) if isinstance(n, ast.Call) and call_name(n) == "where" and len(n.args) == 3]
    if stretches:
        rd = ReachingDefs(f.node)
        for kw in ("src_nodata", "dst_nodata"):
            v = kws.get(kw)
            if not isinstance(v, ast.Name):
                continue
            defs = rd.reaching(enclosing_stmt(call[0]), v.id)
            rebound = any(k != "param" for (_n, _s, _v, k) in defs)
            out.append(Instance("R-EXHAUST", f"{f.qual}#detour-nodata:{kw}", OK if rebound else BAD,
                                f"`{v.id}` is mapped into the stretched value domain before the warp" if rebound else
                                f"bool pixels are stretched ({short(stretches[0], 40)}) but `{kw}={v.id}` still holds the caller's value in the {{0, 1}} domain: the warp's fill is lost in the copy-back (dst_nodata=True comes out False)", f.where(call[0])))
    return out


def block_assembler(prog: Program) -> List[Instance]:
    """C04/C13: BlockAssembler pastes each block through the 3-way intersection of the block's
    region with the requested window (source part from the block, destination part into the
    window) into a fill-initialised window."""
    out: List[Instance] = []
    e = prog.func("_blocks:BlockAssembler.extract")
    org = Origins(e)
    inter = [n for n in walk_own(e.node) if isinstance(n, ast.Call) and call_name(n) == "roi_intersect3"]
    if len(inter) != 1:
        return [Instance("R-GUARDSEQ", f"{e.qual}#intersection", UNDET, "roi_intersect3 call not found", e.where())]
    st = enclosing_stmt(inter[0])
    tg = st.targets[0] if isinstance(st, ast.Assign) else None
    if not (isinstance(tg, ast.Tuple) and len(tg.elts) == 3):
        return [Instance("R-GUARDSEQ", f"{e.qual}#intersection", UNDET, "result of roi_intersect3 is not unpacked into three parts", e.where())]
    part_a, part_b = short(tg.elts[0]), short(tg.elts[1])
    a0, a1 = inter[0].args[:2]
    # which argument is the block's region (derived from the tiling indexed by the loop key)?
    def is_block_region(x: ast.AST) -> bool:
        return (isinstance(x, ast.Subscript) and "_tiles" in short(x.value)) or any(isinstance(v, ast.Subscript) and "_tiles" in short(v.value) for nm in names_in(x) for _, v in org.defs.get(nm, []))
    block_first = is_block_region(a0) and not is_block_region(a1)
    blk_part, win_part = (part_a, part_b) if block_first else (part_b, part_a)
    cp = [n for n in walk_own(e.node) if isinstance(n, ast.Call) and call_name(n) == "copyto" and len(n.args) >= 2]
    ok = False
    if len(cp) == 1 and (block_first or (is_block_region(a1) and not is_block_region(a0))):
        dst_a, src_a = cp[0].args[0], cp[0].args[1]
        # destination subscript derives from the window part, source subscript from the block part
        ok = isinstance(dst_a, ast.Subscript) and isinstance(src_a, ast.Subscript) and win_part in org.deps_names(dst_a.slice) and blk_part in org.deps_names(src_a.slice) and "block" in short(src_a.value)
    if len(cp) != 1:
        out.append(Instance("R-GUARDSEQ", f"{e.qual}#paste-parts", UNDET, f"expected one np.copyto(dst[..], block[..]) call in extract, found {len(cp)} (paste goes through another callable)", e.where()))
    else:
      out.append(Instance("R-GUARDSEQ", f"{e.qual}#paste-parts", OK if ok else BAD,
                        "the block is read through its own part of the intersection and written through the window's part" if ok else "source/destination parts of the 3-way intersection are swapped or not used for the paste", e.where()))
    # the window array is allocated with the shape of the request, so along the non-spatial axes it
    # must be indexed with full slices, not with the request's own (absolute) offsets
    okb = None
    for n in walk_own(e.node):
        if isinstance(n, ast.Assign) and isinstance(n.value, ast.Call) and call_name(n.value) == "with_yx" and len(n.value.args) == 2 and win_part in names_in(n.value.args[1]):
            base = n.value.args[0]
            defs = [v for nm in names_in(base) for _, v in org.defs.get(nm, [])]
            okb = bool(defs) and all(any(isinstance(x, ast.Call) and call_name(x) == "slice" and len(x.args) == 1 and isinstance(x.args[0], ast.Constant) and x.args[0].value is None for x in ast.walk(v)) for v in defs)
    if okb is not None:
        out.append(Instance("R-GUARDSEQ", f"{e.qual}#window-relative-index", OK if okb else BAD,
                            "destination index keeps full slices on the non-spatial axes (the window array is request-relative)" if okb
                            else "destination index re-uses the request's absolute offsets on the non-spatial axes although the window array starts at 0 there", e.where()))
    full = [n for n in walk_own(e.node) if isinstance(n, ast.Call) and call_name(n) == "full" and len(n.args) >= 2]
    okf = len(full) == 1 and isinstance(full[0].args[1], ast.Name) and full[0].args[1].id == "fill_value"
    out.append(Instance("R-GUARDSEQ", f"{e.qual}#fill-init", OK if okf else BAD, "window is initialised with the fill value" if okf else "window is not initialised with the fill value: absent tiles are undefined", e.where()))
    return out


def gcp_frames(prog: Program) -> List[Instance]:
    """C02: GCPGeoBox composes the control-point fit with the crop/zoom affine.  Two pixel frames
    exist: the frame of the control points (MAP) and the frame of the view (VIEW), related by
    MAP = affine * VIEW.  Every conversion must go the right way: VIEW->MAP multiplies by the
    affine, MAP->VIEW by its inverse."""
    out: List[Instance] = []
    ci = prog.cls("gcp:GCPGeoBox")

    def inv(e: ast.AST) -> Optional[bool]:
        """True: ~self._affine (or a local bound to it); False: self._affine; None: neither."""
        if isinstance(e, ast.UnaryOp) and isinstance(e.op, ast.Invert) and short(e.operand).endswith("._affine"):
            return True
        if isinstance(e, ast.Attribute) and e.attr == "_affine":
            return False
        return None

    for mname, want_inv, what in (("wld2pix", True, "world -> control-point frame (w2p) -> view frame needs the inverse affine"),
                                  ("pix2wld", False, "view frame -> control-point frame needs the affine itself before p2w"),
                                  ("to_crs", True, "control points are re-expressed in the view frame with the inverse affine"),
                                  ("gcps", True, "control points are reported in the view frame with the inverse affine")):
        m = ci.find_method(mname)
        if m is None:
            out.append(Instance("R-FRAME", f"{ci.qual}.{mname}#direction", UNDET, "method not found", ""))
            continue
        org = Origins(m)
        uses: List[Tuple[ast.AST, Optional[bool]]] = []
        nodes = list(walk_own(m.node)) + [x for nf in m.nested.values() for x in walk_own(nf.node)]
        for n in nodes:
            cand = None
            if isinstance(n, ast.BinOp) and isinstance(n.op, ast.Mult):
                cand = n.left
            elif isinstance(n, ast.Call) and call_name(n) == "transform" and n.args:
                cand = n.args[0]
            if cand is None:
                continue
            v = inv(cand)
            if v is None and isinstance(cand, ast.Name):
                for _, d in org.defs.get(cand.id, []):
                    v = inv(d) if inv(d) is not None else v
            if v is not None:
                uses.append((n, v))
        if not uses:
            out.append(Instance("R-FRAME", f"{m.qual}#direction", UNDET, "no application of the view affine found", m.where()))
            continue
        bad = [n for n, v in uses if v != want_inv]
        out.append(Instance("R-FRAME", f"{m.qual}#direction", BAD if bad else OK,
                            f"`{short(bad[0], 60)}` applies the view affine in the wrong direction: {what}" if bad else what, m.where(uses[0][0])))
    # approx: mapping.approx * affine (VIEW -> MAP -> world)
    a = ci.find_method("approx")
    if a is not None:
        ok = any(isinstance(n, ast.BinOp) and isinstance(n.op, ast.Mult) and short(n.left).endswith(".approx") and inv(n.right) is False for n in walk_own(a.node))
        out.append(Instance("R-FRAME", f"{a.qual}#composition", OK if ok else BAD, "approximate geobox = control-point affine * view affine" if ok else "approximate geobox does not compose control-point affine * view affine in that order", a.where()))
    return out


def from_bbox_origin(prog: Program) -> List[Instance]:
    """C08: in the resolution-driven branch of from_bbox the grid origin is the one returned by the
    one-axis snapper (which knows the sign of the resolution), on every path."""
    out: List[Instance] = []
    f = prog.func("geobox:GeoBox.from_bbox")
    rd = ReachingDefs(f.node)
    cond = Conditions(f.body)
    k = 0
    for n in walk_own(f.node):
        if isinstance(n, ast.Call) and call_name(n) == "translation" and len(n.args) == 2:
            st = enclosing_stmt(n)
            cs = conds_at(cond, st)
            res_branch = any(p and isinstance(e, ast.Compare) and isinstance(e.ops[0], ast.IsNot) and "resolution" in names_in(e) for e, p in cs)
            if not res_branch:
                continue
            k += 1
            bad = []
            unread: List[str] = []
            for a in n.args:
                if not isinstance(a, ast.Name):
                    bad.append(short(a))
                    continue
                for _, dst, v, kind in rd.reaching(st, a.id):
                    if isinstance(v, (ast.GeneratorExp, ast.ListComp)) or (isinstance(v, ast.Call) and call_name(v) in ("zip", "map", "tuple", "list")):
                        unread.append(f"{a.id} <- {short(v, 40)}")  # origins computed by a per-axis pipeline: not followed
                        continue
                    if not (isinstance(v, ast.Call) and call_name(v) == "snap_grid" and kind.startswith("unpack[0/")):
                        bad.append(f"{a.id} <- {short(v) if v is not None else kind}")
            if unread and not bad:
                out.append(Instance("R-SIGNROLE", f"{f.qual}#origin-from-snap_grid:{k}", UNDET, f"origin reaches Affine.translation through a per-axis generator / zip pipeline ({unread[0]})", f.where(n)))
                continue
            out.append(Instance("R-SIGNROLE", f"{f.qual}#origin-from-snap_grid:{k}", BAD if bad else OK,
                                f"grid origin in the resolution-driven branch does not come from snap_grid on every path ({bad[:2]}): with a positive y or negative x resolution the grid lies beside the region" if bad
                                else "origin of the resolution-driven grid is snap_grid's sign-aware origin on every path", f.where(n)))
    if k == 0:
        out.append(Instance("R-SIGNROLE", f"{f.qual}#origin-from-snap_grid", UNDET, "resolution-driven Affine.translation not found", f.where()))
    return out


def negative_index(prog: Program, modules: Set[str]) -> List[Instance]:
    """An integer index turned into slice(i, i + 1) must be adjusted for negative values first (the
    way _norm_slice does) or rejected (the way _norm_slice_or_error does); otherwise x[-1] becomes
    slice(-1, 0), an empty or negative-length region."""
    out: List[Instance] = []
    for fi in prog.all_functions(modules):
        cond = None
        for n in walk_own(fi.node):
            if not (isinstance(n, ast.Call) and call_name(n) == "slice" and isinstance(n.func, ast.Name) and len(n.args) == 2):
                continue
            a, b = n.args
            if not (isinstance(a, ast.Name) and isinstance(b, ast.BinOp) and isinstance(b.op, ast.Add) and short(b.left) == a.id and isinstance(b.right, ast.Constant) and b.right.value == 1):
                continue
            idx = a.id
            st = enclosing_stmt(n)
            cond = cond or Conditions(fi.body)
            # (a) adjusted:  if idx < 0: idx = n + idx  somewhere before, or
            # (b) rejected:  a later/earlier test on negativity that raises, or
            # (c) known non-negative by a path condition
            adjusted = False
            for x in walk_own(fi.node):
                if isinstance(x, ast.If) and isinstance(x.test, ast.Compare) and short(x.test.left) == idx and isinstance(x.test.ops[0], ast.Lt) and isinstance(x.test.comparators[0], ast.Constant) and x.test.comparators[0].value == 0:
                    if any(isinstance(y, ast.Assign) and short(y.targets[0]) == idx for y in x.body) and x.lineno <= n.lineno:
                        adjusted = True
            rejected = False
            tgt = short(st.targets[0]) if isinstance(st, ast.Assign) else None
            bound_names = {idx}
            # the slice ends are copied into locals (start = s; stop = s + 1) that are tested later
            for x in walk_own(fi.node):
                if isinstance(x, ast.Assign) and isinstance(x.value, ast.Name) and x.value.id == idx:
                    bound_names.add(short(x.targets[0]))
            for x in walk_own(fi.node):
                if isinstance(x, ast.If) and any(isinstance(y, ast.Raise) for y in x.body):
                    for c in ast.walk(x.test):
                        if isinstance(c, ast.Compare) and isinstance(c.ops[0], ast.Lt) and isinstance(c.comparators[0], ast.Constant) and c.comparators[0].value == 0 and short(c.left) in bound_names:
                            rejected = True
            ok = adjusted or rejected
            out.append(Instance("R-NEGIDX", f"{fi.qual}#int-to-slice:{idx}", OK if ok else BAD,
                                f"integer index `{idx}` is {'adjusted' if adjusted else 'rejected'} for negative values before becoming slice({idx}, {idx} + 1)" if ok
                                else f"`{short(n)}` turns an integer index into a slice without handling negative values: index -1 becomes slice(-1, 0), a negative-length region", fi.where(n)))
    # slice *bounds* (not integer indexes): a negative bound counts from the end but is clamped at the start,
    # x[-15:] on ten elements is x[0:]; `n + x` alone stays negative and is wrapped a second time by the user
    from ..astutil import with_folded

    for fi in prog.all_functions(modules):
        for n in with_folded(walk_own(fi.node)):
            if not isinstance(n, ast.IfExp):
                continue
            t = n.test
            if not (isinstance(t, ast.Compare) and len(t.ops) == 1 and isinstance(t.left, ast.Name) and isinstance(t.comparators[0], ast.Constant) and t.comparators[0].value == 0):
                continue
            x = t.left.id
            neg_branch = n.orelse if isinstance(t.ops[0], (ast.GtE, ast.Gt)) else n.body if isinstance(t.ops[0], (ast.Lt, ast.LtE)) else None
            pos_branch = n.body if neg_branch is n.orelse else n.orelse
            if neg_branch is None or not (isinstance(pos_branch, ast.Name) and pos_branch.id == x):
                continue
            adds = [b for b in ast.walk(neg_branch) if isinstance(b, ast.BinOp) and isinstance(b.op, ast.Add) and x in {short(b.left), short(b.right)}]
            if not adds:
                continue
            # only where the value becomes a slice bound
            st = enclosing_stmt(n)
            feeds_slice = any(isinstance(c, ast.Call) and call_name(c) == "slice" for y in walk_own(fi.node) if isinstance(y, ast.Return) and y.value is not None for c in ast.walk(y.value))
            if not feeds_slice and fi.parent is not None and isinstance(parent(n), ast.Return):
                # a local helper that resolves one bound (`return n + x if x < 0 else x`): the clamp belongs at each call site of
                # the enclosing function, where the value becomes a slice bound
                pf = fi.parent
                if any(isinstance(c, ast.Call) and call_name(c) == "slice" for y in walk_own(pf.node) if isinstance(y, ast.Return) and y.value is not None for c in ast.walk(y.value)):
                    inner_clamped = isinstance(neg_branch, ast.Call) and call_name(neg_branch) == "max" and any(const_num(a) == 0 for a in neg_branch.args)
                    for c in walk_own(pf.node):
                        if isinstance(c, ast.Call) and isinstance(c.func, ast.Name) and c.func.id == fi.name:
                            q, site_clamped = parent(c), inner_clamped
                            while q is not None and not isinstance(q, ast.stmt):
                                if isinstance(q, ast.Call) and call_name(q) == "max" and any(const_num(a) == 0 for a in q.args):
                                    site_clamped = True
                                q = parent(q)
                            out.append(Instance("R-NEGIDX", f"{pf.qual}#bound-wrap:{short(c, 30)}", OK if site_clamped else BAD,
                                                f"`{short(c, 40)}`: a negative bound wrapped by `{fi.name}` is clamped at 0" if site_clamped else
                                                f"`{short(enclosing_stmt(c), 60)}` takes the bound from `{fi.name}` (which wraps a negative offset as n + x) without max(0, .): a negative offset larger than the axis stays negative and is wrapped a second time by whoever uses the slice (s_[:-3] on two elements selects one)", pf.where(c)))
                continue
            if not feeds_slice:
                continue
            clamped = isinstance(neg_branch, ast.Call) and call_name(neg_branch) == "max" and any(const_num(a) == 0 for a in neg_branch.args)
            out.append(Instance("R-NEGIDX", f"{fi.qual}#bound-wrap:{x}", OK if clamped else BAD,
                                f"negative slice bound `{x}` counts from the end and is clamped at 0" if clamped else
                                f"`{short(n, 60)}` resolves a negative slice bound as `{short(adds[0])}` without clamping at 0: a bound reaching past the start stays negative and wraps a second time (x[-15:] on 10 elements becomes x[-5:])", fi.where(n)))
    return out


def enclosing_projection(prog: Program) -> List[Instance]:
    """C16: the pixel box of GeoBox.enclosing comes, on every path, from projecting the whole region
    (self.project(region)) and rounding outwards - not from a few mapped corners."""
    out: List[Instance] = []
    f = prog.func("geobox:GeoBox.enclosing")
    rd = ReachingDefs(f.node)
    # the variable whose .bbox / spans feed the result
    users = [n for n in walk_own(f.node) if isinstance(n, ast.Attribute) and n.attr in ("bbox", "span_x", "span_y") and isinstance(n.value, ast.Name)]
    if not users:
        return [Instance("R-GUARDSEQ", f"{f.qual}#project-then-round", UNDET, "pixel box variable not found", f.where())]
    var = users[0].value.id
    bad = []
    for u in users:
        st = enclosing_stmt(u)
        for _, dst, v, kind in rd.reaching(st, var):
            calls = {call_name(x) for x in ast.walk(v) if isinstance(x, ast.Call)} if v is not None else set()
            if not ({"project", "round"} <= calls):
                bad.append(short(v) if v is not None else kind)
    out.append(Instance("R-GUARDSEQ", f"{f.qual}#project-then-round", BAD if bad else OK,
                        f"on some path the pixel box is `{bad[0][:70]}`, not the rounded box of the projected region: a rotated grid's enclosing box misses part of the region" if bad
                        else "pixel box = self.project(region).boundingbox.round() on every path", f.where()))
    return out


def explicit_beats_attribute(prog: Program) -> List[Instance]:
    """C15/C13: an explicitly passed nodata option takes precedence over the value stored in the
    array's attributes (the attribute is consulted only when the option is None)."""
    out: List[Instance] = []
    for q in ("cog._rio:write_cog", "_xr_interop:_xr_reproject_da"):
        f = prog.func(q)
        cond = Conditions(f.body)
        n_attr = 0
        for n in walk_own(f.node):
            is_attr_read = (isinstance(n, ast.Call) and call_name(n) == "get" and "attrs" in short(n.func) and n.args and isinstance(n.args[0], ast.Constant) and n.args[0].value == "nodata") or (
                isinstance(n, ast.Attribute) and n.attr == "nodata" and short(n.value).endswith(".odc"))
            if not is_attr_read:
                continue
            n_attr += 1
            st = enclosing_stmt(n)
            cs = conds_at(cond, st)
            guarded = any(p and isinstance(e, ast.Compare) and isinstance(e.ops[0], ast.Is) and isinstance(e.comparators[0], ast.Constant) and e.comparators[0].value is None and "nodata" in short(e.left) for e, p in cs)
            # the attribute read must not itself carry the explicit option as its default
            nested_pop = isinstance(n, ast.Call) and any(isinstance(x, ast.Call) and call_name(x) == "pop" for a in n.args[1:] for x in ast.walk(a))
            ok = guarded and not nested_pop
            out.append(Instance("R-GUARDSEQ", f"{q}#explicit-nodata-first:{n_attr}", OK if ok else BAD,
                                "the nodata attribute is read only when no explicit nodata was passed" if ok else f"`{short(st, 70)}` lets the array's nodata attribute override an explicitly passed nodata", f.where(n)))
        if n_attr == 0:
            out.append(Instance("R-GUARDSEQ", f"{q}#explicit-nodata-first", INFO, "no nodata attribute fallback", f.where(), nontrivial=False))
    return out


def polygon_bbox_last(prog: Program) -> List[Instance]:
    """C08: from_geopolygon re-projects the *polygon* and takes its bounding box afterwards; a
    re-projected bounding box of the source polygon is larger (or, by corners, smaller) than needed."""
    out: List[Instance] = []
    f = prog.func("geobox:GeoBox.from_geopolygon")
    org = Origins(f)
    poly = f.param_names()[0]
    calls = [n for n in walk_own(f.node) if isinstance(n, ast.Call) and call_name(n) == "from_bbox" and n.args]
    for n in calls:
        a = n.args[0]
        exprs = [a] + [v for nm in names_in(a) if nm != poly for _, v in org.defs.get(nm, [])]
        ok = isinstance(a, ast.Attribute) and a.attr == "boundingbox" and names_in(a.value) == {poly}
        bad_shape = any(isinstance(x, ast.Call) and call_name(x) == "to_crs" and isinstance(x.func, ast.Attribute) and isinstance(x.func.value, ast.Attribute) and x.func.value.attr == "boundingbox" for e in exprs for x in ast.walk(e))
        out.append(Instance("R-GUARDSEQ", f"{f.qual}#bbox-of-projected-polygon", OK if ok and not bad_shape else BAD,
                            "bounding box is taken from the polygon after re-projection" if ok and not bad_shape else f"`{short(a)}`: the grid is built from a re-projected bounding box instead of the bounding box of the re-projected polygon", f.where(n)))
    if not calls:
        out.append(Instance("R-GUARDSEQ", f"{f.qual}#bbox-of-projected-polygon", UNDET, "from_bbox call not found", f.where()))
    return out


def tiles_geobox_consistency(prog: Program) -> List[Instance]:
    """C04: GeoboxTiles keeps its base geobox and its ROI tiling in step: a tile's geobox is the base
    cropped to the tiling's region of the same index, and every derived GeoboxTiles is built from a
    geobox crop and a tiling crop of the same region."""
    out: List[Instance] = []
    ci = prog.cls("geobox:GeoboxTiles")
    init = ci.find_method("__init__")
    f_box = _field_of_param(init, [p.arg for p in init.positional_params()][1]) if init else None
    # the tiling field: assigned from the _tiles keyword parameter
    f_til = None
    if init is not None:
        for n in walk_own(init.node):
            if isinstance(n, ast.Assign) and isinstance(n.targets[0], ast.Attribute) and isinstance(n.value, ast.Call) and call_name(n.value) == "roi_tiles":
                f_til = n.targets[0].attr
    if not (f_box and f_til):
        return [Instance("R-GUARDSEQ", f"{ci.qual}#fields", UNDET, "base geobox / tiling fields not identified", "")]
    gi = ci.find_method("__getitem__")
    idxp = [p.arg for p in gi.positional_params()][1]
    ok = False
    for n in walk_own(gi.node):
        if isinstance(n, ast.Return) and isinstance(n.value, ast.Subscript):
            v = n.value
            inner = v.slice
            ok = isinstance(v.value, ast.Attribute) and v.value.attr == f_box and isinstance(inner, ast.Subscript) and isinstance(inner.value, ast.Attribute) and inner.value.attr == f_til and short(inner.slice) == idxp
    out.append(Instance("R-GUARDSEQ", f"{gi.qual}#tile-is-base-crop", OK if ok else BAD,
                        "tile idx = base geobox cropped to the tiling's region of idx" if ok else "tile lookup is not base[tiling[idx]] for the same index", gi.where()))
    cs = ci.find_method("chunk_shape")
    if cs is not None:
        ok = any(isinstance(n, ast.Call) and call_name(n) == "tile_shape" and isinstance(n.func, ast.Attribute) and isinstance(n.func.value, ast.Attribute) and n.func.value.attr == f_til and [short(a) for a in n.args] == [p.arg for p in cs.positional_params()][1:2] for n in walk_own(cs.node))
        out.append(Instance("R-GUARDSEQ", f"{cs.qual}#delegates", OK if ok else BAD, "chunk shape comes from the tiling for the same index" if ok else "chunk_shape does not ask the tiling for the same index", cs.where()))
    # derived GeoboxTiles: geobox crop and tiling crop use the same region
    for mname in ("_crop", "clip"):
        m = ci.find_method(mname)
        if m is None:
            continue
        org = Origins(m)
        for n in walk_own(m.node):
            if isinstance(n, ast.Call) and call_name(n) == ci.name and n.args:
                g_expr = n.args[0]
                t_expr = next((k.value for k in n.keywords if k.arg == "_tiles"), None)
                if t_expr is None:
                    out.append(Instance("R-GUARDSEQ", f"{m.qual}#same-region", BAD, "derived GeoboxTiles re-tiles the cropped geobox instead of cropping the tiling", m.where(n)))
                    continue
                g_deps, t_deps = org.deps_names(g_expr), org.deps_names(t_expr)
                # both must depend on one common region variable / one common producing call
                params = set(m.param_names()) - {m.self_name}
                common = (g_deps & t_deps) - {m.self_name}
                # region flows from the same parameter (for _crop) or from the same clip_tiles call (for clip)
                producers = set()
                for nm in common:
                    for _, v in org.defs.get(nm, []):
                        for x in ast.walk(v):
                            if isinstance(x, ast.Call):
                                producers.add(call_name(x))
                ok = bool(common & params) and (mname != "clip" or "clip_tiles" in (producers | common))
                out.append(Instance("R-GUARDSEQ", f"{m.qual}#same-region", OK if ok else BAD,
                                    "cropped geobox and cropped tiling derive from the same region" if ok else "cropped geobox and cropped tiling are not derived from the same region/selection", m.where(n)))
    return out


def locate_siblings(prog: Program) -> List[Instance]:
    """C04: Tiles.locate and VariableSizedTiles.locate reject the same out-of-range pixels (sibling
    implementations of RoiTiles.locate): same comparisons of the pixel with 0 and the base extent."""
    out: List[Instance] = []

    def guard(f: FuncInfo):
        from .axis import Beliefs
        b = Beliefs(f)
        tests = set()
        raises = False
        for g, n in prog.closure_nodes(f):
            if g is not f:
                b = Beliefs(g)
            if isinstance(n, ast.If) and any(isinstance(x, ast.Raise) for x in n.body):
                raises = any("IndexError" in short(x.exc) for x in n.body if isinstance(x, ast.Raise))
                for c in ast.walk(n.test):
                    if isinstance(c, ast.Compare) and len(c.ops) == 1 and isinstance(c.left, ast.Name):
                        r = c.comparators[0]
                        rhs = "0" if const_num(r) == 0 else ("extent" if isinstance(r, ast.Name) else "?")
                        ax = b.of(c.left.id) or "?"
                        ax2 = b.of(r.id) if isinstance(r, ast.Name) else ax
                        tests.add((ax, type(c.ops[0]).__name__, rhs, ax2))
        return tests, raises

    a, b2 = prog.func("roi:Tiles.locate"), prog.func("roi:VariableSizedTiles.locate")
    ta, ra = guard(a)
    tb, rb = guard(b2)
    want = {("Y", "Lt", "0", "Y"), ("Y", "GtE", "extent", "Y"), ("X", "Lt", "0", "X"), ("X", "GtE", "extent", "X")}
    if not ta and not tb:
        return [Instance("R-SIBLING", "roi:Tiles.locate~VariableSizedTiles.locate#range-guard", UNDET, "no range test that raises found in either implementation or its private helpers", a.where())]
    named = not any("?" in t for t in ta | tb)
    ok = ta == tb and ra and rb and (ta == want or not named)
    out.append(Instance("R-SIBLING", "roi:Tiles.locate~VariableSizedTiles.locate#range-guard", OK if ok else BAD,
                        "both reject pixels with coordinate < 0 or >= extent of the same axis with IndexError" if ok else f"range guards differ or are incomplete: {sorted(ta)} vs {sorted(tb)}", a.where()))
    return out


# ---------------------------------------------------------------------------------------------
# sibling agreement: on which side of the dst->src transform the read-shrink rescaling is composed
# ---------------------------------------------------------------------------------------------
def _reciprocal_scale(e: ast.AST) -> Optional[str]:
    """`Affine.scale(1 / k[, 1 / k])` -> name of k."""
    if not (isinstance(e, ast.Call) and (dotted(e.func) or "").endswith("Affine.scale") and e.args):
        return None
    ks = set()
    for a in e.args:
        if isinstance(a, ast.BinOp) and isinstance(a.op, ast.Div) and const_num(a.left) == 1 and isinstance(a.right, ast.Name):
            ks.add(a.right.id)
        else:
            return None
    return ks.pop() if len(ks) == 1 else None


def shrink_side_agreement(prog: Program) -> List[Instance]:
    """_can_paste validates the transform `scale(1/k) * A` (translation measured in overview pixels);
    compute_reproject_roi must plan with the same product. Affine multiplication does not commute:
    with the factors the other way round the linear part is identical but the translation stays in
    full-resolution pixels, so the regions are displaced although every shape relation still holds."""
    out: List[Instance] = []
    sites: List[Tuple[FuncInfo, ast.BinOp, str]] = []
    for fi in prog.all_functions({"overlap"}):
        for n in walk_own(fi.node):
            if isinstance(n, ast.BinOp) and isinstance(n.op, ast.Mult):
                if _reciprocal_scale(n.left) and _reciprocal_scale(n.right) is None:
                    sites.append((fi, n, "left"))
                elif _reciprocal_scale(n.right) and _reciprocal_scale(n.left) is None:
                    sites.append((fi, n, "right"))
    ref = [s for s in sites if s[0].name == "_can_paste"]
    if not ref or len(sites) < 2:
        out.append(Instance("R-SIBLING", "overlap#shrink-side", INFO, f"{len(sites)} reciprocal-scale composition site(s); nothing to cross-check", ""))
        return out
    side = ref[0][2]
    for fi, n, sd in sites:
        ok = sd == side
        out.append(Instance("R-SIBLING", f"{fi.qual}#shrink-side:{_reciprocal_scale(n.left) or _reciprocal_scale(n.right)}", OK if ok else BAD,
                            f"read-shrink rescaling composed on the {sd} (output/source side), as validated by _can_paste" if ok else
                            f"`{short(n, 60)}` composes the read-shrink rescaling on the {sd} while _can_paste validates it on the {side}: the translation is not divided by the shrink factor, regions are displaced", fi.where(n)))
    return out


def gcp_view_state(prog: Program) -> List[Instance]:
    """A GCPGeoBox is a *view*: control-point mapping composed with a pixel affine that crop / pad / zoom /
    flip update. Every member the plain GeoBox computes from its affine must, in GCPGeoBox, read the view
    affine too (directly or through members that do); a member that only consults the shared mapping
    answers for the original image instead of the view."""
    from .valueobj import fields_read

    out: List[Instance] = []
    gb = prog.classes.get("geobox:GeoBox")
    gcp = prog.classes.get("gcp:GCPGeoBox")
    if gb is None or gcp is None:
        return [Instance("R-SIBLING", "gcp:GCPGeoBox#view-state", UNDET, "GeoBox / GCPGeoBox not found", "")]
    for name, m in sorted(gcp.methods.items()):
        if name in ("__repr__", "__str__", "__init__"):
            continue
        g = gb.find_method(name)
        if g is None or g is m:
            continue
        if "_affine" not in fields_read(gb, g)[0]:
            continue
        rets = [r for r in walk_own(m.node) if isinstance(r, ast.Return)]
        if rets and all(isinstance(r.value, ast.Constant) for r in rets):
            out.append(Instance("R-SIBLING", f"{m.qual}#view-state", OK, "constant answer, independent of the view", m.where(), nontrivial=False))
            continue
        reads = fields_read(gcp, m)[0]
        ok = "_affine" in reads
        out.append(Instance("R-SIBLING", f"{m.qual}#view-state", OK if ok else BAD,
                            f"reads the view affine (state read: {sorted(reads)})" if ok else
                            f"GeoBox.{name} is computed from the affine, but GCPGeoBox.{name} reads only {sorted(reads)}: after crop/zoom/flip it still answers for the uncropped, unscaled image", m.where()))
    return out


def gridspec_polygon_filter(prog: Program) -> List[Instance]:
    """C14: GridSpec.tiles_from_geopolygon yields a tile only when the query is known not to be disjoint
    from the extent of that very tile - on every path to the yield (a disjunction with any other
    condition lets bounding-box-only candidates through)."""
    out: List[Instance] = []
    f = prog.func("gridspec:GridSpec.tiles_from_geopolygon")
    cond = Conditions(f.body)
    ys = [n for n in walk_own(f.node) if isinstance(n, (ast.Yield, ast.YieldFrom))]
    if not ys:
        return [Instance("R-GUARDSEQ", f"{f.qual}#yield-under-intersect", UNDET, "no yield found", f.where())]
    # an empty query has NaN bounds: the candidate enumeration is reached only for non-empty queries
    for lp in (n for n in walk_own(f.node) if isinstance(n, ast.For) and any(isinstance(c, ast.Call) and call_name(c) == "tiles" for c in ast.walk(n.iter))):
        okE = any(isinstance(e, ast.Attribute) and e.attr == "is_empty" and not p for e, p in conds_at(cond, lp))
        out.append(Instance("R-EMPTY", f"{f.qual}#empty-query", OK if okE else BAD,
                            "candidate tiles are enumerated only for a non-empty query" if okE else
                            "the bounds of the query feed the candidate enumeration without an is_empty test: an empty polygon has NaN bounds and the index computation raises instead of yielding nothing", f.where(lp)))
    for k, y in enumerate(ys):
        st = enclosing_stmt(y)
        yielded = names_in(y.value) if y.value is not None else set()
        ok = False
        local_pred_notouch = False
        for e, p in conds_at(cond, st):
            # a local predicate `overlaps(tile.extent)`: read its single return expression
            if p and isinstance(e, ast.Call) and isinstance(e.func, ast.Name) and e.func.id in f.nested and e.args:
                nf_ = f.nested[e.func.id]
                rets_ = [r.value for r in walk_own(nf_.node) if isinstance(r, ast.Return) and r.value is not None]
                if len(rets_) == 1:
                    rv_ = rets_[0]
                    inter = any(isinstance(x, ast.Call) and call_name(x) == "intersects" for x in ast.walk(rv_)) or any(isinstance(u, ast.UnaryOp) and isinstance(u.op, ast.Not) and isinstance(u.operand, ast.Call) and call_name(u.operand) == "disjoint" for u in ast.walk(rv_))
                    conj = not any(isinstance(b_, ast.BoolOp) and isinstance(b_.op, ast.Or) for b_ in ast.walk(rv_))
                    ext_ = [x for a_ in e.args for x in ast.walk(a_) if isinstance(x, ast.Attribute) and x.attr == "extent"]
                    if inter and conj and ext_ and names_in(ext_[0].value) & yielded:
                        ok = True
                    if conj and any(isinstance(u, ast.UnaryOp) and isinstance(u.op, ast.Not) and isinstance(u.operand, ast.Call) and call_name(u.operand) == "touches" for u in ast.walk(rv_)):
                        local_pred_notouch = True
            if isinstance(e, ast.Call) and call_name(e) in ("disjoint", "intersects") and ((call_name(e) == "disjoint" and not p) or (call_name(e) == "intersects" and p)):
                ext = [x for a in e.args for x in ast.walk(a) if isinstance(x, ast.Attribute) and x.attr == "extent"]
                # the extent may sit in a local first: extent = tile_geobox.extent
                for a in e.args:
                    if isinstance(a, ast.Name):
                        for x in walk_own(f.node):
                            if isinstance(x, ast.Assign) and any(isinstance(t, ast.Name) and t.id == a.id for t in x.targets):
                                ext += [y for y in ast.walk(x.value) if isinstance(y, ast.Attribute) and y.attr == "extent"]
                if ext and names_in(ext[0].value) & yielded:
                    ok = True
        # the two-argument module function geom.intersects(a, b) is `a.intersects(b) and not a.touches(b)`: read it, do not assume it
        gi_ = prog.maybe_func("geom:intersects")
        gi_excludes = gi_ is not None and any(isinstance(r, ast.Return) and any(isinstance(u, ast.UnaryOp) and isinstance(u.op, ast.Not) and isinstance(u.operand, ast.Call) and call_name(u.operand) == "touches" for u in ast.walk(r)) for r in walk_own(gi_.node))
        via_fn = gi_excludes and any(p and isinstance(e, ast.Call) and call_name(e) == "intersects" and len(e.args) == 2 for e, p in conds_at(cond, st))
        notouch = via_fn or local_pred_notouch or any(isinstance(e, ast.Call) and call_name(e) == "touches" and not p for e, p in conds_at(cond, st)) or any(isinstance(e, ast.Call) and call_name(e) in ("overlaps", "relate_pattern") and p for e, p in conds_at(cond, st))
        out.append(Instance("R-GUARDSEQ", f"{f.qual}#yield-excludes-touch:{k}", OK if notouch else BAD,
                            "edge/corner-only contact is excluded (not touches), like the bounding-box query does with its tolerance" if notouch else
                            "a tile that only touches the query along an edge or at a corner passes the filter (`not disjoint` / `intersects` are true for boundary contact): the statement excludes edge contacts", f.where(y)))
        out.append(Instance("R-GUARDSEQ", f"{f.qual}#yield-under-intersect:{k}", OK if ok else BAD,
                            "tile yielded only when the query is not disjoint from that tile's extent" if ok else
                            f"`{short(st, 60)}` is reachable without the query having been tested against the extent of the yielded tile: tiles that only touch the query's bounding box are returned", f.where(y)))
    return out


WORLD_CONSUMERS = {"from_transform", "polygon_from_transform", "resolution_from_affine"}
WORLD_AFFINE_EXEMPT = {
    "alignment": "pixel-edge alignment is only defined for linear geoboxes; no property speaks about it for GCP geoboxes",
}


def base_world_affine_use(prog: Program) -> List[Instance]:
    """GeoBoxBase is shared by linear geoboxes (where `_affine` maps pixels to the world) and by geoboxes
    whose `linear` is False (GCPGeoBox: `_affine` is only the crop/zoom view in the pixel plane). A base
    method that uses `self._affine` as a pixel->world mapping - hands it to from_transform /
    polygon_from_transform / resolution_from_affine, applies it or its inverse to a point, unpacks its
    six numbers - must be overridden in every non-linear subclass or be guarded by `self.linear` on that
    path; otherwise the non-linear subclass answers in pixel units labelled with the world CRS."""
    out: List[Instance] = []
    base = prog.classes.get("geobox:GeoBoxBase")
    if base is None:
        return [Instance("R-SIBLING", "geobox:GeoBoxBase#world-affine-use", UNDET, "GeoBoxBase not found", "")]
    nonlinear = []
    for ci in prog.classes.values():
        if ci is base or base not in ci.mro():
            continue
        lp = ci.methods.get("linear")
        if lp is not None and any(isinstance(r, ast.Return) and isinstance(r.value, ast.Constant) and r.value.value is False for r in walk_own(lp.node)):
            nonlinear.append(ci)
    if not nonlinear:
        return [Instance("R-SIBLING", "geobox:GeoBoxBase#world-affine-use", INFO, "no subclass declares linear = False", "", nontrivial=False)]
    for name, m in sorted(base.methods.items()):
        if name.startswith("__"):
            continue
        me = m.self_name
        uses = []
        for n in walk_own(m.node):
            if not (isinstance(n, ast.Attribute) and n.attr == "_affine" and isinstance(n.value, ast.Name) and n.value.id == me and isinstance(n.ctx, ast.Load)):
                continue
            p = parent(n)
            kind = None
            if isinstance(p, ast.Call) and call_name(p) in WORLD_CONSUMERS and n in p.args:
                kind = f"argument of {call_name(p)}()"
            elif isinstance(p, ast.keyword) and isinstance(parent(p), ast.Call) and call_name(parent(p)) in WORLD_CONSUMERS:
                kind = f"argument of {call_name(parent(p))}()"
            elif isinstance(p, ast.BinOp) and isinstance(p.op, ast.Mult) and p.left is n and isinstance(p.right, ast.Tuple):
                kind = "applied to a point"
            elif isinstance(p, ast.UnaryOp) and isinstance(p.op, ast.Invert) and isinstance(parent(p), ast.BinOp) and isinstance(parent(p).right, ast.Tuple):
                kind = "inverse applied to a point"
            elif isinstance(p, ast.Assign) and isinstance(p.targets[0], (ast.Tuple, ast.List)) and p.value is n:
                kind = "unpacked into its components"
            if kind:
                uses.append((n, kind))
        if not uses:
            continue
        cond = Conditions(m.body)
        for k, (n, kind) in enumerate(uses):
            cid = f"{m.qual}#world-affine-use:{k}"
            if name in WORLD_AFFINE_EXEMPT:
                out.append(Instance("R-SIBLING", cid, INFO, f"table: {WORLD_AFFINE_EXEMPT[name]}", m.where(n), nontrivial=False))
                continue
            guarded = any(isinstance(e, ast.Attribute) and e.attr == "linear" and p_ for e, p_ in conds_at(cond, enclosing_stmt(n)))
            missing = [ci.name for ci in nonlinear if name not in ci.methods]
            ok = guarded or not missing
            out.append(Instance("R-SIBLING", cid, OK if ok else BAD,
                                (f"`self._affine` {kind} only on the `self.linear` path" if guarded else f"overridden in {[c.name for c in nonlinear]}") if ok else
                                f"GeoBoxBase.{name} uses `self._affine` as a pixel->world mapping ({kind}) without a `self.linear` guard, and {missing} does not override it: for that class `_affine` is only the view in the pixel plane, the answer is in pixel units labelled with the world CRS", m.where(n)))
    return out


def _anc(n: ast.AST, stop: ast.AST):
    p = parent(n)
    while p is not None and p is not stop:
        yield p
        p = parent(p)
