"""R-AXIS: x/y axis-tag consistency (phantom-type inference).

odc-geo mixes (x, y) and (y, x) orders on purpose.  The rule infers an axis tag in {X, Y} for
scalar expressions and an axis order for 2-/4-/6-tuples from sources with fixed semantics
(.xy .yx .shape .wh, .x/.y/.width/.height/.left/..., BoundingBox and Affine unpacking) and from the
repository's own naming belief (nx/ny, tx/ty, w/h, col/row ...; a name carries a belief only when
its twin of the other axis occurs in the same function), then checks

  T1  a tagged value in a slot of the opposite axis of a sink with fixed slot semantics
  T2  unpacking a tuple of known order into names of the opposite belief
  T3  zip() of two sequences with different known orders
  T4  a per-axis helper called with arguments of both axes
  T5  X +/- Y arithmetic, coordinate-vs-extent comparison across axes, cross-axis min/max

It does not see sign errors or wrong constants.
"""
from __future__ import annotations

import ast
import re
from typing import Dict, List, Optional, Set, Tuple

from ..astutil import call_name, const_num, names_in, with_folded
from ..loader import FuncInfo, Program, dotted, enclosing_stmt, parent, short, walk_own
from ..report import BAD, INFO, OK, UNDET, Instance

X, Y = "X", "Y"
OPP = {X: Y, Y: X}

ATTR_AXIS = {
    "x": X, "width": X, "span_x": X, "left": X, "right": X, "lon": X, "range_x": X,
    "y": Y, "height": Y, "span_y": Y, "top": Y, "bottom": Y, "lat": Y, "range_y": Y,
}
ATTR_ORDER = {"xy": (X, Y), "wh": (X, Y), "lonlat": (X, Y), "yx": (Y, X), "latlon": (Y, X), "shape": (Y, X)}

# name stems: <stem>x / x<stem> ; the twin is obtained by swapping the axis letter
_PRE = r"(?:n|t|s|r|i|o|w|p|b|d|f|c|m|a|off|pad|align|flip|span_?|range_?|res_?|sz_?|size_?|min|max|fr|_)"
_POST = r"(?:[0-9]+|_?res|_?off|_?buff|_?bin|_?size|_?sz|_?dim|_?dir|_?range|_?idx|_?step|_?pad|_|s|c)"
RX_X = re.compile(rf"^_*(?:{_PRE})*x(?:{_POST})*_*$")
RX_Y = re.compile(rf"^_*(?:{_PRE})*y(?:{_POST})*_*$")
WORD_X = {"w": "h", "width": "height", "col": "row", "cols": "rows", "lon": "lat", "NX": "NY", "sw": "sh", "dw": "dh", "ncols": "nrows", "xx": "yy", "_xx": "_yy", "XX": "YY"}
WORD_Y = {v: k for k, v in WORD_X.items()}
SIDE_X = {"left", "right"}
SIDE_Y = {"top", "bottom"}
GENERIC = {"x", "y"}  # bare x / y: belief only when both are parameters or bound by one unpack

COORD_NAMES = re.compile(r"^_*(x|y|x0|x1|y0|y1|ix|iy|tx|ty|col|row)$")
EXTENT_NAMES = re.compile(r"^_*(nx|ny|NX|NY|w|h|width|height)$")


def _swap_letter(name: str) -> Optional[str]:
    """nx -> ny, xoff -> yoff, x0 -> y0 ... (first axis letter that makes the pattern match)."""
    if RX_X.match(name):
        # replace the x that is the axis letter: try each position
        for i, ch in enumerate(name):
            if ch == "x":
                cand = name[:i] + "y" + name[i + 1 :]
                if RX_Y.match(cand):
                    return cand
    if RX_Y.match(name):
        for i, ch in enumerate(name):
            if ch == "y":
                cand = name[:i] + "x" + name[i + 1 :]
                if RX_X.match(cand):
                    return cand
    return None


ROI_ANN = ("NdROI", "ROI", "NormalizedROI")


def _roi_params(fi: FuncInfo) -> Set[str]:
    """Parameters holding a (row, col) region: annotated with one of the ROI aliases or `Tuple[SomeSlice, ...]`."""
    out: Set[str] = set()
    for a in fi.params():
        ann = a.annotation
        if ann is None:
            continue
        txt = ast.unparse(ann)
        names = {x.id for x in ast.walk(ann) if isinstance(x, ast.Name)} | {x.attr for x in ast.walk(ann) if isinstance(x, ast.Attribute)}
        if names & set(ROI_ANN) or ("Tuple" in names and names & {"SomeSlice", "NormalizedSlice", "slice"} and "..." in txt):
            out.add(a.arg)
    return out


def _comprehension_source(e: ast.AST) -> Optional[Set[str]]:
    """Names iterated by `tuple(<elt> for v in SRC)` / `[... for v in SRC]` / `... in zip(SRC, other)`; None when `e` is not of that form."""
    if isinstance(e, ast.Call) and call_name(e) in ("tuple", "list") and len(e.args) == 1:
        e = e.args[0]
    if not isinstance(e, (ast.GeneratorExp, ast.ListComp)) or len(e.generators) != 1:
        return None
    it = e.generators[0].iter
    if isinstance(it, ast.Call) and call_name(it) == "zip":
        return {a.id for a in it.args if isinstance(a, ast.Name)}
    if isinstance(it, ast.Name):
        return {it.id}
    return set()


def _under_scalar_test(ret: ast.Return, fi: FuncInfo, roi_params: Set[str]) -> bool:
    """`if not isinstance(roi, Sequence): return f(roi)` / `if isinstance(roi, slice): return ...`"""
    p = parent(ret)
    while p is not None and p is not fi.node:
        if isinstance(p, ast.If):
            for c in ast.walk(p.test):
                if isinstance(c, ast.Call) and call_name(c) == "isinstance" and c.args and isinstance(c.args[0], ast.Name) and c.args[0].id in roi_params:
                    return True
        p = parent(p)
    return False


class Beliefs:
    def __init__(self, fi: FuncInfo):
        self.fi = fi
        names: Set[str] = set()
        f: Optional[FuncInfo] = fi
        for n in ast.walk(fi.node):
            if isinstance(n, ast.Name):
                names.add(n.id)
            elif isinstance(n, ast.arg):
                names.add(n.arg)
        # names of the enclosing function are visible in nested helpers
        f = fi.parent
        while f is not None:
            for n in walk_own(f.node):
                if isinstance(n, ast.Name):
                    names.add(n.id)
            names |= set(f.param_names())
            f = f.parent
        self.names = names
        self.attrs: Set[str] = {n.attr for n in ast.walk(fi.node) if isinstance(n, ast.Attribute)}
        self.axis: Dict[str, str] = {}
        params = set(fi.param_names())
        paired_xy = {"x", "y"} <= params or self._bound_together("x", "y")
        for nm in names:
            if nm in GENERIC:
                if paired_xy:
                    self.axis[nm] = X if nm == "x" else Y
                continue
            if nm in WORD_X and WORD_X[nm] in names:
                self.axis[nm] = X
                continue
            if nm in WORD_Y and WORD_Y[nm] in names:
                self.axis[nm] = Y
                continue
            if nm in SIDE_X and names & SIDE_Y:
                self.axis[nm] = X
                continue
            if nm in SIDE_Y and names & SIDE_X:
                self.axis[nm] = Y
                continue
            tw = _swap_letter(nm)
            if tw is not None and tw in names and len(nm) <= 8:
                self.axis[nm] = X if RX_X.match(nm) and not RX_Y.match(nm) else (Y if RX_Y.match(nm) and not RX_X.match(nm) else self.axis.get(nm))  # type: ignore[assignment]
                if self.axis[nm] is None:
                    del self.axis[nm]

    def _bound_together(self, a: str, b: str) -> bool:
        for n in ast.walk(self.fi.node):
            tg = None
            if isinstance(n, ast.Assign):
                tg = n.targets[0]
            elif isinstance(n, (ast.For, ast.comprehension)):
                tg = n.target
            if isinstance(tg, (ast.Tuple, ast.List)):
                ids = {e.id for e in tg.elts if isinstance(e, ast.Name)}
                if {a, b} <= ids:
                    return True
        return False

    def of(self, name: str) -> Optional[str]:
        return self.axis.get(name)

    def of_attr(self, attr: str) -> Optional[str]:
        """self._xbin / self._ybin style fields: belief only when the twin field is used too."""
        tw = _swap_letter(attr)
        if tw is None or tw not in self.attrs or len(attr) > 10:
            return None
        if RX_X.match(attr) and not RX_Y.match(attr):
            return X
        if RX_Y.match(attr) and not RX_X.match(attr):
            return Y
        return None


class AxisTyper:
    PASS_CALLS = {"abs", "int", "float", "round", "floor", "ceil", "maybe_int", "maybe_zero", "align_up", "align_down", "len", "max", "min", "clamp", "snap_scale", "sorted", "list", "tuple", "asarray", "array", "arange", "linspace"}

    _ret_cache: Dict[str, Optional[Tuple[str, ...]]] = {}

    def __init__(self, fi: FuncInfo, beliefs: Beliefs, prog: Optional[Program] = None):
        self.fi = fi
        self.b = beliefs
        self.prog = prog
        self.conflicts: List[ast.AST] = []

    def _derived(self, name: str, depth: int) -> Optional[str]:
        """A local bound exactly once, by a plain assignment, to a value of one axis carries that axis
        (`pix = abs(resolution.x)` is an X quantity whatever it is called)."""
        if not hasattr(self, "_derived_memo"):
            self._derived_memo: Dict[str, Optional[str]] = {}
        if name in self._derived_memo:
            return self._derived_memo[name]
        self._derived_memo[name] = None  # recursion guard
        if name in self.fi.param_names():
            return None
        defs = []
        for n in walk_own(self.fi.node):
            if isinstance(n, (ast.Assign, ast.AnnAssign, ast.AugAssign, ast.For, ast.With, ast.NamedExpr)) or isinstance(n, ast.comprehension):
                tg = n.targets if isinstance(n, ast.Assign) else [getattr(n, "target", None)] if not isinstance(n, ast.With) else [i.optional_vars for i in n.items]
                for t in tg:
                    if t is not None and any(isinstance(x, ast.Name) and x.id == name for x in ast.walk(t)):
                        defs.append(n)
        for n in ast.walk(self.fi.node):
            if isinstance(n, ast.comprehension) and any(isinstance(x, ast.Name) and x.id == name for x in ast.walk(n.target)):
                defs.append(n)
        # a name bound at a fixed position of an Affine unpack: (a, b, c, d, e, f) = (x-scale, _, x-off, _, y-scale, y-off)
        if len(defs) == 1 and isinstance(defs[0], ast.Assign) and len(defs[0].targets) == 1 and isinstance(defs[0].targets[0], (ast.Tuple, ast.List)) and len(defs[0].targets[0].elts) >= 6:
            val = defs[0].value
            if _looks_affine(val, self.fi):
                for i, e in enumerate(defs[0].targets[0].elts[:6]):
                    if isinstance(e, ast.Name) and e.id == name:
                        t = {0: X, 2: X, 4: Y, 5: Y}.get(i)
                        self._derived_memo[name] = t
                        return t
        # element-wise tuple assignment: `scale, tx, ty = ST.a, ST.xoff, ST.yoff`
        if len(defs) == 1 and isinstance(defs[0], ast.Assign) and len(defs[0].targets) == 1 and isinstance(defs[0].targets[0], (ast.Tuple, ast.List)) \
                and isinstance(defs[0].value, (ast.Tuple, ast.List)) and len(defs[0].value.elts) == len(defs[0].targets[0].elts) \
                and not any(isinstance(x, ast.Starred) for x in defs[0].targets[0].elts + defs[0].value.elts):
            for e, v in zip(defs[0].targets[0].elts, defs[0].value.elts):
                if isinstance(e, ast.Name) and e.id == name:
                    comp = any(isinstance(x, ast.Attribute) and (x.attr in ATTR_AXIS or x.attr in ("xoff", "yoff") or (x.attr in ("a", "c", "e", "f") and _looks_affine(x.value, self.fi))) for x in ast.walk(v))
                    t = self.tag(v, depth + 1) if comp else None
                    self._derived_memo[name] = t
                    return t
        if len(defs) != 1 or not isinstance(defs[0], ast.Assign) or len(defs[0].targets) != 1 or not isinstance(defs[0].targets[0], ast.Name):
            return None
        v = defs[0].value
        # only scalars built from one axis component: a.x, abs(a.x), a.x * k, ST.a ...
        if not any(isinstance(x, ast.Attribute) and (x.attr in ATTR_AXIS or x.attr in ("xoff", "yoff") or (x.attr in ("a", "c", "e", "f") and _looks_affine(x.value, self.fi))) for x in ast.walk(v)):
            return None
        t = self.tag(v, depth + 1)
        self._derived_memo[name] = t
        return t

    def return_order(self, callee: FuncInfo) -> Optional[Tuple[str, ...]]:
        """Axis order of a 2-tuple returned by a package function (all returns must agree)."""
        key = f"{id(self.prog)}:{callee.qual}"
        if key in AxisTyper._ret_cache:
            return AxisTyper._ret_cache[key]
        AxisTyper._ret_cache[key] = None  # recursion guard
        if callee.is_stub or isinstance(callee.node, ast.Lambda):
            return None
        ty = AxisTyper(callee, Beliefs(callee), self.prog)
        orders = set()
        roi_params = _roi_params(callee)
        scalar_form = False
        for n in walk_own(callee.node):
            if isinstance(n, ast.Return) and n.value is not None:
                o = ty.order(n.value) if isinstance(n.value, (ast.Tuple, ast.List)) and len(n.value.elts) == 2 else None
                if o is None and roi_params:
                    # `tuple(f(s) for s in roi)`: one element per axis of a (row, col) region -> (Y, X)
                    src = _comprehension_source(n.value)
                    if src is not None and src & roi_params:
                        o = (Y, X)
                    elif src is None and not isinstance(n.value, (ast.Tuple, ast.List, ast.GeneratorExp, ast.ListComp)) and _under_scalar_test(n, callee, roi_params):
                        scalar_form = True  # the one-slice form of an NdROI function
                        continue
                orders.add(o)
        res = orders.pop() if len(orders) == 1 else None
        AxisTyper._ret_cache[key] = res
        return res

    def tag(self, e: Optional[ast.AST], depth: int = 0) -> Optional[str]:
        if e is None or depth > 12:
            return None
        if isinstance(e, ast.Name):
            t = self.b.of(e.id)
            if t is None:
                t = self._derived(e.id, depth)
            return t
        if isinstance(e, ast.Attribute):
            if e.attr in ATTR_AXIS:
                # .x/.y of an axis-pure container (self._xbin ...) still means that axis
                return ATTR_AXIS[e.attr]
            # named components of an affine: a/c/xoff belong to the x row, e/f/yoff to the y row (b, d mix the axes)
            if e.attr in ("xoff", "yoff"):
                return X if e.attr == "xoff" else Y
            if e.attr in ("a", "c", "e", "f") and _looks_affine(e.value, self.fi):
                return X if e.attr in ("a", "c") else Y
            fa = self.b.of_attr(e.attr)
            if fa is not None:
                return fa
            base = self.tag(e.value, depth + 1)
            return base  # tx.real, xbin.origin ...
        if isinstance(e, ast.UnaryOp):
            return self.tag(e.operand, depth + 1)
        if isinstance(e, ast.BinOp):
            l, r = self.tag(e.left, depth + 1), self.tag(e.right, depth + 1)
            if l and r and l != r:
                return None
            return l or r
        if isinstance(e, ast.IfExp):
            a, b = self.tag(e.body, depth + 1), self.tag(e.orelse, depth + 1)
            if a and b and a != b:
                return None
            return a or b
        if isinstance(e, ast.Subscript):
            o = self.order(e.value, depth + 1)
            i = const_num(e.slice)
            if o is not None and i is not None and int(i) == i and -len(o) <= int(i) < len(o):
                return o[int(i)]
            if o is not None:
                return None
            return self.tag(e.value, depth + 1)
        if isinstance(e, ast.Call):
            nm = call_name(e)
            if nm in self.PASS_CALLS:
                tags = {self.tag(a, depth + 1) for a in e.args}
                tags.discard(None)
                return tags.pop() if len(tags) == 1 else None
            if isinstance(e.func, ast.Attribute) and nm in ("bin", "map", "item", "tolist", "astype", "min", "max", "ravel"):
                return self.tag(e.func.value, depth + 1)
            return None
        if isinstance(e, ast.Starred):
            return self.tag(e.value, depth + 1)
        if isinstance(e, (ast.Tuple, ast.List)) and e.elts:
            # [x0, x1]: a collection of values of one axis is of that axis
            tags = {self.tag(x, depth + 1) for x in e.elts}
            return tags.pop() if len(tags) == 1 else None
        return None

    def order(self, e: Optional[ast.AST], depth: int = 0) -> Optional[Tuple[str, ...]]:
        if e is None or depth > 10:
            return None
        if isinstance(e, (ast.Tuple, ast.List)):
            if any(isinstance(x, ast.Starred) for x in e.elts):
                if len(e.elts) == 1:
                    return self.order(e.elts[0].value, depth + 1)  # type: ignore[attr-defined]
                return None
            tags = [self.tag(x, depth + 1) for x in e.elts]
            if len(tags) in (2, 4) and all(tags):
                if len(tags) == 2 and tags[0] != tags[1]:
                    return tuple(tags)  # type: ignore[return-value]
                if len(tags) == 4 and tags[0] == tags[2] and tags[1] == tags[3] and tags[0] != tags[1]:
                    return tuple(tags)  # type: ignore[return-value]
            return None
        if isinstance(e, ast.Attribute):
            if e.attr in ATTR_ORDER:
                if e.attr == "shape" and self.tag(e.value) is not None:
                    return None
                return ATTR_ORDER[e.attr]
            if e.attr in ("bbox", "_box"):
                return (X, Y, X, Y)
            if e.attr in ("_shape",):
                return (Y, X)
            return None
        if isinstance(e, ast.Name):
            # locals bound once from an expression of known order
            defs = []
            for n in walk_own(self.fi.node):
                if isinstance(n, ast.Assign) and len(n.targets) == 1 and isinstance(n.targets[0], ast.Name) and n.targets[0].id == e.id:
                    defs.append(n.value)
            if len(defs) == 1 and not isinstance(defs[0], ast.Name):
                return self.order(defs[0], depth + 1)
            if e.id in ("shape", "_shape") and not defs:
                # parameter called shape: (ny, nx) by the library's convention
                return (Y, X)
            return None
        if isinstance(e, ast.Call):
            nm = call_name(e)
            if nm in ("map",) and len(e.args) == 2:
                return self.order(e.args[1], depth + 1)
            if nm in ("shape_",):
                return (Y, X)
            if nm in ("list", "tuple", "reversed") and e.args:
                o = self.order(e.args[0], depth + 1)
                if o is not None and nm == "reversed":
                    return tuple(reversed(o))
                return o
            if nm == "roi_shape":
                return (Y, X)
            if self.prog is not None and depth < 3:
                cal = [c for c in self.prog.resolve_call_by_name(e, self.fi) if not c.is_stub]
                if cal and len(cal) <= 4:
                    os_ = {self.return_order(c) for c in cal}
                    if len(os_) == 1:
                        return os_.pop()
            return None
        if isinstance(e, ast.GeneratorExp) or isinstance(e, ast.ListComp):
            if len(e.generators) == 1:
                g = e.generators[0]
                it = g.iter
                if isinstance(it, ast.Call) and call_name(it) == "zip":
                    os_ = [self.order(a, depth + 1) for a in it.args]
                    known = [o for o in os_ if o is not None]
                    if known and all(o == known[0] for o in known):
                        return known[0]
                    return None
                if isinstance(it, ast.Call) and call_name(it) == "range":
                    return None
                return self.order(it, depth + 1)
            return None
        if isinstance(e, ast.Subscript) and isinstance(e.slice, ast.Slice):
            o = self.order(e.value, depth + 1)
            if o is not None and e.slice.lower is None and e.slice.upper is None and e.slice.step is not None and const_num(e.slice.step) == -1:
                return tuple(reversed(o))
            if o is not None and len(o) == 4:
                lo = const_num(e.slice.lower) if e.slice.lower is not None else 0
                hi = const_num(e.slice.upper) if e.slice.upper is not None else 4
                if lo is not None and hi is not None:
                    return o[int(lo) : int(hi)]
            return None
        return None


# sinks: callee name -> list of axis per positional slot (None = untyped) and keyword axes
SINKS: Dict[str, Tuple[List[Optional[str]], Dict[str, str]]] = {
    "translation": ([X, Y], {}),
    "xy_": ([X, Y], {}), "ixy_": ([X, Y], {}), "resxy_": ([X, Y], {}), "wh_": ([X, Y], {}),
    "yx_": ([Y, X], {}), "iyx_": ([Y, X], {}), "resyx_": ([Y, X], {}),
    "XY": ([X, Y], {"x": X, "y": Y}), "Shape2d": ([X, Y], {"x": X, "y": Y}), "Index2d": ([X, Y], {"x": X, "y": Y}), "Resolution": ([X, Y], {"x": X, "y": Y}),
    "BoundingBox": ([X, Y, X, Y], {"left": X, "bottom": Y, "right": X, "top": Y}),
    "box": ([X, Y, X, Y], {"left": X, "bottom": Y, "right": X, "top": Y}),
    "from_xy": ([X, Y], {"x": X, "y": Y}),
    "translate_pix": ([X, Y], {"tx": X, "ty": Y}),
    "pad": ([X, Y], {"padx": X, "pady": Y}),
    "pad_wh": ([X, Y], {"alignx": X, "aligny": Y}),
    "buffered": ([X, Y], {"xbuff": X, "ybuff": Y}),
    "point": ([X, Y, None], {"x": X, "y": Y}),
    "pix2wld": ([X, Y], {}), "wld2pix": ([X, Y], {}),
    "pt2idx": ([X, Y], {"x": X, "y": Y}),
    "affine_from_axis": ([X, Y, None], {"xx": X, "yy": Y}),
    "polygon_path": ([X, Y, None], {"x": X, "y": Y}),
    "GroundControlPoint": ([], {"row": Y, "col": X, "x": X, "y": Y}),
}
# Affine.scale(a, b) only when two arguments; Affine(a, b, c, d, e, f)
PER_AXIS = {"polyval", "compute_axis_overlap", "snap_grid", "_snap_edge", "_snap_edge_pos", "data_resolution_and_offset", "Bin1D", "from_sample_bin", "_clamp", "_slice", "_sz", "slice_intersect3", "pad_slice"}
TUPLE_SINKS = {"roi_normalise": (Y, X), "shape_": (Y, X), "GeoBox": (Y, X), "GCPGeoBox": (Y, X), "iyx_": (Y, X), "yx_": (Y, X), "xy_": (X, Y), "ixy_": (X, Y), "locate": (Y, X), "tile_shape": (Y, X)}


def _cid(fi: FuncInfo, kind: str, node: ast.AST, counter: Dict[str, int]) -> str:
    base = f"{fi.qual}#axis:{kind}:{short(node, 46)}"
    counter[base] = counter.get(base, 0) + 1
    return base if counter[base] == 1 else f"{base}#{counter[base]}"


def rule_axis(prog: Program, modules: Set[str]) -> List[Instance]:
    out: List[Instance] = []
    for fi in prog.all_functions(modules):
        if fi.is_stub:
            continue
        b = Beliefs(fi)
        ty = AxisTyper(fi, b, prog)
        counter: Dict[str, int] = {}
        for n in with_folded(walk_own(fi.node)):
            # ---------------- T1: sinks
            if isinstance(n, ast.Call):
                nm = call_name(n)
                slots: Optional[List[Optional[str]]] = None
                kws: Dict[str, str] = {}
                if nm in SINKS:
                    slots, kws = SINKS[nm]
                    # pad/point/box... exist as unrelated names too: require an odc-ish callee
                    if nm in ("pad", "point", "box", "buffered") and isinstance(n.func, ast.Attribute) and dotted(n.func.value) in ("np", "numpy", "geometry"):
                        slots = None
                if nm == "scale" and len(n.args) == 2 and "Affine" in short(n.func):
                    slots, kws = [X, Y], {}
                if nm == "Affine" and len(n.args) == 6:
                    slots, kws = [X, None, X, None, Y, Y], {}
                if nm == "translation" and "Affine" not in short(n.func):
                    slots = None
                if slots is not None and not any(isinstance(a, ast.Starred) for a in n.args):
                    pairs = [(a, slots[i]) for i, a in enumerate(n.args) if i < len(slots) and slots[i]]
                    pairs += [(k.value, kws[k.arg]) for k in n.keywords if k.arg in kws]
                    # single-tuple form  xy_((a, b))
                    for a, want in pairs:
                        t = ty.tag(a)
                        if t is None and isinstance(a, ast.BinOp) and isinstance(a.op, (ast.Mult, ast.Div)):
                            tl, tr = ty.tag(a.left), ty.tag(a.right)
                            if tl and tr and tl != tr:
                                cid = _cid(fi, f"T1:{nm}", a, counter)
                                out.append(Instance("R-AXIS", cid, BAD, f"`{short(n, 70)}`: the {want}-slot of {nm}() receives `{short(a, 40)}`, a product of an {tl} and a {tr} quantity", fi.where(n)))
                        if t is None:
                            continue
                        cid = _cid(fi, f"T1:{nm}", a, counter)
                        if t == want:
                            out.append(Instance("R-AXIS", cid, OK, f"{want}-slot of {nm}() receives {t}-valued `{short(a, 40)}`", fi.where(n)))
                        else:
                            out.append(Instance("R-AXIS", cid, BAD, f"`{short(n, 70)}`: the {want}-slot of {nm}() receives `{short(a, 40)}`, which is a {t} quantity (x/y transposed)", fi.where(n)))
                # tuple-literal first argument with fixed order
                if nm in TUPLE_SINKS and n.args and isinstance(n.args[0], ast.Tuple) and len(n.args[0].elts) == 2:
                    want_o = TUPLE_SINKS[nm]
                    for el, want in zip(n.args[0].elts, want_o):
                        t = ty.tag(el)
                        if t is None:
                            continue
                        cid = _cid(fi, f"T1:{nm}()", el, counter)
                        if t == want:
                            out.append(Instance("R-AXIS", cid, OK, f"{nm}(({', '.join(want_o)})) receives {t} `{short(el, 30)}` in the {want} position", fi.where(n)))
                        else:
                            out.append(Instance("R-AXIS", cid, BAD, f"`{short(n, 70)}`: {nm}() expects ({', '.join(want_o)}) but `{short(el, 30)}` is a {t} quantity", fi.where(n)))
                elif nm in TUPLE_SINKS and n.args and (len(n.args) == 1 or nm == "roi_normalise"):
                    o = ty.order(n.args[0])
                    if o is not None and len(o) == 2:
                        want_o = TUPLE_SINKS[nm]
                        cid = _cid(fi, f"T1:{nm}(order)", n.args[0], counter)
                        if tuple(o) == want_o:
                            out.append(Instance("R-AXIS", cid, OK, f"{nm}() receives a ({', '.join(o)})-ordered pair", fi.where(n)))
                        else:
                            out.append(Instance("R-AXIS", cid, BAD, f"`{short(n, 70)}`: {nm}() expects ({', '.join(want_o)}) but `{short(n.args[0], 40)}` is in ({', '.join(o)}) order", fi.where(n)))
                # ---------------- T8: an isotropic constructor fed from a single axis of an anisotropic source
                if nm in ("res_",) and len(n.args) == 1 and not n.keywords:
                    a = n.args[0]
                    t = ty.tag(a)
                    comp = [x for x in ast.walk(a) if isinstance(x, ast.Attribute) and x.attr in ATTR_AXIS]
                    if t is not None and comp:
                        cid = _cid(fi, "T8:res_", a, counter)
                        out.append(Instance("R-AXIS", cid, BAD, f"`{short(n, 60)}` builds a square resolution from the {t} component alone: the {'Y' if t == X else 'X'} pixel size of the source is discarded (wrong for non-square pixels)", fi.where(n)))
                # ---------------- T4: per-axis helpers
                if nm in PER_AXIS:
                    flat: List[ast.AST] = []
                    for a in list(n.args) + [k.value for k in n.keywords if k.arg not in ("tol",)]:
                        flat.extend(a.elts if isinstance(a, (ast.List, ast.Tuple)) else [a])
                    tags = [(a, ty.tag(a)) for a in flat]
                    tset = {t for _, t in tags if t}
                    if tset:
                        cid = _cid(fi, f"T4:{nm}", n, counter)
                        if len(tset) == 1:
                            out.append(Instance("R-AXIS", cid, OK, f"per-axis helper {nm}() gets only {tset.copy().pop()} quantities", fi.where(n)))
                        else:
                            mix = [f"{short(a, 24)}:{t}" for a, t in tags if t]
                            out.append(Instance("R-AXIS", cid, BAD, f"`{short(n, 70)}`: per-axis helper {nm}() is called with quantities of both axes ({mix})", fi.where(n)))
                # ---------------- T3: zip of different orders
                if nm == "zip" and len(n.args) >= 2:
                    os_ = [(a, ty.order(a)) for a in n.args]
                    known = [(a, o) for a, o in os_ if o is not None and len(o) == 2]
                    if len(known) >= 2:
                        cid = _cid(fi, "T3:zip", n, counter)
                        if all(o == known[0][1] for _, o in known):
                            out.append(Instance("R-AXIS", cid, OK, f"zip() of sequences all in ({', '.join(known[0][1])}) order", fi.where(n)))
                        else:
                            d = [f"{short(a, 30)}:({','.join(o)})" for a, o in known]
                            out.append(Instance("R-AXIS", cid, BAD, f"`{short(n, 70)}` pairs sequences of different axis order: {d}", fi.where(n)))
                # ---------------- T5 (iii): cross-axis min/max bound to an axis-named variable
                if nm in ("min", "max") and len(n.args) == 2:
                    t0, t1 = ty.tag(n.args[0]), ty.tag(n.args[1])
                    if t0 and t1:
                        cid = _cid(fi, f"T5:{nm}", n, counter)
                        if t0 == t1:
                            out.append(Instance("R-AXIS", cid, OK, f"{nm}() of two {t0} quantities", fi.where(n)))
                        else:
                            st = enclosing_stmt(n)
                            tgt_axis = None
                            if isinstance(st, ast.Assign):
                                if isinstance(st.targets[0], ast.Name):
                                    tgt_axis = b.of(st.targets[0].id)
                                elif isinstance(st.targets[0], ast.Tuple) and isinstance(st.value, ast.Tuple) and n in st.value.elts:
                                    e = st.targets[0].elts[st.value.elts.index(n)]
                                    tgt_axis = b.of(e.id) if isinstance(e, ast.Name) else None
                            if tgt_axis is not None:
                                out.append(Instance("R-AXIS", cid, BAD, f"`{short(st, 70)}`: {nm}() mixes an X and a Y quantity and the result is used as a {tgt_axis} value", fi.where(n)))
            # ---------------- np.s_[Y, X]
            if isinstance(n, ast.Subscript) and short(n.value) in ("np.s_", "numpy.s_") and isinstance(n.slice, ast.Tuple) and len(n.slice.elts) == 2:
                for el, want in zip(n.slice.elts, (Y, X)):
                    if isinstance(el, ast.Slice):
                        tags = {ty.tag(x) for x in (el.lower, el.upper) if x is not None}
                        tags.discard(None)
                        if not tags:
                            continue
                        cid = _cid(fi, "T1:s_", el, counter)
                        if tags == {want}:
                            out.append(Instance("R-AXIS", cid, OK, f"{'row' if want == Y else 'column'} slice of np.s_[rows, cols] built from {want} quantities", fi.where(n)))
                        else:
                            out.append(Instance("R-AXIS", cid, BAD, f"`{short(n, 70)}`: the {'row' if want == Y else 'column'} slice is built from {sorted(tags)} quantities (rows are y, columns are x)", fi.where(n)))
            # ---------------- T7: axis-named local assigned from a value of the other axis
            if isinstance(n, ast.AnnAssign) and n.value is not None and isinstance(n.target, ast.Name):
                n = ast.copy_location(ast.Assign(targets=[n.target], value=n.value), n)
            if isinstance(n, ast.Assign) and len(n.targets) == 1 and isinstance(n.targets[0], ast.Name):
                tb = b.of(n.targets[0].id)
                tv = ty.tag(n.value)
                if isinstance(n.value, ast.IfExp) and tv is None:
                    # a choice between constants: the axis is that of the selecting condition
                    ts = {b.of(x) for x in names_in(n.value.test)}
                    ts.discard(None)
                    tv = ts.pop() if len(ts) == 1 else None
                simple_copy = isinstance(n.value, ast.Name) or (isinstance(n.value, ast.UnaryOp) and isinstance(n.value.operand, ast.Name))
                if tb and tv and not simple_copy:  # `ybuff = xbuff` is the isotropic default
                    cid = _cid(fi, "T7:assign", n, counter)
                    if tb == tv:
                        out.append(Instance("R-AXIS", cid, OK, f"{tb}-named `{n.targets[0].id}` assigned from a {tv} expression", fi.where(n)))
                    else:
                        out.append(Instance("R-AXIS", cid, BAD, f"`{short(n, 70)}`: `{n.targets[0].id}` is a {tb} name but the value is computed from {tv} quantities", fi.where(n)))
            # ---------------- T6: per-axis container indexed with the other axis' index
            if isinstance(n, ast.Subscript) and not isinstance(n.slice, (ast.Slice, ast.Tuple)) and const_num(n.slice) is None:
                tb = ty.tag(n.value) if not isinstance(n.value, ast.Name) or b.of(n.value.id) else None
                ti = ty.tag(n.slice)
                if tb and ti and ty.order(n.value) is None:
                    cid = _cid(fi, "T6:index", n, counter)
                    if tb == ti:
                        out.append(Instance("R-AXIS", cid, OK, f"{tb} container `{short(n.value, 30)}` indexed with a {ti} index", fi.where(n)))
                    else:
                        out.append(Instance("R-AXIS", cid, BAD, f"`{short(n, 60)}`: {tb} container indexed with the {ti} index", fi.where(n)))
            # ---------------- T2: unpacking
            tg = val = None
            if isinstance(n, ast.Assign) and len(n.targets) == 1:
                tg, val = n.targets[0], n.value
            elif isinstance(n, (ast.For, ast.comprehension)):
                tg, val = n.target, None  # iteration: handled through zip below
            if isinstance(tg, (ast.Tuple, ast.List)) and val is not None:
                names = [e.id if isinstance(e, ast.Name) else None for e in tg.elts]
                bel = [b.of(x) if x else None for x in names]
                o = ty.order(val)
                if len(tg.elts) >= 6 and not isinstance(val, (ast.Tuple, ast.List)) and _looks_affine(val, fi):
                    o6 = (X, None, X, None, Y, Y)
                    chk = [(names[i], bel[i], o6[i]) for i in range(6) if o6[i] and bel[i]]
                    if chk:
                        cid = _cid(fi, "T2:affine", n, counter)
                        badn = [f"{nm_}:{bl} in {w}-slot" for nm_, bl, w in chk if bl != w]
                        if badn:
                            out.append(Instance("R-AXIS", cid, BAD, f"`{short(n, 70)}`: Affine components are (a=x-scale, b, c=x-offset, d, e=y-scale, f=y-offset) but {badn}", fi.where(n)))
                        else:
                            out.append(Instance("R-AXIS", cid, OK, f"Affine unpack names match component axes ({[c[0] for c in chk]})", fi.where(n)))
                elif o is not None and len(o) == len(tg.elts):
                    chk2 = [(names[i], bel[i], o[i]) for i in range(len(o)) if bel[i]]
                    if chk2:
                        cid = _cid(fi, "T2:unpack", n, counter)
                        badn = [f"{nm_} (a {bl} name) receives the {w} component" for nm_, bl, w in chk2 if bl != w]
                        if badn:
                            out.append(Instance("R-AXIS", cid, BAD, f"`{short(n, 70)}`: right-hand side is in ({', '.join(o)}) order but {badn}", fi.where(n)))
                        else:
                            out.append(Instance("R-AXIS", cid, OK, f"unpack of ({', '.join(o)})-ordered value into {[c[0] for c in chk2]}", fi.where(n)))
                # T9: builtin min()/max() of a sequence of pairs is lexicographic, not per-axis
                if isinstance(val, ast.Call) and isinstance(val.func, ast.Name) and val.func.id in ("min", "max") and len(val.args) == 1 and not val.keywords and len(tg.elts) == 2:
                    bset = {x for x in bel if x}
                    if len(bset) == 2:
                        cid = _cid(fi, "T9:lexmin", n, counter)
                        out.append(Instance("R-AXIS", cid, BAD, f"`{short(n, 70)}`: builtin {val.func.id}() of a sequence of pairs compares them lexicographically, so `{names[1]}` is the second component of the pair with the extreme first component, not the extreme of its own axis (use a per-axis reduction)", fi.where(n)))
            # iteration over zip(...) with tuple target: each target name vs order position is not
            # meaningful; instead check zip argument orders (T3 above)
            # ---------------- T5 (i): X +/- Y
            if isinstance(n, ast.BinOp) and isinstance(n.op, (ast.Add, ast.Sub)):
                l, r = ty.tag(n.left), ty.tag(n.right)
                row = _affine_row(n, ty)
                if row is not None:
                    cid = _cid(fi, "T5:affine-row", n, counter)
                    okr, desc = row
                    out.append(Instance("R-AXIS", cid, OK if okr else BAD,
                                        f"row of a linear map: {desc}" if okr else f"`{short(n, 70)}`: {desc}", fi.where(n)))
                elif l and r:
                    cid = _cid(fi, "T5:addsub", n, counter)
                    if l == r:
                        out.append(Instance("R-AXIS", cid, OK, f"{l} {'+' if isinstance(n.op, ast.Add) else '-'} {r}", fi.where(n), nontrivial=True))
                    elif _mirror(n.left, n.right):
                        out.append(Instance("R-AXIS", cid, OK, "symmetric x/y average", fi.where(n), nontrivial=False))
                    else:
                        out.append(Instance("R-AXIS", cid, BAD, f"`{short(n, 70)}` adds/subtracts an {l} and a {r} quantity", fi.where(n)))
            # ---------------- T5 (iv): integer division / modulo across axes (an index computation, not a ratio)
            if isinstance(n, ast.BinOp) and isinstance(n.op, (ast.FloorDiv, ast.Mod)):
                l, r = ty.tag(n.left), ty.tag(n.right)
                if l and r:
                    cid = _cid(fi, "T5:floordiv", n, counter)
                    if l == r:
                        out.append(Instance("R-AXIS", cid, OK, f"{l} // {r}", fi.where(n)))
                    else:
                        out.append(Instance("R-AXIS", cid, BAD, f"`{short(n, 60)}` divides an {l} quantity by a {r} quantity: a tile/bin index computed with the other axis' size", fi.where(n)))
            # ---------------- T5 (ii): coordinate vs extent of the other axis
            if isinstance(n, ast.Compare) and len(n.ops) == 1 and isinstance(n.ops[0], (ast.Lt, ast.LtE, ast.Gt, ast.GtE)):
                l, r = n.left, n.comparators[0]
                if isinstance(l, ast.Name) and isinstance(r, ast.Name):
                    tl, tr = b.of(l.id), b.of(r.id)
                    if tl and tr:
                        ce = (COORD_NAMES.match(l.id) and EXTENT_NAMES.match(r.id)) or (EXTENT_NAMES.match(l.id) and COORD_NAMES.match(r.id))
                        if ce:
                            cid = _cid(fi, "T5:cmp", n, counter)
                            if tl == tr:
                                out.append(Instance("R-AXIS", cid, OK, f"`{short(n)}` compares a coordinate with the extent of its own axis", fi.where(n)))
                            else:
                                out.append(Instance("R-AXIS", cid, BAD, f"`{short(n)}` compares an {tl} coordinate with the {tr} extent", fi.where(n)))
    return out


def _affine_row(n: ast.BinOp, ty: "AxisTyper") -> Optional[Tuple[bool, str]]:
    """`M.a * x + M.b * y` (or `M.d * x + M.e * y`): one row of an affine's linear part applied to a vector.
    Mixing the axes is the point; what must hold is the pairing a,d <-> x and b,e <-> y."""
    if not isinstance(n.op, ast.Add):
        return None
    terms = []
    for t in (n.left, n.right):
        if not (isinstance(t, ast.BinOp) and isinstance(t.op, ast.Mult)):
            return None
        coef = next((x for x in (t.left, t.right) if isinstance(x, ast.Attribute) and x.attr in ("a", "b", "d", "e")), None)
        if coef is None:
            return None
        vec = t.right if coef is t.left else t.left
        terms.append((coef, vec))
    (c1, v1), (c2, v2) = terms
    if short(c1.value) != short(c2.value):
        return None
    pair = {c1.attr, c2.attr}
    if pair not in ({"a", "b"}, {"d", "e"}):
        return (False, f"coefficients .{c1.attr} and .{c2.attr} are not one row of the matrix (rows are a,b and d,e)")
    want = {"a": X, "d": X, "b": Y, "e": Y}
    bad = [(c.attr, ty.tag(v)) for c, v in terms if ty.tag(v) is not None and ty.tag(v) != want[c.attr]]
    if bad:
        return (False, f"matrix column mismatch: {['.%s multiplies a %s quantity' % b_ for b_ in bad]} (a,d multiply x; b,e multiply y)")
    return (True, f".{c1.attr}*{short(v1, 12)} + .{c2.attr}*{short(v2, 12)}")


def _looks_affine(val: ast.AST, fi: FuncInfo) -> bool:
    s = short(val)
    if "affine" in s.lower() or "transform" in s.lower():
        return True
    if isinstance(val, ast.Attribute) and val.attr in ("A", "A_", "ST", "_A"):
        return True
    if isinstance(val, ast.Name):
        if val.id in ("A", "A_", "ST", "_A"):
            return True
        for p in fi.params():
            if p.arg == val.id and p.annotation is not None and "Affine" in short(p.annotation):
                return True
    if isinstance(val, ast.UnaryOp) and isinstance(val.op, ast.Invert):
        return True
    if isinstance(val, ast.BinOp) and isinstance(val.op, ast.Mult):
        return _looks_affine(val.left, fi) or _looks_affine(val.right, fi)
    return False


def _mirror(a: ast.AST, b: ast.AST) -> bool:
    """b is a with x<->y renamed (the symmetric average abs(res.x/sx) + abs(res.y/sy))."""
    sa, sb = short(a), short(b)
    tr = sa.replace(".x", ".\0").replace(".y", ".x").replace(".\0", ".y")
    tr = re.sub(r"\b(\w*?)x(\w*)\b", lambda m: m.group(0), tr)

    def swap(s: str) -> str:
        out = []
        for tok in re.split(r"(\W+)", s):
            if re.match(r"^\w+$", tok):
                t = _swap_letter(tok)
                if tok in ("x", "y"):
                    t = "y" if tok == "x" else "x"
                out.append(t or tok)
            else:
                out.append(tok)
        return "".join(out)

    return swap(sa) == sb
