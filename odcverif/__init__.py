"""Static analysis of opendatacube/odc-geo against the properties in /verif/properties.jsonl.

Nothing in this package imports or executes odc-geo code.  Every run parses the source under
the repository root (default /repo, override with ODCVERIF_REPO) with ``ast``.
"""
