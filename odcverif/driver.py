"""Command line driver."""
from __future__ import annotations

import argparse
import json
import os
import sys
import time
from pathlib import Path



def run_property(pid: str, tier: str, seed: int) -> int:
    from . import props
    from .loader import AnalysisError, Program
    from .report import Run

    fn = getattr(props, pid, None)
    if fn is None:
        print(f"ANALYSIS-ERROR property={pid} no check registered")
        return 2
    run = Run(pid, tier, seed)
    try:
        prog = Program()
        run.extra_cov["units_parsed"] = len(prog.modules)
        run.extra_cov["functions_indexed"] = len(prog.functions)
        run.extra_cov["source_digest"] = prog.digest()
        fn(prog, run, tier)
        from .controls import run_controls

        ctl = run_controls(prog)
        run.extra_cov["positive_controls"] = ctl
        for c in ctl:
            if not c["fired"]:
                run.error(f"positive control for {c['rule']} did not fire on the injected construct {c['expected']} (matcher no longer recognises what it is meant to forbid)")
        run.rules_applied.append(
            "positive controls: the tree is re-loaded once with in-memory injections of a forbidden construct per zero-count rule "
            "(R-DUP, R-TRUTHY, R-PICKLE, R-MEMO, R-REMAINDER, R-TOL, R-PRECISION, R-SHAREDMUT, R-ITERTWICE, R-EPSGPROXY, R-ABSEPS); each rule must report the injected construct, otherwise the run fails as analysis-broken"
        )
        if tier == "thorough" and not os.environ.get("ODCVERIF_NO_SWEEP"):
            from .mutate import sensitivity_sweep

            sw = sensitivity_sweep(pid, list(run.instances), seed)
            run.extra_cov["sensitivity_sweep"] = sw
            run.extra_cov["variants_built"] = sw["variants_built"]
            run.extra_cov["variants_detected"] = sw["instances_with_detected_variant"]
            run.rules_applied.append(
                "sensitivity sweep: every accepted instance is broken in memory with generic AST operators (swap floor/ceil, min/max, "
                ".xy/.yx, axis-twin names, first two arguments, flip comparison, drop keyword/guard/statement, ...) and the property's "
                "rules are re-run; counts of instances whose breakage is reported are in coverage.sensitivity_sweep"
            )
            print(f"[{pid}] sensitivity sweep: {sw['instances_swept']} instances, {sw['variants_built']} variants, "
                  f"{sw['instances_with_detected_variant']} instances with a detected variant, {sw['instances_without_detected_variant']} without")
    except AnalysisError as e:
        run.error(str(e))
    except Exception as e:  # pylint: disable=broad-except
        import traceback

        traceback.print_exc()
        run.error(f"internal {type(e).__name__}: {e}")
    return run.finish()


def replay(path: str) -> int:
    from . import props
    from .loader import Program
    from .report import Run

    d = json.loads(Path(path).read_text())
    pid = d["property"]
    print(f"replay: property={pid} rule={d['rule']} construct={d['construct']}")
    print(f"  recorded at {d.get('where')}: {d.get('why')}")
    for p in d.get("path", []):
        print(f"    path: {p}")
    # re-run the property's rules and report the current verdict on that construct
    run = Run(pid, "quick", 0)
    prog = Program()
    getattr(props, pid)(prog, run, "quick")
    cur = [i for i in run.instances if i.rule == d["rule"] and i.construct == d["construct"]]
    if not cur:
        print("  now: construct no longer reported by the rule")
        return 0
    for i in cur:
        print(f"  now: {i.status}: {i.why} [{i.where}]")
    return 1 if any(i.status == "bad" for i in cur) else 0


def main(argv) -> int:
    ap = argparse.ArgumentParser(prog="vcheck")
    ap.add_argument("prop", nargs="?")
    ap.add_argument("--tier", default=os.environ.get("VERIF_TIER", "quick"), choices=["quick", "thorough"])
    ap.add_argument("--replay")
    ap.add_argument("--selftest", action="store_true")
    ap.add_argument("--all", action="store_true")
    ap.add_argument("--repo")
    a = ap.parse_args(argv)
    if a.repo:
        os.environ["ODCVERIF_REPO"] = a.repo
    if os.environ.get("ODCVERIF_REPO", "/repo").rstrip("/") != "/repo" and not os.environ.get("ODCVERIF_EVIDENCE_DIR"):
        # scratch trees never overwrite the evidence of /repo
        os.environ["ODCVERIF_EVIDENCE_DIR"] = f"/tmp/odcverif-evidence-{os.getpid()}"
    from . import props

    seed = int(os.environ.get("VERIF_SEED", "0") or 0)
    if a.replay:
        return replay(a.replay)
    if a.selftest:
        from . import selftest

        return selftest.main(a.tier)
    if a.all:
        rc = 0
        for pid in props.ALL:
            rc = max(rc, run_property(pid, a.tier, seed))
        return rc
    if not a.prop:
        ap.print_usage()
        return 2
    return run_property(a.prop, a.tier, seed)
