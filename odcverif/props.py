"""Which rules make up which property (DESIGN.md section 4)."""
from __future__ import annotations

from .loader import AnalysisError, Program
from .report import Run
from .rules import api, cog, crsguard, generic2, valueobj

ALL = [f"C{n:02d}" for n in range(1, 21)]


def _isolate_rules() -> None:
    """Every rule entry point (`def rule(prog, ...) -> List[Instance]`) is isolated: a vanished anchor function (AnalysisError)
    makes that rule undecided on this tree - one UNDET instance - instead of aborting the property's other rules."""
    import functools
    import importlib
    import inspect
    import pkgutil

    from . import rules as _rules
    from .report import UNDET, Instance

    for m in pkgutil.iter_modules(_rules.__path__):
        mod = importlib.import_module(f"{_rules.__name__}.{m.name}")
        for name, fn in list(vars(mod).items()):
            if not inspect.isfunction(fn) or fn.__module__ != mod.__name__ or getattr(fn, "_isolated", False):
                continue
            try:
                sig = inspect.signature(fn)
            except (TypeError, ValueError):
                continue
            params = list(sig.parameters)
            ra = fn.__annotations__.get("return")
            if not params or params[0] != "prog" or "List[Instance]" not in str(ra):
                continue

            def wrapper(*a, __fn=fn, __name=f"{m.name}.{name}", **k):
                try:
                    return __fn(*a, **k)
                except AnalysisError as e:
                    return [Instance("R-ANCHOR", f"{__name}#anchor", UNDET, f"{e}", "")]
                except Exception as e:  # pylint: disable=broad-except
                    # the rule met a shape of code it was not written for (a signature it indexes into changed, ...): it decides
                    # nothing on this tree; the other rules stand.  On the unchanged tree this shows as `undecided=1` at once.
                    import traceback

                    tb = traceback.extract_tb(e.__traceback__)[-1]
                    return [Instance("R-ANCHOR", f"{__name}#crash", UNDET, f"rule stopped with {type(e).__name__}: {e} at {tb.filename.split('/')[-1]}:{tb.lineno}", "")]

            functools.update_wrapper(wrapper, fn)
            wrapper._isolated = True  # type: ignore[attr-defined]
            setattr(mod, name, wrapper)


_isolate_rules()


def C01(prog: Program, run: Run, tier: str) -> None:
    mods = None if tier == "thorough" else {"geom", "geobox", "gcp", "gridspec", "overlap", "_xr_interop", "converters", "crs"}
    run.add(
        crsguard.rule_crsguard(prog, modules=mods, must_guard=crsguard.C01_MUST_GUARD),
        "R-CRSGUARD every combining operation reaches each normal exit only through a CRS-equality path "
        "condition, a guarding callee or a re-projection; mismatch branches raise a ValueError subclass",
    )
    run.add(crsguard.rule_wrapname(prog), "R-WRAPNAME decorated shapely delegates call their own name with their own arguments")
    run.add(
        crsguard.rule_retag(prog, {"geom", "geobox", "gcp", "overlap", "gridspec"}),
        "R-RETAG constructed Geometry/BoundingBox/GeoBox results carry a CRS originating from an operand",
    )
    run.add([i for i in valueobj.rule_cache(prog) if "KEYCRS" in i.construct or "KEYCOMPLETE" in i.construct], "R-CACHE memoised functions over CRS-tagged operands key on their CRS")
    run.floor("R-CRSGUARD|", 40)
    run.floor("R-WRAPNAME|", 16)
    run.floor("R-RETAG|", 40)
    run.notes.append("R-CRSGUARD table: " + "; ".join(f"{k}: {v}" for k, v in sorted(crsguard.TABLE.items())))


PICKLE_MODULES = {"crs", "geom", "geobox", "roi", "types", "gridspec", "gcp", "math"}


def C19(prog: Program, run: Run, tier: str) -> None:
    classes = None if tier == "thorough" else valueobj.VALUE_CLASSES
    run.add(
        valueobj.rule_valueobj(prog, classes),
        "R-VALUEOBJ per value class: EQHASH hash fields are implied equal on every True path of __eq__ (modulo "
        "functional dependencies derived from __init__); EQTOKEN every field __eq__ needs feeds __dask_tokenize__; "
        "TOKENPURE no id()/uuid/random/time in tokens; EQIDENT no field compared by identity; PICKLEKEYS "
        "__getstate__ keys = keys consumed by __setstate__/__init__ and cover __eq__ fields; EQCOMPLETE every "
        "non-cache state field is compared or determined",
    )
    run.add(
        valueobj.rule_cache(prog),
        "R-CACHE KEYCOMPLETE key function reads every parameter; KEYCANON every key is a canonical primitive; IDPIN "
        "objects whose id() is a cache key are pinned by a plain never-cleared dict cache; ORDER source/target "
        "pass-through transformer_to_crs -> _make_crs_transform -> Transformer.from_crs",
    )
    run.add(
        valueobj.rule_pickle_state(prog, None if tier == "thorough" else PICKLE_MODULES),
        "R-PICKLE CLOSURE-STATE no class pickled by the default protocol stores a lambda / method-local function in "
        "an instance attribute; GEOJSON-VARIANTS every GeoJSON reader on the path Geometry.__setstate__ -> __init__ "
        "that requires `coordinates` also handles `geometries` (GeometryCollection)",
    )
    run.floor("R-VALUEOBJ|", 45)
    run.floor("R-CACHE|", 18)
    run.floor("R-PICKLE|", 10)


def C06(prog: Program, run: Run, tier: str) -> None:
    run.add(
        cog.rule_mpu(prog),
        "R-MPU ORDER every concatenation / constructor slot / insert in merge, flush_rhs, flush and the finaliser respects "
        "stream position (left_data < parts < data, lhs < rhs, header left); PAIRING each write with self.nextPartId "
        "consumes one id and one credit and records its receipt, append logs what it stores; RESERVE a spill never takes "
        "the last credit (linear bound on the early-return test over the value set of the reserve); MINSIZE every "
        "non-final write is behind a comparison with min_write_sz (maybe_write guard, can_flush returns, _flush_data only "
        "behind can_flush); STRIDE part-id stride equals credits per chunk, first id min_part+1, sub-stream advance",
    )
    run.add(round3.mark_final_last_only(prog) + round3.partial_forwards_writer(prog), "R-MPU mark_final only for the last sub-stream; R-FORWARD partial() operators carry the writer")
    run.floor("R-MPU|", 34)


def C18(prog: Program, run: Run, tier: str) -> None:
    run.add(
        cog.rule_lock(prog),
        "R-LOCK CALLUNDERLOCK upload initiation only inside a lock region; DCL state predicate re-evaluated inside the "
        "region and the initiation control-dependent on not-started; PUBLISH new id set on the shared variable before "
        "release; ENSURE every write_part/finalise receiver comes from _ensure_init() on every path; LOCKSINGLETON/LOCKKEY "
        "the local lock provider always returns the registered lock",
    )
    run.add(
        cog.rule_accessor(prog),
        "R-ACCESSOR limit properties read their own configuration key; constant-folded default max > min",
    )
    run.add(cog.rule_filesink(prog), "R-MPU SINK file sink appends to the destination only after the first part replaced it, walks the remaining parts in the given order and unlinks them; receipts name part number and path")
    run.floor("R-LOCK|", 8)
    run.add(round3.sink_writes_always(prog), "R-MPU SINK the part is written on every path before its receipt is returned")
    run.floor("R-ACCESSOR|", 10)


# ---------------------------------------------------------------------------------------------
from .rules import axis, extra, findings, forward, generic, generic3, guards, round3, round4, round5, round6, rounding, specific  # noqa: E402

AXIS_DESC = (
    "R-AXIS x/y axis-tag consistency: T1 tagged value in a slot of the opposite axis (Affine, xy_/yx_, BoundingBox, "
    "shape_, GeoBox, np.s_[rows, cols] ...), T2 unpack of a known-order tuple into names of the opposite belief, "
    "T3 zip of different orders, T4 per-axis helper with arguments of both axes, T5 X+-Y / cross-axis compare / min-max"
)
ROUND_DESC = (
    "R-ROUND rounding roles: LOWER (slice/range start, BoundingBox arg 0-1, interval-start locals) rounds down, "
    "UPPER/COUNT (stops, BoundingBox arg 2-3, shapes, tile counts) rounds up; clamps start through max(0,.) and "
    "stop through min(N,.); at least one pixel"
)
FWD_DESC = "R-FORWARD every parameter is read; no keyword cross-wiring between parameters; options shared by caller and callee are passed on"


def _only(insts, *prefixes):
    return [i for i in insts if any(i.construct.startswith(p) for p in prefixes)]


def _fwd(prog, mods):
    return forward.rule_unused(prog, mods) + forward.rule_crosswire(prog, mods) + forward.rule_forward(prog, mods)


def C02(prog: Program, run: Run, tier: str) -> None:
    mods = {"geobox", "geom", "gcp", "math", "types"}
    run.add(axis.rule_axis(prog, mods if tier == "quick" else mods | {"overlap", "roi", "gridspec", "_xr_interop", "warp", "ui"}), AXIS_DESC)
    run.add(specific.rule_corners(prog), "R-CORNERS footprint polygon and bounding box push the same four pixel corners through the transform; box = min/max over them")
    run.add(extra.gcp_frames(prog), "R-FRAME GCPGeoBox applies the view affine in the right direction at every conversion between the control-point frame and the view frame (wld2pix, pix2wld, to_crs, gcps, approx)")
    run.add(extra.negative_index(prog, {"geobox", "gcp", "roi"}), "R-NEGIDX an integer index becomes slice(i, i+1) only after negative values were adjusted or rejected")
    run.add(specific.rule_immut(prog), "R-IMMUT _shape/_affine/_crs assigned only in GeoBoxBase.__init__, _extent only in extent")
    run.add(_only(crsguard.rule_retag(prog, {"geobox", "gcp"}), "geobox:", "gcp:"), "R-RETAG every view returns the receiver's CRS")
    run.add(_only(rounding.rule_round(prog, {"geobox", "gcp", "geom"}), "geobox:GeoBoxBase.compute", "geobox:GeoBox.", "geobox:scaled_down", "geobox:_round", "gcp:", "geom:BoundingBox.round"), ROUND_DESC)
    run.add(_only(rounding.rule_clamps(prog), "geobox:GeoBoxBase.compute_zoom_out"), None)
    run.add(_fwd(prog, {"geobox", "gcp"}), FWD_DESC)
    run.add(extra.base_world_affine_use(prog), "R-SIBLING every use of self._affine as a pixel->world mapping in the shared base class is overridden in the non-linear subclass or guarded by self.linear")
    run.add(extra.gcp_view_state(prog), "R-SIBLING every GCPGeoBox member whose GeoBox sibling is computed from the affine reads the view affine too")
    run.floor("R-AXIS|", 150)
    run.add(round3.rotate_in_world(prog), "R-FRAME rotate composes the rotation on the world side about the mapped centre")
    run.floor("R-CORNERS|", 7)


def C03(prog: Program, run: Run, tier: str) -> None:
    mods = {"overlap", "roi", "math"}
    run.add(_only(rounding.rule_round(prog, mods), "overlap:", "roi:roi_from_points", "roi:scaled", "math:align"), ROUND_DESC)
    run.add(_only(rounding.rule_clamps(prog), "roi:scaled_up_roi"), None)
    run.add(axis.rule_axis(prog, {"overlap", "roi"}), AXIS_DESC)
    run.add(_only(specific.rule_cast(prog, {"roi", "overlap"}), "roi:roi_from_points", "overlap:"), "R-CAST no unbounded float -> fixed-width int cast")
    run.add(guards.finite_filter(prog), "R-GUARDSEQ finite filter and empty case precede the envelope; result clipped per axis")
    run.add(_only(guards.paste_eligibility(prog), "overlap:compute_reproject_roi", "overlap:_can_paste"), "R-GUARDSEQ one read_shrink feeds zoom, affine and scale-up; paste verdict wiring; _can_paste tolerances in their own slots")
    run.add(extra.shrink_side_agreement(prog), "R-SIBLING read-shrink rescaling composed on the side _can_paste validates")
    run.add(_fwd(prog, {"overlap"}), FWD_DESC)
    run.add(extra.point_transform(prog) + extra.relative_rois(prog) + extra.reproject_info_fields(prog),
            "R-GUARDSEQ point transform goes src.pix2wld -> (clamp) -> transformer(src->dst) -> dst.wld2pix, back swaps; envelopes mapped in the right "
            "direction and clipped to the right shape; empty source => empty destination; scale = min(scale2); read_shrink from scale")
    run.add(generic.rule_kind(prog, {"roi"}), "R-KIND functions named for a mid-point return half the sum of the two ends, functions named for a span/shape return their difference")
    run.floor("R-ROUND|", 10)
    run.add(findings.boundary_sampling(prog), "R-GUARDSEQ absence-of-guard clause behind a recorded finding (see known_findings.json)")
    run.add(round3.pad_before_align(prog), "R-ORDER padding precedes alignment")
    run.add(round3.overlap_keeps_sign(prog), "R-SIGNROLE box_overlap passes the signed scale components")
    run.floor("R-AXIS|", 30)


def C04(prog: Program, run: Run, tier: str) -> None:
    run.add(api.rule_api(prog, {"_blocks", "roi", "geobox"} if tier == "quick" else None), "R-API every third-party reference resolves in the installed environment")
    run.add(_only(rounding.rule_round(prog, {"roi", "cog._shared"}), "roi:Tiles", "roi:Variable", "roi:scaled", "cog._shared:CogMeta.chunked"), ROUND_DESC)
    run.add(_only(rounding.rule_clamps(prog), "roi:Tiles"), None)
    run.add(axis.rule_axis(prog, {"roi", "_blocks"}), AXIS_DESC)
    run.add(_only(specific.rule_exhaust(prog), "roi:"), "R-EXHAUST both tilings implement every RoiTiles member")
    run.add(_only(specific.rule_cast(prog, {"roi", "_blocks"}), "roi:Var", "_blocks"), "R-CAST")
    run.add(_fwd(prog, {"roi", "_blocks"}), FWD_DESC)
    run.add(extra.tiles_geobox_consistency(prog) + extra.locate_siblings(prog),
            "R-GUARDSEQ a tile's geobox is the base cropped to the tiling's region of the same index, derived GeoboxTiles crop geobox and tiling by the same region; R-SIBLING both locate() reject the same out-of-range pixels")
    run.add(extra.block_assembler(prog), "R-GUARDSEQ BlockAssembler indexes the request-relative window with full slices on non-spatial axes; reads each block through its own part of the 3-way intersection and writes through the window's part into a fill-initialised window")
    run.floor("R-API|", 20)
    run.add(round3.variable_locate_searches(prog), "R-GUARDSEQ variable tiling locates by searching its offsets")
    run.add(round3.constructor_only_state(prog), "R-IMMUT tilings are built through __init__ only (no __new__ bypass, no slot stores elsewhere)")
    run.floor("R-AXIS|", 25)


def C05(prog: Program, run: Run, tier: str) -> None:
    run.add(api.rule_api(prog, {"cog._tifffile", "cog._mpu", "cog._mpu_fs", "cog._shared", "cog._s3"} if tier == "quick" else None), "R-API the writer's imports and attribute references resolve in the installed dask/tifffile/numpy")
    run.add(cog.rule_flow16(prog), "R-FLOW16 tile sizes originate from adjust_blocksize/norm_blocksize whose returns are align_up(.,16); both axes padded with the shared level count")
    run.add(cog.rule_rechunk(prog), "R-GUARDSEQ source rechunked to the layout's chunking unless its whole chunk shape already equals it")
    run.add(cog.rule_cog_levels(prog), "R-GUARDSEQ next-level shape/geobox prepared only while a next level exists; RGB(A) shape heuristic only where the GeoBox cannot tell")
    run.add(cog.rule_tiles_within_source(prog), "R-GUARDSEQ every source block named from a layout tile index is bounded by the source's chunk grid (the layout is padded, the source is not)")
    run.add(cog.rule_order(prog), "R-ORDER the bag list handed to the multi-part writer is the reversed level list (overviews first)")
    run.add([i for i in cog.rule_mpu(prog) if "STRIDE" in i.construct], "R-MPU STRIDE part-id ranges of chunks and sub-streams neither overlap nor leave gaps")
    run.add(cog.rule_swallow(prog), "R-SWALLOW (informational) encoder errors returned as empty tiles")
    run.add(_only(specific.rule_exhaust(prog), "cog."), "R-EXHAUST axis-order dispatch total over YX/YXS/SYX")
    run.add(axis.rule_axis(prog, {"cog._shared", "cog._tifffile"}), AXIS_DESC)
    run.add(_only(rounding.rule_round(prog, {"cog._shared", "types"}), "cog._shared", "types:Shape2d"), ROUND_DESC)
    run.add(_fwd(prog, {"cog._tifffile", "cog._shared"}), FWD_DESC)
    run.floor("R-API|", 30)
    run.add(round3.predictor_axis_agreement(prog) + round3.partial_forwards_writer(prog), "R-SIBLING both tile compressors difference along the same axis; partial() operators carry the writer")
    run.floor("R-FLOW16|", 7)


def C07(prog: Program, run: Run, tier: str) -> None:
    run.add(specific.rule_displ(prog), "R-DISPL the edge-length test is a translation-invariant (squared) length over both axes compared with the (squared) resolution; vertices retained; holes densified; all geometry kinds dispatched")
    run.add(guards.to_crs_preconditions(prog), "R-GUARDSEQ same CRS returns the receiver, CRS-less raises ValueError, both before any transform; the densified geometry is what gets projected")
    run.add([i for i in valueobj.rule_cache(prog) if "KEYCANON" not in i.construct], "R-CACHE source/target pass-through, transformer cache key completeness, id()-keyed transformer cache pinned by a plain never-cleared CRS cache")
    run.add(_only(crsguard.rule_retag(prog, {"geom"}), "geom:Geometry.to_crs", "geom:Geometry._to_crs", "geom:Geometry.segmented", "geom:Geometry.transform"), "R-RETAG result tagged with the target CRS")
    run.add(_fwd(prog, {"geom"}), FWD_DESC)
    run.floor("R-DISPL|", 4)
    run.add(round3.to_crs_returns_self(prog), "R-GUARDSEQ to_crs returns the receiver only under self.crs == crs")
    run.floor("R-GUARDSEQ|", 6)


def C08(prog: Program, run: Run, tier: str) -> None:
    run.add(_only(rounding.rule_round(prog, {"math"}), "math:_snap", "math:snap_grid"), ROUND_DESC)
    run.add(_only(rounding.rule_clamps(prog), "math:"), None)
    run.add(specific.rule_signrole(prog) + extra.from_bbox_origin(prog), "R-SIGNROLE edge chosen by the sign of the same-axis resolution; anchor offset removed before and restored after snapping; resolution-driven grids take their origin from snap_grid on every path")
    run.add(_only(axis.rule_axis(prog, {"geobox", "math"}), "geobox:GeoBox.from_bbox", "geobox:GeoBox.from_geopolygon", "math:snap", "math:_snap", "geobox:_norm_anchor"), AXIS_DESC)
    run.add(extra.polygon_bbox_last(prog), "R-GUARDSEQ from_geopolygon takes the bounding box of the re-projected polygon")
    run.add(findings.region_densification(prog), "R-GUARDSEQ absence-of-guard clause behind a recorded finding (see known_findings.json)")
    run.add(_only(specific.rule_exhaust(prog), "geobox:"), "R-EXHAUST anchor literals total, EDGE->0, CENTER->0.5, tight->floating")
    run.add(_only(_fwd(prog, {"geobox", "overlap"}), "geobox:GeoBox.from_", "geobox:GeoBox.to_crs", "geobox:GeoBox.zoom_to", "geobox:GeoBoxBase.compute_zoom_to", "overlap:compute_output_geobox", "geobox:zoom_to"), FWD_DESC)
    run.floor("R-SIGNROLE|", 8)
    run.floor("R-AXIS|", 20)


def C09(prog: Program, run: Run, tier: str) -> None:
    run.add(specific.rule_keys(prog), "R-KEYS writer/reader attribute and encoding key tables agree; SPATIAL_ATTRIBUTES covers reader keys; GDAL GeoTransform order; col/row pairing")
    run.add(specific.rule_sibling(prog), "R-SIBLING DataArray and Dataset reprojection both register the destination at their own level (coords from xr_coords(dst), attrs pruned, stale CRS coordinate dropped)")
    run.add(extra.gcp_frames(prog), "R-FRAME GCP control points are converted between the control-point frame and the view frame in the right direction (gcps written to spatial_ref)")
    run.add(forward.rule_option_keys(prog), "R-FORWARD geobox options packed/extracted/accepted under the same names; kw split between geobox and warp options")
    run.add(axis.rule_axis(prog, {"_xr_interop"}), AXIS_DESC)
    run.add(_fwd(prog, {"_xr_interop"}), FWD_DESC)
    # the accessor's cached geobox travels through pickle with the array: the geobox classes must survive it
    run.add([i for i in valueobj.rule_valueobj(prog, ["geobox:GeoBox", "gcp:GCPGeoBox", "gcp:GCPMapping"]) if any(k in i.construct for k in ("PICKLEKEYS", "REDUCEARGS", "EQIDENT"))]
            + _only(valueobj.rule_pickle_state(prog, {"geobox", "gcp", "math"}), "geobox:", "gcp:", "math:Poly2d"),
            "R-VALUEOBJ/R-PICKLE a GeoBox / GCPGeoBox cached by the accessor survives pickling: custom pickle hooks pass every constructor parameter that feeds __eq__, no closures in state, no identity comparison")
    run.floor("R-KEYS|", 25)
    run.add(round3.ds_passes_destination(prog), "R-SIBLING every variable is reprojected onto the destination geobox computed for the dataset")
    run.floor("R-SIBLING|", 9)


def C10(prog: Program, run: Run, tier: str) -> None:
    run.add(guards.paste_eligibility(prog), "R-GUARDSEQ paste reported only behind all four eligibility guards, only on the same-CRS branch, with ttol/stol wired straight; one read_shrink")
    run.add(extra.shrink_side_agreement(prog), "R-SIBLING the read-shrink rescaling is composed on the same side of the dst->src transform where _can_paste validates it and where compute_reproject_roi uses it")
    run.add(guards.snap_affine_guards(prog), "R-GUARDSEQ snap_affine passes rotated input through and writes components back to their slots with the right tolerances")
    run.add(_only(rounding.rule_round(prog, {"math", "overlap"}), "math:snap_affine", "math:maybe_int", "math:snap_scale", "overlap:_pick", "overlap:compute_axis"), ROUND_DESC)
    run.add(extra.warp_detour(prog), "R-EXHAUST pixels warped into a converted array are copied back; source/destination CRS and transform come from their own geobox")
    run.add(_only(axis.rule_axis(prog, {"overlap"}), "overlap:box_overlap", "overlap:compute_axis_overlap", "overlap:_can_paste"), AXIS_DESC)
    run.add(findings.paste_shape_aware(prog) + findings.gdal_identity_transform(prog), "R-GUARDSEQ absence-of-guard clause behind a recorded finding (see known_findings.json)")
    run.add(round3.overlap_keeps_sign(prog), "R-SIGNROLE box_overlap passes the signed scale components")
    run.add(round3.sign_preserving_returns(prog), "R-SIGNROLE snapping helpers keep the sign")
    run.add(_only(_fwd(prog, {"overlap"}), "overlap:compute_reproject_roi", "overlap:_can_paste", "overlap:box_overlap"), FWD_DESC)
    run.floor("R-GUARDSEQ|", 12)


def C11(prog: Program, run: Run, tier: str) -> None:
    run.add(guards.identity_shortcircuit(prog), "R-GUARDSEQ `return gbox` only under all five conditions; output box from the buffered footprint in the requested CRS")
    run.add(_only(_fwd(prog, {"overlap", "geobox"}), "overlap:compute_output_geobox", "geobox:GeoBox.to_crs", "geobox:GeoBoxBase.footprint"), FWD_DESC)
    run.add(_only(axis.rule_axis(prog, {"overlap", "crs", "geobox"}), "overlap:compute_output_geobox", "overlap:get_scale", "crs:", "geobox:GeoBox.from_bbox", "geobox:GeoBoxBase.footprint"), AXIS_DESC)
    run.add([i for i in valueobj.rule_cache(prog) if "KEYCANON" not in i.construct], "R-CACHE the transformer cache key is complete (from, to, always_xy) and its id() keys are pinned")
    run.add(round3.shape_beats_resolution(prog), "R-GUARDSEQ a numeric resolution is used only when no shape was given")
    run.add(findings.footprint_sampling(prog), "R-GUARDSEQ absence-of-guard clause behind a recorded finding (see known_findings.json)")
    run.floor("R-GUARDSEQ|", 6)


def C12(prog: Program, run: Run, tier: str) -> None:
    run.add(specific.rule_empty(prog), "R-EMPTY a possibly-empty footprint intersection is tested before its bounds are used")
    run.add(_only(rounding.rule_clamps(prog), "geobox:GeoboxTiles"), ROUND_DESC)
    run.add(_only(rounding.rule_round(prog, {"geobox", "geom", "roi"}), "geobox:GeoboxTiles", "geom:BoundingBox.round", "roi:Tiles.locate"), None)
    run.add(_only(axis.rule_axis(prog, {"geobox", "roi"}), "geobox:GeoboxTiles", "roi:Tiles.locate", "roi:VariableSizedTiles.locate"), AXIS_DESC)
    run.add(extra.tile_query(prog), "R-GUARDSEQ geometry queries filter with the extent of the tile at the same index; linear path maps each tile's own box through A, rounds outwards and stores under the same index; general path queries with the tile's own extent")
    run.add(_only(guards.identity_shortcircuit(prog), "geobox:GeoBoxBase.footprint"), "R-GUARDSEQ the footprint used by the general path is densified by the projection call on every branch")
    run.floor("R-EMPTY|", 1)
    run.add(findings.lonlat_footprint_validity(prog), "R-GUARDSEQ absence-of-guard clause behind a recorded finding (see known_findings.json)")
    run.add(round3.pix_bbox_half_open(prog) + round3.tiles_yield_under_test(prog), "R-ROUND tile box is the half-open slice extent; R-GUARDSEQ geometry query yields only after the footprint test")
    run.floor("R-AXIS|", 12)


def C13(prog: Program, run: Run, tier: str) -> None:
    run.add(specific.rule_fill(prog), "R-FILL one fill resolver for uncovered chunks, covered chunks and the in-memory path; precedence dst_nodata > src_nodata > NaN(float) > 0; missing dependency => constant fill block")
    run.add(api.rule_api(prog, {"_dask", "_blocks", "warp"} if tier == "quick" else None), "R-API code path exists in the installed numpy/dask/rasterio")
    run.add(specific.rule_empty(prog), "R-EMPTY disjoint rasters cannot raise from an empty footprint")
    run.add(valueobj.rule_taskname(prog, {"_dask"}), "R-CACHE NAMECOMPLETE the layer name of a hand-built array graph is unique or a token of every parameter that reaches the task definitions")
    run.add(_only(rounding.rule_round(prog, {"geobox"}), "geobox:GeoboxTiles") + _only(rounding.rule_clamps(prog), "geobox:GeoboxTiles"), ROUND_DESC)
    run.add([i for i in extra.tile_query(prog) if "grid_intersect" in i.construct or "_check_linear" in i.construct],
            "R-GUARDSEQ the chunk dependency graph: linear path maps each tile's own box through A and rounds outwards, general path queries with the tile's own extent")
    run.add(_fwd(prog, {"_dask", "warp"}), FWD_DESC)
    run.add(_only(extra.explicit_beats_attribute(prog), "_xr_interop"), "R-GUARDSEQ an explicitly passed src_nodata beats the array attribute")
    run.add(axis.rule_axis(prog, {"_dask", "warp", "_blocks"}), AXIS_DESC)
    run.floor("R-FILL|", 12)
    run.add(findings.lonlat_footprint_validity(prog), "R-GUARDSEQ absence-of-guard clause behind a recorded finding (see known_findings.json)")
    run.add(round3.pix_bbox_half_open(prog), "R-ROUND tile box is the half-open slice extent")
    run.add(round3.variable_locate_searches(prog), "R-GUARDSEQ variable tiling locates by searching its offsets")
    run.add(extra.gcp_frames(prog), "R-FRAME the chunked path crops a GCP source per destination chunk: the GCPs handed to the warp are converted from the control-point frame to the crop's frame in the right direction")
    run.floor("R-API|", 15)


def C14(prog: Program, run: Run, tier: str) -> None:
    run.add(axis.rule_axis(prog, {"gridspec"}), AXIS_DESC)
    run.add(_only(specific.rule_signrole(prog), "gridspec:"), "R-SIGNROLE tile origin chosen by the sign of the same-axis resolution; bins indexed with their own axis index")
    run.add(_only(rounding.rule_round(prog, {"math"}), "math:Bin1D"), ROUND_DESC)
    run.add([i for i in valueobj.rule_valueobj(prog, ["math:Bin1D", "gridspec:GridSpec"]) if "EQCOMPLETE" in i.construct or "EQIDENT" in i.construct], "R-VALUEOBJ Bin1D equality complete over its slots")
    run.add(_only(crsguard.rule_crsguard(prog, {"gridspec"}), "gridspec:"), "R-CRSGUARD polygon query reconciles the CRS first")
    run.add(_fwd(prog, {"gridspec"}), FWD_DESC)
    run.add(extra.gridspec_polygon_filter(prog), "R-GUARDSEQ a tile is yielded for a polygon query only under the not-disjoint test against that tile's extent")
    run.add(round3.idx_bounds_absolute_tol(prog), "R-GUARDSEQ bounding-box query shrinks by an absolute constant")
    run.floor("R-AXIS|", 20)


def C15(prog: Program, run: Run, tier: str) -> None:
    run.add(guards.overwrite_guard(prog), "R-GUARDSEQ destination removed only under overwrite, existing file without overwrite raises, file sinks only through the checked path")
    run.add(_only(cog.rule_flow16(prog), "cog._shared:adjust", "cog._rio"), "R-FLOW16 GDAL block sizes come from adjust_blocksize(blocksize, nx|ny)")
    run.add(_fwd(prog, {"cog._rio"}), FWD_DESC)
    run.add(_only(extra.explicit_beats_attribute(prog), "cog._rio"), "R-GUARDSEQ an explicitly passed nodata beats the array attribute")
    run.add(axis.rule_axis(prog, {"cog._rio"}), AXIS_DESC)
    run.add(api.rule_api(prog, {"cog._rio"}), "R-API")
    run.add(cog.rule_rio_layout(prog), "R-AXIS band-last input permuted exactly (Y,X,B)->(B,Y,X); R-GUARDSEQ one side-car memory file per layer (zip cannot truncate)")
    run.add(findings.int64_nodata(prog), "R-GUARDSEQ absence-of-guard clause behind a recorded finding (see known_findings.json)")
    run.add(round3.ovr_sidecar_readdir(prog), "R-GUARDSEQ the Env around the overview copy switches directory listing on")
    run.floor("R-GUARDSEQ|", 5)


def C16(prog: Program, run: Run, tier: str) -> None:
    run.add(guards.grid_compat(prog), "R-GUARDSEQ incompatible grids always rejected: four isclose guards by Affine slot, near-integer guard before round, ValueError, direction ~b*a")
    run.add(_only(crsguard.rule_crsguard(prog, {"geobox", "geom"}, crsguard.C01_MUST_GUARD), "geobox:pixel_translation", "geobox:bounding_box", "geobox:geobox_", "geobox:GeoBox.__", "geobox:GeoBox.overlap", "geobox:GeoBox.snap", "geom:bbox_", "geom:BoundingBox.__"), "R-CRSGUARD")
    run.add(specific.rule_lattice(prog), "R-LATTICE min/max roles of union and intersection per component; empty-intersection normalisation; result origin and shape")
    run.add(_only(rounding.rule_clamps(prog), "geobox:GeoBox.overlap_roi"), ROUND_DESC)
    run.add(_only(rounding.rule_round(prog, {"geom"}), "geom:BoundingBox.round"), None)
    run.add(_only(axis.rule_axis(prog, {"geobox", "geom", "math"}), "geobox:GeoBox.overlap_roi", "geobox:GeoBox.enclosing", "geobox:GeoBox.snap_to", "geobox:bounding_box", "geobox:pixel_tr", "geobox:geobox_", "geom:bbox_", "geom:BoundingBox", "math:split_translation"), AXIS_DESC)
    run.add(_only(crsguard.rule_retag(prog, {"geobox", "geom"}), "geobox:geobox_", "geobox:GeoBox.enclosing", "geom:bbox_"), "R-RETAG")
    run.add(extra.enclosing_projection(prog), "R-GUARDSEQ enclosing derives its pixel box from the projected region, rounded outwards, on every path")
    run.add(generic.rule_kind(prog, {"geom"}), "R-KIND functions named for a mid-point return half the sum of the two ends, functions named for a span/shape return their difference")
    run.floor("R-LATTICE|", 14)
    run.add(findings.scale_guard_tolerance(prog), "R-GUARDSEQ absence-of-guard clause behind a recorded finding (see known_findings.json)")
    run.floor("R-GUARDSEQ|", 6)


def C17(prog: Program, run: Run, tier: str) -> None:
    run.add(_only(specific.rule_cast(prog, {"roi"}), "roi:"), "R-CAST no unbounded float -> int32 cast in the point envelope")
    run.add(guards.finite_filter(prog), "R-GUARDSEQ finite filter (both coordinates) and empty case first; clip per axis")
    run.add(_only(rounding.rule_round(prog, {"roi", "math"}), "roi:scaled", "roi:roi_from_points", "math:align"), ROUND_DESC)
    run.add(_only(rounding.rule_clamps(prog), "roi:roi_pad", "roi:scaled_up"), None)
    run.add(_only(axis.rule_axis(prog, {"roi"}), "roi:roi_", "roi:polygon_path", "roi:scaled", "roi:WindowFromSlice"), AXIS_DESC)
    run.add(_only(_fwd(prog, {"roi"}), "roi:roi_", "roi:scaled", "roi:slice", "roi:_norm", "roi:_fill"), FWD_DESC)
    run.add(extra.negative_index(prog, {"roi"}), "R-NEGIDX integer index -> slice(i, i+1) only after negative values were adjusted or rejected")
    run.add(extra.intersect_siblings(prog), "R-SIBLING slice_intersect3 and roi_intersect agree on start/stop roles (max/min) and on the disjoint tests")
    run.add(generic.rule_kind(prog, {"roi"}), "R-KIND functions named for a mid-point return half the sum of the two ends, functions named for a span/shape return their difference")
    run.add(round3.pad_before_align(prog), "R-ORDER padding precedes alignment")
    run.floor("R-ROUND|", 7)


def C20(prog: Program, run: Run, tier: str) -> None:
    run.add(_only(rounding.rule_round(prog, {"math"}), "math:"), ROUND_DESC)
    run.add(_only(rounding.rule_clamps(prog), "math:"), None)
    run.add(specific.rule_signrole(prog), "R-SIGNROLE endpoint by sign of resolution; anchor offset in/out")
    run.add(guards.snap_affine_guards(prog), "R-GUARDSEQ snap_affine rotation pass-through, slots, tolerances")
    run.add(guards.nonfinite_first(prog), "R-GUARDSEQ non-finite input handled first in split_float / maybe_int / is_almost_int")
    run.add(axis.rule_axis(prog, {"math"}), AXIS_DESC)
    run.add([i for i in valueobj.rule_valueobj(prog, ["math:Bin1D"]) if "EQ" in i.construct], "R-VALUEOBJ Bin1D equality complete")
    run.add(_fwd(prog, {"math"}), FWD_DESC)
    run.floor("R-ROUND|", 6)
    run.add(round3.sign_preserving_returns(prog), "R-SIGNROLE snapping helpers return values that carry the sign of their argument")
    run.floor("R-AXIS|", 25)


# ---------------------------------------------------------------------------------------------
# generic slip rules (R-DUP, R-TRUTHY) over the modules each property is anchored in
# ---------------------------------------------------------------------------------------------
GENERIC_DESC = (
    "R-DUP no boolean operator / comparison / if-elif chain / conditional expression repeats an operand (the second copy "
    "was meant to test something else); R-TRUTHY no optional-number parameter is tested by truth value (0 is a value, not None); "
    "R-ABSEPS the affine library's absolute-epsilon predicates (is_rectilinear, is_identity, ...) are never applied to a pixel->world affine; "
    "R-MEMO a loop-local memo dict stores values that depend on the loop only through the key; "
    "R-REMAINDER sign-preserving remainder/truncation primitives (fmod, modf, trunc) are used only inside odc.geo.math; "
    "R-FALLBACK a fallback_* parameter never conditions the computation it stands in for; "
    "R-TOL math.isclose never receives a caller's absolute tolerance with the default relative one; "
    "R-SIGNMAG max()/min() over resolution components only after abs(); "
    "R-ZERODIV an optional integer parameter used as divisor/alignment is excluded from being 0, not only from being None; "
    "R-DENSIFY a region projected with to_crs in order to cover it asks for densification (or was densified already); "
    "R-TERMINATION a while loop advancing by a caller-supplied step is reached only with the step known positive; "
    "R-INTIDX an index is told from a slice by isinstance(x, slice) or an integer test that covers numpy integers; "
    "R-ANNOT no unconditional assert isinstance() rejects a member of the parameter's own Union annotation; "
    "R-PRECISION no single-precision coordinate arrays on the planning path (roi, geobox, overlap, gcp); "
    "R-SHAREDMUT no module-level container mutated / returned by a function, ad-hoc cache keys cover their value; R-ITERTWICE no Iterable parameter consumed twice; "
    "R-EPSGPROXY no comparison of two .epsg attributes in place of CRS equality; R-ROTTOL is_affine_st never called with a constant tolerance looser than its default; "
    "R-NUMNORM a public function never negates (or subtracts from a constant, or updates in place through an alias) an integer/step parameter "
    "in the caller's own numeric type - numpy unsigned/narrow scalars wrap, 0-d arrays are mutated: re-bind through int()/float()/operator.index() first; "
    "R-ISNUM no isinstance(param, int/float) dispatch between the scalar and the other form of a parameter (numpy scalars are neither): numbers.Integral/Real; "
    "R-VALUEOBJ EQSYM an __eq__ that lets in instances of an unrelated package class is matched by that class' __eq__ letting it in (symmetry); "
    "R-SHIFTIDX no shifted subscript a[i + k] under a guard that admits negative i; R-SWALLOW no predicate answers a boolean constant from the handler of a package call that raised because it could not tell; "
    "R-UNITS a computed densification step for to_crs comes from the geometry, not from the target side; R-REVRANGE the backward alternative of range(a, b) is range(b-1, a-1, -1); "
    "R-IMPORTTIME no uuid/tempfile/time generator evaluated at module level; "
    "R-INFALSE no membership test against a literal holding both None and a bool (0 == False: a numeric zero is taken for 'not set'); "
    "R-ACQUIRE the result of lock.acquire(timeout=..)/acquire(blocking=False) is tested before the protected work; "
    "R-TWOCORNER no box mapped into another frame through two opposite corners only, unless the path is known axis aligned; "
    "R-SIGNMAG (locals) no max()/min() over products of signed resolution components unpacked into locals; "
    "R-RECIP no floor/ceil/int of a product with a stored reciprocal (1/size) in place of the quotient"
)


def _anchored_modules() -> dict:
    import json
    from pathlib import Path

    out = {}
    for line in (Path(__file__).resolve().parent.parent / "properties.jsonl").read_text().splitlines():
        if not line.strip():
            continue
        d = json.loads(line)
        mods = set()
        for f in d["anchors"]["files"]:
            rel = f[len("odc/geo/"):] if f.startswith("odc/geo/") else f
            mods.add(rel[:-3].replace("/", "."))
        out[d["id"]] = mods
    return out


ANCHORED = _anchored_modules()


ROUND4 = {'C01': ['epsg_str_canonical', 'explicit_crs_checked', 'wrapper_keywords'], 'C02': ['poly_fit_rank_safe', 'dispatch_matches_precondition'], 'C20': ['poly_fit_rank_safe', 'dispatch_matches_precondition'], 'C03': ['scale_fit_offsets'], 'C04': ['tiles_edge_cases'], 'C05': ['cog_header_and_dtype', 'mpu_task_hygiene'], 'C06': ['mpu_task_hygiene'], 'C07': ['epsg_str_canonical'], 'C09': ['affine_st_relative'], 'C10': ['warp_buffers'], 'C13': ['warp_buffers', 'tile_query_nonlinear'], 'C11': ['same_crs_shortcut'], 'C12': ['tile_query_nonlinear'], 'C14': ['web_tiles_exact'], 'C15': ['rio_writer_inputs'], 'C16': ['grid_union_details'], 'C17': ['slice_normalisation'], 'C18': ['sink_identity'], 'C19': ['epsg_str_canonical', 'token_no_raw_arrays']}


ROUND5 = {'C02': ['resolution_siblings'], 'C03': ['point_transform_clamps'], 'C05': ['part_budget_matches_reservation'], 'C06': ['part_budget_matches_reservation'], 'C08': ['zoom_to_resolution_exact'], 'C11': ['utm_lonlat_needs_no_crs'], 'C13': ['dst_nodata_before_warp'], 'C16': ['auto_resolution_fallback'], 'C17': ['int_index_is_unit_slice'], 'C18': ['parts_dir_full_name'], 'C20': ['snap_tolerance_both_edges', 'resolution_siblings']}


ROUND6 = {'C01': ['wrapper_keyword_operands', 'crs_eq_text_verdicts'], 'C02': ['cache_field_not_copied'], 'C07': ['to_crs_keeps_vertices'], 'C08': ['zoom_to_resolution_as_requested', 'snap_grid_every_path_snaps'],
          'C20': ['snap_grid_every_path_snaps'], 'C09': ['label_affine_not_snapped'], 'C19': ['crs_eq_text_verdicts'], 'C17': ['intersect3_overlap_from_both'], 'C04': ['intersect3_overlap_from_both'], 'C10': ['paste_read_scale_sibling'], 'C03': ['paste_read_scale_sibling'], 'C11': ['cache_field_not_copied']}


def _undecided(name, e):
    from .report import UNDET, Instance

    return Instance("R-ANCHOR", f"{name}#anchor", UNDET, str(e), "")


def _unread_shapes(prog: Program, run: Run) -> None:
    """Structural pattern matching beyond the simple forms the loader re-writes (singletons, values, bare class patterns) is
    not read by the path-condition machinery: a clause that finds fault with a function still containing such a `match`
    statement has not understood the function - it is undecided there, not violated.  (Rules that do not depend on path
    conditions - R-API, R-AXIS sinks, R-INFALSE ... - are not affected: only R-GUARDSEQ / R-CRSGUARD / R-NEGIDX / R-CACHE /
    R-SIGNROLE / R-LOCK / R-FILL / R-EMPTY / R-SIBLING / R-EXHAUST / R-ROUND clauses are.)"""
    import ast as _ast

    from .report import BAD, UNDET

    affected = ("R-GUARDSEQ", "R-CRSGUARD", "R-NEGIDX", "R-CACHE", "R-SIGNROLE", "R-LOCK", "R-FILL", "R-EMPTY", "R-SIBLING", "R-EXHAUST", "R-ROUND", "R-VALUEOBJ", "R-MPU")
    memo = {}
    for i in run.instances:
        if i.status != BAD or i.rule not in affected:
            continue
        q = i.construct.split("#")[0]
        if q not in memo:
            f = prog.functions.get(q)
            memo[q] = bool(f is not None and not isinstance(f.node, _ast.Lambda) and any(isinstance(n, _ast.Match) for n in _ast.walk(f.node)))
            memo[q + "|walrus"] = bool(f is not None and not isinstance(f.node, _ast.Lambda) and any(isinstance(n, _ast.NamedExpr) for n in _ast.walk(f.node)))
        if not memo[q] and i.rule in ("R-CACHE", "R-LOCK", "R-FILL") and memo.get(q + "|walrus"):
            # value-flow clauses of these rules follow plain assignments only: a value bound by `:=` inside a test is not followed
            i.status = UNDET
            i.why = "function binds values with assignment expressions (:=) this clause does not follow; the clause said: " + i.why
            continue
        if memo[q]:
            i.status = UNDET
            i.why = "function uses structural pattern matching this analysis does not read; the clause said: " + i.why


def _with_generic(pid, fn):
    def wrapped(prog: Program, run: Run, tier: str) -> None:
        fn(prog, run, tier)
        _unread_shapes(prog, run)
        for _nm in ROUND4.get(pid, []):
            try:
                run.add(getattr(round4, _nm)(prog), "round-4 clause: " + (getattr(round4, _nm).__doc__ or "").split(".")[0].strip() + " (structural part of a repaired defect; see rules/round4.py)")
            except AnalysisError as e:  # a vanished anchor leaves this clause undecided, the remaining clauses still run
                run.add([_undecided(_nm, e)])
        for _nm in ROUND5.get(pid, []):
            try:
                run.add(getattr(round5, _nm)(prog), "round-5 clause: " + (getattr(round5, _nm).__doc__ or "").split(". ", 1)[-1].split(".")[0].strip() + " (structural part of a property a seeded change broke; see rules/round5.py)")
            except AnalysisError as e:
                run.add([_undecided(_nm, e)])
        for _nm in ROUND6.get(pid, []):
            try:
                run.add(getattr(round6, _nm)(prog), "round-6 clause: " + (getattr(round6, _nm).__doc__ or "").split(". ", 1)[-1].split(".")[0].strip() + " (positive-evidence clause; see rules/round6.py)")
            except AnalysisError as e:
                run.add([_undecided(_nm, e)])
        run.add(findings.declared(prog, pid), "R-DECLARED findings recorded with a failing input but without a structural clause: printed for the record, not decided")
        mods = {m for m in ANCHORED.get(pid, set()) if m in prog.modules}
        run.add(generic.rule_dup(prog, mods) + generic.rule_truthy(prog, mods) + generic.rule_abseps(prog, mods) + generic.rule_localmemo(prog, mods) + generic.rule_remainder_owner(prog, mods) + generic.rule_fallback(prog, mods) + generic.rule_isclose(prog, mods) + generic.rule_signed_magnitude(prog, mods) + generic.rule_zerodiv(prog, mods) + generic.rule_densify(prog, mods) + generic.rule_termination(prog, mods) + generic.rule_intidx(prog, mods) + generic.rule_assert_vs_annotation(prog, mods) + generic.rule_precision(prog, mods) + generic.rule_sharedmut(prog, mods) + generic.rule_itertwice(prog, mods)
                + generic.rule_epsg_proxy(prog, mods) + generic.rule_rotation_tolerance(prog, mods) + generic2.rule_numnorm(prog, mods) + generic2.rule_isnum(prog, mods) + generic2.rule_eqsym(prog, mods) + generic2.rule_shiftidx(prog, mods) + generic2.rule_swallow(prog, mods) + generic2.rule_units(prog, mods) + generic2.rule_revrange(prog, mods) + generic2.rule_importtime(prog, mods)
                + generic3.rule_infalse(prog, mods) + generic3.rule_acquire(prog, mods) + generic3.rule_twocorner(prog, mods) + generic3.rule_signmag_locals(prog, mods) + generic3.rule_reciprocal(prog, mods), GENERIC_DESC)

    wrapped.__name__ = pid
    wrapped.__doc__ = fn.__doc__
    return wrapped


for _i in range(1, 21):
    _pid = f"C{_i:02d}"
    globals()[_pid] = _with_generic(_pid, globals()[_pid])
