"""Which rules make up which property (DESIGN.md section 4)."""
from __future__ import annotations

from .loader import Program
from .report import Run
from .rules import api, cog, crsguard, valueobj

ALL = [f"C{n:02d}" for n in range(1, 21)]


def C01(prog: Program, run: Run, tier: str) -> None:
    mods = None if tier == "thorough" else {"geom", "geobox", "gcp", "gridspec", "overlap", "_xr_interop", "converters", "crs"}
    run.add(
        crsguard.rule_crsguard(prog, modules=mods, must_guard=crsguard.C01_MUST_GUARD),
        "R-CRSGUARD every combining operation reaches each normal exit only through a CRS-equality path "
        "condition, a guarding callee or a re-projection; mismatch branches raise a ValueError subclass",
    )
    run.add(crsguard.rule_wrapname(prog), "R-WRAPNAME decorated shapely delegates call their own name with their own arguments")
    run.add(
        crsguard.rule_retag(prog, {"geom", "geobox", "gcp", "overlap", "gridspec"}),
        "R-RETAG constructed Geometry/BoundingBox/GeoBox results carry a CRS originating from an operand",
    )
    run.floor("R-CRSGUARD|", 40)
    run.floor("R-WRAPNAME|", 16)
    run.floor("R-RETAG|", 40)
    run.notes.append("R-CRSGUARD table: " + "; ".join(f"{k}: {v}" for k, v in sorted(crsguard.TABLE.items())))


def C19(prog: Program, run: Run, tier: str) -> None:
    classes = None if tier == "thorough" else valueobj.VALUE_CLASSES
    run.add(
        valueobj.rule_valueobj(prog, classes),
        "R-VALUEOBJ per value class: EQHASH hash fields are implied equal on every True path of __eq__ (modulo "
        "functional dependencies derived from __init__); EQTOKEN every field __eq__ needs feeds __dask_tokenize__; "
        "TOKENPURE no id()/uuid/random/time in tokens; EQIDENT no field compared by identity; PICKLEKEYS "
        "__getstate__ keys = keys consumed by __setstate__/__init__ and cover __eq__ fields; EQCOMPLETE every "
        "non-cache state field is compared or determined",
    )
    run.add(
        valueobj.rule_cache(prog),
        "R-CACHE KEYCOMPLETE key function reads every parameter; KEYCANON every key is a canonical primitive; IDPIN "
        "objects whose id() is a cache key are pinned by a plain never-cleared dict cache; ORDER source/target "
        "pass-through transformer_to_crs -> _make_crs_transform -> Transformer.from_crs",
    )
    run.floor("R-VALUEOBJ|", 45)
    run.floor("R-CACHE|", 18)


def C06(prog: Program, run: Run, tier: str) -> None:
    run.add(
        cog.rule_mpu(prog),
        "R-MPU ORDER every concatenation / constructor slot / insert in merge, flush_rhs, flush and the finaliser respects "
        "stream position (left_data < parts < data, lhs < rhs, header left); PAIRING each write with self.nextPartId "
        "consumes one id and one credit and records its receipt, append logs what it stores; RESERVE a spill never takes "
        "the last credit (linear bound on the early-return test over the value set of the reserve); MINSIZE every "
        "non-final write is behind a comparison with min_write_sz (maybe_write guard, can_flush returns, _flush_data only "
        "behind can_flush); STRIDE part-id stride equals credits per chunk, first id min_part+1, sub-stream advance",
    )
    run.floor("R-MPU|", 34)


def C18(prog: Program, run: Run, tier: str) -> None:
    run.add(
        cog.rule_lock(prog),
        "R-LOCK CALLUNDERLOCK upload initiation only inside a lock region; DCL state predicate re-evaluated inside the "
        "region and the initiation control-dependent on not-started; PUBLISH new id set on the shared variable before "
        "release; ENSURE every write_part/finalise receiver comes from _ensure_init() on every path; LOCKSINGLETON/LOCKKEY "
        "the local lock provider always returns the registered lock",
    )
    run.add(
        cog.rule_accessor(prog),
        "R-ACCESSOR limit properties read their own configuration key; constant-folded default max > min",
    )
    run.floor("R-LOCK|", 8)
    run.floor("R-ACCESSOR|", 10)
