"""Which rules make up which property (DESIGN.md section 4)."""
from __future__ import annotations

from .loader import Program
from .report import Run
from .rules import crsguard

ALL = [f"C{n:02d}" for n in range(1, 21)]


def C01(prog: Program, run: Run, tier: str) -> None:
    mods = None if tier == "thorough" else {"geom", "geobox", "gcp", "gridspec", "overlap", "_xr_interop", "converters", "crs"}
    run.add(
        crsguard.rule_crsguard(prog, modules=mods, must_guard=crsguard.C01_MUST_GUARD),
        "R-CRSGUARD every combining operation reaches each normal exit only through a CRS-equality path "
        "condition, a guarding callee or a re-projection; mismatch branches raise a ValueError subclass",
    )
    run.add(crsguard.rule_wrapname(prog), "R-WRAPNAME decorated shapely delegates call their own name with their own arguments")
    run.add(
        crsguard.rule_retag(prog, {"geom", "geobox", "gcp", "overlap", "gridspec"}),
        "R-RETAG constructed Geometry/BoundingBox/GeoBox results carry a CRS originating from an operand",
    )
    run.floor("R-CRSGUARD|", 40)
    run.floor("R-WRAPNAME|", 16)
    run.floor("R-RETAG|", 40)
    run.notes.append("R-CRSGUARD table: " + "; ".join(f"{k}: {v}" for k, v in sorted(crsguard.TABLE.items())))
