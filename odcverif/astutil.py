"""Expression-level helpers shared by the rules."""
from __future__ import annotations

import ast
from typing import Dict, Iterable, Iterator, List, Optional, Set, Tuple

from .loader import FuncInfo, dotted, parent, walk_own


def names_in(e: ast.AST) -> Set[str]:
    return {n.id for n in ast.walk(e) if isinstance(n, ast.Name)}


def calls_in(e: ast.AST, own: bool = True) -> List[ast.Call]:
    it = walk_own(e) if own and isinstance(e, (ast.FunctionDef, ast.AsyncFunctionDef, ast.Lambda)) else ast.walk(e)
    return [n for n in it if isinstance(n, ast.Call)]


def call_name(c: ast.Call) -> str:
    """Last component of the callee name ("floor" for math.floor(...), np.floor(...))."""
    f = c.func
    if isinstance(f, ast.Attribute):
        return f.attr
    if isinstance(f, ast.Name):
        return f.id
    return ""


def call_dotted(c: ast.Call) -> str:
    return dotted(c.func) or call_name(c)


def kwarg(c: ast.Call, name: str) -> Optional[ast.AST]:
    for k in c.keywords:
        if k.arg == name:
            return k.value
    return None


def arg_or_kw(c: ast.Call, pos: int, name: str) -> Optional[ast.AST]:
    if pos < len(c.args) and not any(isinstance(a, ast.Starred) for a in c.args[: pos + 1]):
        return c.args[pos]
    return kwarg(c, name)


def is_const(e: Optional[ast.AST], *values) -> bool:
    if not isinstance(e, ast.Constant):
        return False
    if not values:
        return True
    return any(e.value is v or (type(e.value) is type(v) and e.value == v) for v in values)


def const_num(e: Optional[ast.AST]) -> Optional[float]:
    """Fold literal arithmetic: 5 * (1 << 20), -1, 10_000 ..."""
    if e is None:
        return None
    if isinstance(e, ast.Constant) and isinstance(e.value, (int, float)) and not isinstance(e.value, bool):
        return e.value
    if isinstance(e, ast.UnaryOp) and isinstance(e.op, (ast.USub, ast.UAdd)):
        v = const_num(e.operand)
        if v is None:
            return None
        return -v if isinstance(e.op, ast.USub) else v
    if isinstance(e, ast.BinOp):
        a, b = const_num(e.left), const_num(e.right)
        if a is None or b is None:
            return None
        try:
            if isinstance(e.op, ast.Add):
                return a + b
            if isinstance(e.op, ast.Sub):
                return a - b
            if isinstance(e.op, ast.Mult):
                return a * b
            if isinstance(e.op, ast.Div):
                return a / b
            if isinstance(e.op, ast.FloorDiv):
                return a // b
            if isinstance(e.op, ast.Pow):
                return a**b
            if isinstance(e.op, ast.LShift):
                return int(a) << int(b)
            if isinstance(e.op, ast.RShift):
                return int(a) >> int(b)
            if isinstance(e.op, ast.Mod):
                return a % b
        except Exception:
            return None
    return None


def unconditional_nodes(e: ast.AST) -> Iterator[ast.AST]:
    """Sub-expressions evaluated whenever ``e`` is evaluated (no IfExp arms, no right operands
    of and/or, no comprehension bodies, no lambda bodies)."""
    todo = [e]
    while todo:
        n = todo.pop()
        yield n
        if isinstance(n, ast.IfExp):
            todo.append(n.test)
            continue
        if isinstance(n, ast.BoolOp):
            todo.append(n.values[0])
            continue
        if isinstance(n, (ast.Lambda, ast.FunctionDef, ast.AsyncFunctionDef, ast.ClassDef)):
            continue
        if isinstance(n, (ast.ListComp, ast.SetComp, ast.GeneratorExp, ast.DictComp)):
            todo.append(n.generators[0].iter)
            continue
        todo.extend(ast.iter_child_nodes(n))


def stmt_exprs(st: ast.AST, part: str) -> List[ast.AST]:
    """The expressions evaluated by this statement / header part."""
    if part == "test":
        return [st.test]
    if part == "iter":
        return [st.iter]
    if part == "items":
        return [i.context_expr for i in st.items]
    if part == "subject":
        return [st.subject]
    if part == "handler":
        return []
    if isinstance(st, (ast.FunctionDef, ast.AsyncFunctionDef, ast.ClassDef)):
        return list(st.decorator_list)
    if isinstance(st, ast.Return):
        return [st.value] if st.value is not None else []
    if isinstance(st, ast.Assign):
        return [st.value]
    if isinstance(st, ast.AnnAssign):
        return [st.value] if st.value is not None else []
    if isinstance(st, ast.AugAssign):
        return [st.value]
    if isinstance(st, ast.Expr):
        return [st.value]
    if isinstance(st, ast.Raise):
        return [x for x in (st.exc, st.cause) if x is not None]
    if isinstance(st, ast.Assert):
        return [st.test]
    if isinstance(st, ast.Delete):
        return list(st.targets)
    return []


def assigned_names(st: ast.AST, part: str) -> Set[str]:
    targets: List[ast.AST] = []
    if part == "stmt":
        if isinstance(st, ast.Assign):
            targets = list(st.targets)
        elif isinstance(st, (ast.AugAssign, ast.AnnAssign)):
            targets = [st.target]
    elif part == "iter":
        targets = [st.target]
    elif part == "items":
        targets = [i.optional_vars for i in st.items if i.optional_vars is not None]
    out: Set[str] = set()
    for t in targets:
        for n in ast.walk(t):
            if isinstance(n, ast.Name):
                out.add(n.id)
    return out


class Origins:
    """Flow-insensitive value-origin tracing through the locals of one function.

    origin(expr) -> set of (root, via_crs) where root is a parameter name (or "self") the value
    is derived from by unpacking / indexing / iteration / list() / .crs access.
    """

    PASS_CALLS = {"list", "tuple", "iter", "sorted", "reversed", "set", "frozenset", "enumerate"}
    CRS_ATTRS = {"crs", "_crs"}

    def __init__(self, fi: FuncInfo):
        self.fi = fi
        self.params = set(fi.param_names())
        self.defs: Dict[str, List[ast.AST]] = {}
        self._collect(fi.node)
        self._memo: Dict[str, Set[Tuple[str, bool]]] = {}

    def _bind(self, target: ast.AST, value: ast.AST, elem: bool = False) -> None:
        if isinstance(target, ast.Name):
            self.defs.setdefault(target.id, []).append(("elem", value) if elem else ("val", value))  # type: ignore[arg-type]
        elif isinstance(target, (ast.Tuple, ast.List)):
            if isinstance(value, (ast.Tuple, ast.List)) and len(value.elts) == len(target.elts) and not elem:
                for t, v in zip(target.elts, value.elts):
                    self._bind(t, v)
            else:
                # `first, *rest = stream`: a plain target receives one element of the value, the starred one the remainder
                for t in target.elts:
                    self._bind(t.value if isinstance(t, ast.Starred) else t, value, elem=not isinstance(t, ast.Starred) and any(isinstance(x, ast.Starred) for x in target.elts))
        elif isinstance(target, ast.Starred):
            self._bind(target.value, value)

    def _collect(self, fn: ast.AST) -> None:
        for n in ast.walk(fn) if not isinstance(fn, (ast.FunctionDef, ast.AsyncFunctionDef, ast.Lambda)) else walk_own(fn):
            if isinstance(n, ast.Assign):
                for t in n.targets:
                    self._bind(t, n.value)
            elif isinstance(n, ast.AnnAssign) and n.value is not None:
                self._bind(n.target, n.value)
            elif isinstance(n, (ast.For, ast.AsyncFor)):
                self._bind(n.target, n.iter, elem=True)
            elif isinstance(n, ast.comprehension):
                self._bind(n.target, n.iter, elem=True)
            elif isinstance(n, ast.NamedExpr):
                self._bind(n.target, n.value)
            elif isinstance(n, (ast.With, ast.AsyncWith)):
                for it in n.items:
                    if it.optional_vars is not None:
                        self._bind(it.optional_vars, it.context_expr)

    def origin(self, e: ast.AST, _depth: int = 0) -> Set[Tuple[str, bool]]:
        if _depth > 12:
            return set()
        if isinstance(e, ast.Name):
            if e.id in self._memo:
                return self._memo[e.id]
            out: Set[Tuple[str, bool]] = set()
            self._memo[e.id] = out  # cycle guard
            if e.id in self.params and e.id not in self.defs:
                out.add((e.id, False))
            elif e.id in self.params:
                out.add((e.id, False))
                for _, v in self.defs[e.id]:
                    out |= self.origin(v, _depth + 1)
            else:
                for _, v in self.defs.get(e.id, []):
                    out |= self.origin(v, _depth + 1)
            self._memo[e.id] = out
            return out
        if isinstance(e, ast.Attribute):
            base = self.origin(e.value, _depth + 1)
            if e.attr in self.CRS_ATTRS:
                return {(r, True) for r, _ in base}
            return base
        if isinstance(e, (ast.Subscript, ast.Starred)):
            return self.origin(e.value, _depth + 1)
        if isinstance(e, ast.Call):
            nm = call_name(e)
            if nm in self.PASS_CALLS and e.args:
                return self.origin(e.args[0], _depth + 1)
            if nm in ("islice", "chain", "tee", "compress", "takewhile", "dropwhile", "filter", "map") and e.args:
                # itertools / builtins handing on (some of) the elements of their iterable arguments
                out = set()
                for a in (e.args[1:] if nm in ("filter", "map", "takewhile", "dropwhile") else e.args[:1] if nm in ("islice", "tee", "compress") else e.args):
                    out |= self.origin(a, _depth + 1)
                return out
            if isinstance(e.func, ast.Attribute):
                # method result keeps the receiver's origin:  g.transform(f), bbox.polygon ...
                return self.origin(e.func.value, _depth + 1)
            return set()
        if isinstance(e, (ast.ListComp, ast.SetComp, ast.GeneratorExp)):
            return self.origin(e.elt, _depth + 1)
        if isinstance(e, (ast.List, ast.Tuple, ast.Set)):
            out = set()
            for x in e.elts:
                out |= self.origin(x, _depth + 1)
            return out
        if isinstance(e, ast.IfExp):
            return self.origin(e.body, _depth + 1) | self.origin(e.orelse, _depth + 1)
        if isinstance(e, ast.BoolOp):
            out = set()
            for v in e.values:
                out |= self.origin(v, _depth + 1)
            return out
        return set()

    def roots(self, e: ast.AST) -> Set[str]:
        return {r for r, _ in self.origin(e)}

    def deps(self, e: ast.AST, _seen: Optional[Set[str]] = None) -> Set[str]:
        """Liberal dependency set: parameters reachable from any name in ``e`` through any
        local definition (whatever the expression form)."""
        seen = _seen if _seen is not None else set()
        out: Set[str] = set()
        for n in ast.walk(e):
            if isinstance(n, ast.Name) and n.id not in seen:
                seen.add(n.id)
                if n.id in self.params:
                    out.add(n.id)
                for _, v in self.defs.get(n.id, []):
                    out |= self.deps(v, seen)
        return out

    def deps_names(self, e: ast.AST, _seen: Optional[Set[str]] = None) -> Set[str]:
        """All names (locals and parameters) the expression transitively depends on."""
        seen = _seen if _seen is not None else set()
        for n in ast.walk(e):
            if isinstance(n, ast.Name) and n.id not in seen:
                seen.add(n.id)
                for _, v in self.defs.get(n.id, []):
                    self.deps_names(v, seen)
        return seen

    def closure(self, e: ast.AST, _seen: Optional[Set[str]] = None) -> List[ast.AST]:
        """Every AST node of ``e`` and of the defining expressions of the locals it transitively uses:
        lets a rule ask "does this value come through <construct>" whether or not temporaries were used."""
        seen = _seen if _seen is not None else set()
        out: List[ast.AST] = []
        for n in ast.walk(e):
            out.append(n)
            if isinstance(n, ast.Name) and n.id not in seen:
                seen.add(n.id)
                for _, v in self.defs.get(n.id, []):
                    out += self.closure(v, seen)
        return out

    def crs_roots(self, e: ast.AST) -> Set[str]:
        return {r for r, c in self.origin(e) if c}


def fold_if(st: ast.AST) -> Optional[ast.stmt]:
    """The loader re-writes `t = A if c else B` / `return A if c else B` as if/else statements.  For rules that want to
    look at a two-way choice *as a value*, this is the inverse view: an `if` whose two arms are single assignments to the
    same target(s), or single returns, is handed back as a synthetic `Assign`/`Return` with a conditional expression
    (elif chains nest).  The synthetic node carries the location and parent of the `if`; nothing in the tree changes."""
    if not isinstance(st, ast.If) or len(st.body) != 1 or len(st.orelse) != 1:
        return None
    a, b = st.body[0], st.orelse[0]
    if isinstance(b, ast.If):
        b = fold_if(b)  # type: ignore[assignment]
        if b is None:
            return None
    if isinstance(a, ast.If):
        a = fold_if(a)  # type: ignore[assignment]
        if a is None:
            return None
    new: Optional[ast.stmt] = None
    if isinstance(a, ast.Assign) and isinstance(b, ast.Assign) and [ast.dump(t) for t in a.targets] == [ast.dump(t) for t in b.targets]:
        new = ast.Assign(targets=a.targets, value=ast.IfExp(test=st.test, body=a.value, orelse=b.value), type_comment=None)
    elif isinstance(a, ast.AnnAssign) and isinstance(b, ast.AnnAssign) and a.value is not None and b.value is not None and ast.dump(a.target) == ast.dump(b.target):
        new = ast.Assign(targets=[a.target], value=ast.IfExp(test=st.test, body=a.value, orelse=b.value), type_comment=None)
    elif isinstance(a, ast.Return) and isinstance(b, ast.Return) and a.value is not None and b.value is not None:
        new = ast.Return(value=ast.IfExp(test=st.test, body=a.value, orelse=b.value))
    if new is None:
        return None
    ast.copy_location(new, st)
    ast.copy_location(new.value, st)  # type: ignore[union-attr]
    new._parent = getattr(st, "_parent", None)  # type: ignore[attr-defined]
    new.value._parent = new  # type: ignore[union-attr]
    new._folded_from = st  # type: ignore[attr-defined]
    if hasattr(st, "_mod"):
        new._mod = st._mod  # type: ignore[attr-defined]
        new.value._mod = st._mod  # type: ignore[union-attr]
    return new


def with_folded(nodes) -> List[ast.AST]:
    """`nodes` plus the conditional-expression view (fold_if) of every foldable `if` among them, and its IfExp."""
    out: List[ast.AST] = []
    for n in nodes:
        out.append(n)
        if isinstance(n, ast.If):
            f = fold_if(n)
            if f is not None:
                out.append(f)
                out.append(f.value)  # type: ignore[union-attr]
    return out


def expand_locals(fn: ast.AST, e: ast.AST, depth: int = 3, keep: Optional[Set[str]] = None) -> ast.AST:
    """`e` with every local of `fn` that is bound exactly once - by `x = <expr>` or element-wise by `x, y = <e1>, <e2>` -
    replaced by a copy of its defining expression (repeated `depth` times).  A value computed in place and the same value
    reaching its use through a temporary are the same program."""
    import copy as _copy

    from .loader import walk_own

    binds: Dict[str, List[Optional[ast.AST]]] = {}
    for n in walk_own(fn):
        if isinstance(n, ast.Assign):
            for t in n.targets:
                if isinstance(t, ast.Name):
                    binds.setdefault(t.id, []).append(n.value)
                elif isinstance(t, (ast.Tuple, ast.List)):
                    ew = isinstance(n.value, (ast.Tuple, ast.List)) and len(n.value.elts) == len(t.elts) and not any(isinstance(x, ast.Starred) for x in list(t.elts) + list(n.value.elts))
                    for i, x in enumerate(t.elts):
                        for nm in ast.walk(x):
                            if isinstance(nm, ast.Name):
                                binds.setdefault(nm.id, []).append(n.value.elts[i] if ew and isinstance(x, ast.Name) else None)  # type: ignore[union-attr]
        elif isinstance(n, (ast.AugAssign, ast.AnnAssign, ast.NamedExpr)):
            t = n.target
            if isinstance(t, ast.Name):
                binds.setdefault(t.id, []).append(n.value if isinstance(n, ast.AnnAssign) else None)
        elif isinstance(n, (ast.For, ast.comprehension)):
            for nm in ast.walk(n.target):
                if isinstance(nm, ast.Name):
                    binds.setdefault(nm.id, []).append(None)
        elif isinstance(n, ast.With):
            for it in n.items:
                if it.optional_vars is not None:
                    for nm in ast.walk(it.optional_vars):
                        if isinstance(nm, ast.Name):
                            binds.setdefault(nm.id, []).append(None)
    args = getattr(fn, "args", None)
    params = {a.arg for a in (args.posonlyargs + args.args + args.kwonlyargs)} if args is not None else set()
    one = {k: v[0] for k, v in binds.items() if len(v) == 1 and v[0] is not None and k not in params and k not in (keep or set())}

    class _T(ast.NodeTransformer):
        def visit_Name(self, node: ast.Name):
            if isinstance(node.ctx, ast.Load) and node.id in one:
                return ast.copy_location(_copy.deepcopy(one[node.id]), node)
            return node

    cur = _copy.deepcopy(e)
    for _ in range(depth):
        new = _T().visit(cur)
        if ast.dump(new) == ast.dump(cur):
            break
        cur = new
    return cur
