"""Claims registered in MANIFEST.json (regenerate with tools_gen_manifest.py)."""

NOTES = (
    "All checks are static analysis of /repo's current source (python ast; no odc-geo code is imported or run). "
    "Each claim lists the structural clauses it decides; each clause is a necessary condition of the property, "
    "not the behaviour itself. Exit 2 + ANALYSIS-ERROR means the analysis cannot stand behind a verdict "
    "(vanished anchor, instance floor missed). See DESIGN.md."
)

CLAIMS = {
    "C01": {
        "text": "Decides, for every function of the package that combines two or more CRS-tagged operands (discovered from "
        "annotations, binary dunders of tagged classes and CRS-wrapping decorators - about 55 today, including every "
        "operation the property lists): each normal exit is reached only through a path condition implying equal CRSs "
        "(None included), a call handing all operands to a function already proven guarding, or a re-projection; "
        "mismatch branches raise a ValueError subclass; asserts and `is not None` conjunctions do not count; decorated "
        "shapely delegates call their own name (R-WRAPNAME); constructed results carry an operand's CRS (R-RETAG). "
        "Decides these parts, not the behaviour: that CRS.__eq__ identifies equal CRSs and what shapely returns is not decided.",
        "note": "trusts annotations as the discovery mechanism, pyproj/shapely semantics, and the one-line-per-entry table of "
        "non-combining functions printed in the evidence",
        "technique": "must-pass-through dataflow over a structured CFG + interprocedural guard summaries (ast)",
    },
}

NOT_APPLICABLE = {f"C{n:02d}": "check under construction in this session (static rules designed in DESIGN.md section 4)" for n in range(2, 21)}
