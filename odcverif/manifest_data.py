"""Claims registered in MANIFEST.json (regenerate with tools_gen_manifest.py)."""

NOTES = (
    "All checks are static analysis of /repo's current source (python ast; no odc-geo code is imported or run; rule R-API "
    "additionally looks up names in the third-party libraries installed in /venv). Each claim lists the structural clauses it "
    "decides; each clause is a necessary condition of the property, not the behaviour itself. Exit 1 + VIOLATION names rule, "
    "construct id and file:line; exit 2 + ANALYSIS-ERROR means the analysis as a whole cannot stand behind a verdict (instance floor missed, "
    "positive control silent, internal error); a single clause that does not find its subject construct prints UNDECIDED and does not fail the check. Known findings are in known_findings.json. See DESIGN.md."
)

_NOTE = (
    "trusted base: CPython ast = what runs; annotations truthful; semantics of shapely/pyproj/numpy/GDAL/dask/xarray/locks; the "
    "role, lexicon and exception tables in /verif/odcverif/rules (printed in evidence). A pass means no structural cause found."
)
_D = "Decides these parts, not the behaviour. Undecided: "

CLAIMS = {
    "C01": dict(
        text="Every function combining two or more CRS-tagged operands (discovered from annotations, binary dunders of tagged classes, "
        "CRS-wrapping decorators; includes every operation the property lists) reaches each normal exit only through a path condition "
        "implying equal CRSs (None included), a call handing all operands to a function proven guarding (never returning normally on a "
        "mismatch), or a re-projection; mismatch branches raise a ValueError subclass; asserts and `is not None` conjunctions do not count; "
        "decorated shapely delegates call their own name with their own arguments; constructed results carry an operand's CRS. "
        + _D + "that CRS.__eq__ identifies equal CRSs, what shapely returns.",
        technique="must-pass-through dataflow over a structured CFG + interprocedural guard summaries (ast)"),
    "C02": dict(
        text="No x/y transposition in crop/zoom/pad/flip/rotate/translate/buffer/neighbour arithmetic, coordinates, footprint, bbox "
        "(axis-tag inference over ~450 sink/unpack/zip/helper/arith instances); footprint polygon and bounding box push the same four pixel "
        "corners through the transform and the box is min/max over them; every view is re-tagged with the receiver's CRS; _shape/_affine/_crs "
        "assigned only in the constructor so the cached extent cannot go stale; outward rounding of shapes in crop/zoom/pad; options forwarded. "
        + _D + "inverse relation of pix2wld/wld2pix, signs and half-pixel offsets, rotation about the centre, GCP fit error.",
        technique="axis-tag (phantom type) inference + sibling agreement + field-write ownership (ast)"),
    "C03": dict(
        text="Rounding roles in compute_axis_overlap/roi_from_points/scaled_*_roi/_pick_read_scale (interval starts round down, stops up); per-axis "
        "helpers get quantities of one axis, rows/cols not swapped; the point envelope is clamped before the int32 cast; finite filter and empty "
        "case precede the envelope, clip per axis; point transform goes src.pix2wld -> clamp -> transformer(src->dst) -> dst.wld2pix and back swaps; "
        "envelopes are mapped in the right direction and clipped to the right shape; empty source => empty destination; scale=min(scale2), "
        "read_shrink from scale, one shrink factor for zoom/affine/scale-up; ttol/stol wired straight. "
        + _D + "sufficiency of boundary sampling and padding under curvature, ties of floor/ceil.",
        technique="role-directed rounding lint + guard dominance + def-use over a structured CFG (ast)"),
    "C04": dict(
        text="The assembler's and tilings' third-party references exist in the installed numpy; tile counts round up and the last tile is clamped with "
        "min(.., N) behind the index validation; (y,x) order kept through Tiles/VariableSizedTiles/clip_tiles/BlockAssembler; both tilings implement "
        "every RoiTiles member; BlockAssembler reads each block through its own part of the 3-way intersection and writes through the window's part "
        "into a fill-initialised window. " + _D + "disjointness/cover/inverse lookup for all sizes and mosaic equality (enumeration, another family).",
        technique="link check against installed libraries + axis-tag inference + rounding roles (ast)"),
    "C05": dict(
        text="Thin: the parallel writer's imports/attributes resolve in the installed dask/tifffile/numpy; tile sizes originate from "
        "adjust_blocksize/norm_blocksize whose returns are align_up(.,16); the bag list handed to the multi-part writer is the reversed level "
        "list (overviews first) and cog_tidx walks levels reversed; axis-order dispatch total over YX/YXS/SYX; padded shapes round up; options "
        "forwarded. " + _D + "decoded pixels, offsets/byte counts, padding size, half-size overviews, schedules (runtime bytes).",
        technique="link check + value-origin flow to sinks + order-tag propagation (ast)"),
    "C06": dict(
        text="Stream order of every concatenation / constructor slot / insert in merge, flush_rhs, flush, finaliser, collate (left_data < parts < data, "
        "lhs < rhs, header left, no writer for the header merge); each write with self.nextPartId consumes one id and one credit and records its "
        "receipt; append logs what it stores; a spill never takes the last credit (linear bound of the early-return test over the reserve's value "
        "set); every non-final write is behind a comparison with min_write_sz; part-id stride = credits per chunk, first id min_part+1. "
        + _D + "byte-for-byte equality over all partitionings/merge trees (needs the numeric invariant over interleavings: model checking).",
        technique="typed stream-position lint + pairing/dominance checks + linear bound over value sets (ast)"),
    "C07": dict(
        text="The edge-length test of densify is a translation-invariant (squared) length over both axes compared with the (squared) resolution and used "
        "to densify long edges; original vertices retained; interpolation steps by the resolution; holes densified; all eight geometry kinds dispatched; "
        "same CRS returns the receiver, CRS-less raises ValueError, both before any transform; the densified geometry is what gets projected; "
        "source/target order through transformer_to_crs -> _make_crs_transform -> Transformer.from_crs; result tagged with the target CRS. "
        + _D + "vertex-exact agreement with pyproj, round-trip precision, area/length preservation.",
        technique="affine-space (position/displacement/length) typing of the predicate + guard dominance (ast)"),
    "C08": dict(
        text="Lower edge rounds down, upper edge and pixel count round up, at least one pixel (snap helpers); x-quantities only with x-resolution/x-anchor, "
        "y with y in from_bbox; edge chosen by the sign of the same-axis resolution, anchor offset removed before and restored after snapping, scaled "
        "by |res|; anchor literals total with EDGE->0, CENTER->0.5, tight->floating; tol/anchor/tight/shape/resolution reach from_bbox from "
        "from_geopolygon, zoom_to, compute_output_geobox, to_crs. " + _D + "cover/minimality/anchor offset for arbitrary floats.",
        technique="rounding roles + axis-tag inference + option-forwarding lint (ast)"),
    "C09": dict(
        text="Writer/reader attribute and encoding key tables of the xarray registration agree (every key a reader looks for is written, every core key "
        "written is read), SPATIAL_ATTRIBUTES covers reader keys, GeoTransform numbers reach Affine.from_gdal in parsed order, col->x/row->y; "
        "DataArray and Dataset reprojection both register the destination at their own level (coords from xr_coords(dst), attrs pruned, stale CRS "
        "coordinate dropped); geobox options packed/extracted/accepted under the same names, kw split between geobox and warp options. "
        + _D + "equality of the recovered GeoBox for rotated/GCP/1-pixel cases, survival under operation histories (xarray semantics).",
        technique="writer/reader table agreement + sibling-obligation check (ast)"),
    "C10": dict(
        text="Thin: paste is reported only behind all four eligibility guards (scale+translation only, near-integer scale with stol, unit scale on both "
        "axes after shrink, whole-pixel translation of tx and ty with ttol), only on the same-CRS branch, only when neither padding nor alignment "
        "was requested, with ttol/stol wired straight; one read_shrink feeds zoom_out, Affine.scale and scaled_up_roi; snap_affine passes rotated "
        "input through and writes components back into their slots with the right tolerances; pixels warped into a converted (int8/bool) array are "
        "copied back. " + _D + "pixel identity with GDAL's nearest-neighbour warp.",
        technique="guard-completeness (path-condition dominance) + reaching definitions (ast)"),
    "C11": dict(
        text="Thin: `return gbox` only under all five conditions (same CRS, resolution auto/same, no shape, default anchor, plain GeoBox); the output box "
        "derives from the buffered footprint in the requested CRS; tol/anchor/tight/shape/resolution forwarded unchanged to from_bbox; no x/y swap "
        "in the fit resolution. " + _D + "enclosure under curvature, buffer sufficiency, resolution fit, utm zone arithmetic (numeric).",
        technique="guard-completeness + option-forwarding lint (ast)"),
    "C12": dict(
        text="A possibly-empty footprint intersection is tested before its bounds are used; pixel range of a bbox rounded outwards and clamped by role, "
        "inclusive tile ranges; (y,x) order kept through locate/range/product; geometry queries keep an index iff the query is not disjoint from "
        "the extent of the tile at that index; linear path maps each tile's own box through A (~src*dst), rounds outwards, stores under the same "
        "index; general path queries with each tile's own extent. " + _D + "completeness under reprojection of tile edges, sliver threshold.",
        technique="maybe-empty value flow + guard dominance + rounding roles (ast)"),
    "C13": dict(
        text="One fill resolver for uncovered chunks, covered chunks and the in-memory path (covered chunks go through rio_reproject whose float NaN "
        "default precedes every warp); precedence dst_nodata > src_nodata > NaN(float) > 0; a missing dependency entry is a constant fill block; "
        "dependencies computed dst.grid_intersect(src); dst_nodata defaults to src_nodata before the path split; the code path exists in the "
        "installed numpy/dask/rasterio; disjoint rasters cannot raise from an empty footprint; nodata/resampling forwarded. "
        + _D + "pixel equality under all chunkings and orders (runtime).",
        technique="sibling-producer agreement on a resolver + link check + value flow (ast)"),
    "C14": dict(
        text="(x,y) index vs (y,x) shape/resolution orders kept throughout GridSpec; tile origin chosen by the sign of the same-axis resolution, bins "
        "indexed by their own axis index; bin lookup rounds down; Bin1D equality complete over its slots; polygon queries reconcile the CRS first. "
        + _D + "gap/overlap freedom, slippy-map constants, 1e-8 tolerance (numeric).",
        technique="axis-tag inference + sign-role check (ast)"),
    "C15": dict(
        text="Thin: an existing destination is removed only under overwrite, raises an OS error otherwise, and file sinks of _write_cog/"
        "write_cog_layers are reached only through check_write_path(fname, overwrite); GDAL block sizes come from adjust_blocksize(blocksize, nx|ny) "
        "(multiples of 16); every option of to_cog/write_cog reaches _write_cog/write_cog_layers. " + _D + "pixels/dtype/transform/nodata after GDAL.",
        technique="guard dominance + reaching definitions to sinks + option-forwarding lint (ast)"),
    "C16": dict(
        text="Incompatible grids always rejected before grid arithmetic (CRS guard; four isclose guards matched by Affine slot; near-integer guard "
        "dominates each round(); ValueError; translation direction ~b*a); union uses min for left/bottom and max for right/top, intersection the "
        "reverse, each accumulator paired with its own component, results in (l,b,r,t) order; empty intersection normalised on both axes; "
        "overlap_roi clamps x with nx and y with ny; BoundingBox.round rounds outwards; result CRS from the reference. "
        + _D + "'smallest', 'exactly the shared pixels', associativity on floats, half-pixel bound of snap_to.",
        technique="guard-completeness + lattice-role lint + CRS-guard dataflow (ast)"),
    "C17": dict(
        text="No wrapping cast in the point envelope; finite filter over both coordinates and the empty case first; roles in scaled_down_roi (start down, "
        "stop up), roi_pad (max(0,.)/min(n,.)), roi_from_points (align_down/align_up, clip x with nx, y with ny); the two slice-intersection "
        "implementations agree on max(starts)/min(stops) and on the disjoint tests. "
        + _D + "agreement with numpy on every slice pair (exhaustive enumeration, another family).",
        technique="bounded-cast lint + rounding/clamp roles + sibling agreement (ast)"),
    "C18": dict(
        text="Upload initiation only inside a lock region; inside each region the started-state is re-evaluated and the initiation is control-dependent "
        "on not-started; the new id is published to the shared variable before release; every write_part/finalise receiver comes from "
        "_ensure_init() on every path; the local lock provider returns the registered lock under one key; limit accessors read their own key and "
        "default max > min. " + _D + "interleavings of the distributed lock/variable (trusted), file contents of the sink.",
        technique="lock-region / double-checked-locking lint over path conditions + reaching definitions (ast)"),
    "C19": dict(
        text="Per value class: hash fields are implied equal on every True path of __eq__ (modulo functional dependencies derived from __init__ through "
        "lossless fields); every field __eq__ needs feeds __dask_tokenize__; tokens use no id()/uuid/random/time; no field compared by identity; "
        "pickle keys written = consumed and cover __eq__ fields; slot classes compare every non-cache slot; cache key functions read every "
        "parameter and return canonical primitives; objects whose id() is a cache key are pinned by a plain never-cleared dict; source/target "
        "pass-through of the transformer. Two known findings (CRS hash vs disjunctive eq; raw pyproj object as CRS cache key). "
        + _D + "reflexive/symmetric/transitive on concrete values, existence of pyproj-equal spellings.",
        technique="field-set agreement between eq/hash/token/pickle + cache-key lint (ast)"),
    "C20": dict(
        text="Thin: snap helpers' rounding roles and at-least-one-pixel; endpoint by sign of the resolution, anchor offset in/out; snap_affine rotation "
        "pass-through, slots and tolerances; non-finite input handled first in split_float/maybe_int/is_almost_int; align_up/align_down/pow2 "
        "directions; Bin1D lookup rounds down and its equality is complete; x-quantities with x in affine_from_axis and friends; parameters used. "
        + _D + "every numeric contract (fraction range, tolerance agreement, idempotence, decomposition, fits).",
        technique="rounding roles + guard-first lint + axis-tag inference (ast)"),
}
# clauses added after the first version of the claims (seeding rounds 1 and 2, defects F17-F22)
ALSO = {
    "C01": "a memoised function over CRS-tagged operands keys on the operand or its CRS; a truncated/weakened guard (`crs is not None and ...`) does not count. CRS.__eq__ reads only construction-time state (EQLAZY, F26). Round 4: every point of a GCP point list is CRS-checked and an explicit crs= is compared with the CRS found on the operands (F57); EPSG text is rebuilt from the parsed code (F58); the shapely wrapper takes keyword operands (F59).",
    "C02": "integer index -> slice only after negative values were adjusted; GCP control-point frame <-> view frame conversions apply the view affine the right way; "
           "every GCPGeoBox member whose GeoBox sibling is computed from the affine reads the view affine too. Every use of self._affine as a pixel->world mapping in the shared base class is overridden in GCPGeoBox or guarded by self.linear (F23); a COUNT is never the ceiling of a raw float quotient (F24); integer indexes may be numpy integers (F42). Round 4: fits wider than the affine terms solve in two steps or read the rank (F60); `rotate` works world-side; pad sizes are normalised before negation (F61, R-NUMNORM).",
    "C03": "the read-shrink rescaling is composed on the side of the dst->src transform that _can_paste validates; a mid-point is half the sum of the two ends. Boundary samples are double precision (F52); align=0 cannot reach a divisor (F28). Known finding: five boundary samples per side. Round 4: the local scale is fitted against offsets from the point (F62); the overview shape of an empty source is empty (F62); padding/align normalised before negation (F63). ",
    "C04": "window-relative index in the assembler; tiling and geobox of a tile agree; locate siblings agree. An index is told from a slice in a way that covers numpy integers (F42). Round 4: the variable tiling range-checks before indexing its offsets; the regular tiling builds chunks per axis without asking for a tile that may not exist (F64); tiling state assigned in constructors only.",
    "C05": "both axes are padded with the shared level count; the source is rechunked unless its whole chunk shape equals the layout's; the write-order list is not "
           "re-sorted after the level reversal; every source block named from a layout tile index is bounded by the source's chunk grid (F21). Next-level shape/geobox prepared only while a next level exists; rechunk decided on the full chunk structure, not chunksize; RGB(A) shape heuristic only where the GeoBox cannot tell (F46, F47). Round 4: bounded empty-tile iterator for the header, byte order and bool normalised before header and tiles, no encoder for COMPRESSION.NONE (F66); block sizes may be numpy integers (F88).",
    "C06": "every normal exit of append logs what it stored; the lhs reservation reaches every chunk of a bunch. No part id handed to a writer is an integer literal: the header / left-over part uses write.min_part (F37). Round 4: tasks never mutate an input (re-computable graph), part allocation reads max_part, the finalise key depends on the stream (F67). Declared finding: more partitions than part numbers.",
    "C07": "the transformer cache key is complete (from, to, always_xy). The densify loop is reached only with a positive step (F31); the CRS construction cache publishes under a lock (F43). Round 4: the EPSG parse is guarded against compound codes (F58); densify never updates an alias of its step parameter in place (F69, R-NUMNORM); GeoJSON leaves may be numpy scalars (F90).",
    "C08": "origin comes from snap_grid; bbox of the polygon after re-projection. A region projected in order to cover it is densified (F32). Declared finding: shape=<int> snapped gives N+1. Round 4: numeric anchors may be numpy floats (F89). Known finding: region densification independent of the requested pixel size.",
    "C09": "the Dataset variant does not route per-variable results through Dataset.map (attributes as computed by the DataArray sibling, F22); GeoBox/GCPGeoBox cached "
           "by the accessor survive pickling (custom pickle hooks pass every constructor parameter feeding __eq__, no closures in state). No unconditional assert contradicts a Union annotation (F45). Round 4: is_affine_st compares rotation/shear with the scale terms (F70). Declared findings: float-noise inequality through the label round trip; GCPGeoBox view affine folded into the GCPs.",
    "C10": "rotation tolerance not relaxed; same shrink-side agreement as C03; no repeated operand in is_affine_st; explicit dst_nodata=0 is not treated as None. The bool detour maps nodata into the stretched domain (F53). Known findings: paste eligibility not extent-aware; rasterio's identity-transform special case. Round 4: warp buffers in non-native byte order are converted, the integer detour clips before its unsafe cast (F71, F72). Declared findings: int64 through GDAL's double; GDAL's nodata avoidance.",
    "C11": "the footprint is densified by the projection call on every branch; a square resolution is never built from one axis of the source; transformer key complete. Footprint buffer uses resolution magnitudes (F27). Declared finding: UTM zone across the antimeridian. Round 4: the same-CRS shortcut involves `tight` and the source's axis-alignment (F73); numbers select the scalar form by numbers.Real (F74, R-ISNUM). Known finding: footprint sampled with a fixed 100 points per side.",
    "C12": "the emptiness test is on the intersection itself; footprint densified on every branch; no inward half-pixel shift of tile ranges. Tile queries densify a query in another CRS and accept an empty one (F33, F36); resolution magnitudes before max() (F27). Known finding: GEOSException on invalid lon/lat footprints. Round 4: candidate narrowing through world->pixel only for linear geoboxes (F75); scale snapping tolerance depends on raster size (F77); each destination tile's query is padded by a source pixel (F78).",
    "C13": "plane axis of the fill block; a hand-built array graph's layer name is unique or a token of every parameter reaching the tasks; a loop-local memo is keyed by "
           "everything its value depends on; tile ranges round outwards. Tile queries densify (F33); GCPGeoBox sources accepted (F45). Known findings: invalid lon/lat footprints; declared: 0..360 longitude wrap. Round 4: as C12 (F75, F77, F78) and warp buffers (F71). Declared findings: per-chunk tie-breaking of aligned down-sampling; int64 through GDAL.",
    "C14": "a tile is yielded for a polygon query only under the not-disjoint test against that tile's extent; tile size per axis from that axis' resolution. Polygon query densifies, excludes touch-only contact and accepts an empty polygon (F33, F35). Round 4: web_tiles passes the exactly computed tile size to the constructor and normalises its zoom (F79); idx_bounds tolerance is absolute. Declared finding: 1e-8 tolerance below one ulp far from the origin.",
    "C15": "band-last input is permuted exactly (Y,X,B)->(B,Y,X); one side-car memory file per layer; default-overview threshold is 512 pixels; explicit nodata first. Every final copy names its driver (F49); band layout from the caller's ydim (F54); every block window written. Known finding: 64-bit integer nodata through GDAL. Round 4: float nodata handed to GDAL as stored in the pixel type (F80); the position of the x dimension is looked at (F81). Declared finding: CRSs GeoTIFF cannot express are dropped.",
    "C16": "overlap_roi clamps both ends of both ranges (F18); every box contributes to the union fold; an almost-integer translation is rounded, not truncated; "
           "sub-pixel parts only through odc.geo.math helpers. project/enclosing densify (F33). Known finding: numpy.isclose default tolerance on scale terms. Round 4: union skips operands without pixels (F83); the near-integer tolerance has a floating-point-spacing term (F82). Declared finding: operand-order dependent last bits of the result affine.",
    "C17": "roi_pad normalises through the negative-index path; rounding of scaled_down_shape is upward. Negative slice bounds clamp at 0 (F29); an optional alignment parameter cannot be 0 where it divides (F28). Round 4: _norm_slice clamps past the end and converts bounds with operator.index before arithmetic; roi_is_full accepts any Sequence shape (F63). Declared finding: roi_is_full on an over-long stop (pinned by a stable test).",
    "C18": "the shared distributed Variable is written on the worker path only inside the lock region; the file sink appends only after the first part replaced the "
           "destination; a configured limit of 0 is reported, not replaced by the default. File sink moves the first part with a copy fallback and never mmaps an empty part (F39). Round 4: under a shared parts_base the parts directory derives from the full destination path (F84); S3 writer tokens cover the endpoint (F85).",
    "C19": "no class pickled by the default protocol stores a closure (F19); GeoJSON readers on the unpickle path handle GeometryCollection (F20); __reduce__ passes every "
           "constructor parameter feeding __eq__; a case fold in a cache key is matched by the same fold of the cached value. Equality/hash/token read construction-time state only (EQLAZY, F26); the pinning cache publishes under a lock (IDPIN-ATOMIC, F43). Round 4: no ndarray field returned raw from __dask_tokenize__ (TOKENRAW, F64/F65); EPSG text canonical (F58); integer codes may be numpy integers (F87).",
    "C20": "abs() is never taken after a directional rounding of a signed value; a fallback_* parameter never conditions the measurement it stands in for. pow2 idioms; ceil of float quotients snapped; isclose with explicit relative tolerance. Round 4: polynomial fits rank-safe (F60).",
}
_GENERIC = (
    " Over the anchored modules also: no repeated operand of and/or / self-comparison / repeated elif test (R-DUP), no truth test of an optional-number "
    "parameter (R-TRUTHY), no absolute-epsilon affine predicate on a pixel->world affine (R-ABSEPS), no under-keyed loop-local memo (R-MEMO), no fmod/modf/trunc "
    "outside odc.geo.math (R-REMAINDER), no caller tolerance through math.isclose's default rel_tol (R-TOL), no single-precision coordinates on the planning path "
    "(R-PRECISION), no signed resolution inside max()/min() (R-SIGNMAG), no optional divisor that may be 0 (R-ZERODIV), no vertex-only projection of a covering region "
    "(R-DENSIFY), no while loop stepping by an unchecked parameter (R-TERMINATION), no int-only index test (R-INTIDX), no assert against the own annotation (R-ANNOT), no negation / in-place update of an integer or step parameter in the caller's numeric type (R-NUMNORM), "
    "no isinstance(param, int/float) dispatch (R-ISNUM), no membership test against a literal holding None and a bool (R-INFALSE: 0 == False), "
    "no lock.acquire(timeout=..) whose result is not tested before the protected work (R-ACQUIRE), no box mapped through two opposite corners only off an axis-aligned path (R-TWOCORNER); "
    "zero-count rules are re-armed on every run by in-memory positive controls. "
    "A clause reports a violation only on positive evidence (a construct that is present and wrong); a clause whose subject construct is absent or spelled in a form it does not read "
    "is UNDECIDED on that tree (printed, listed in coverage.undecided, exit 0 unless a rule family falls below its instance floor): verified silent on 140 independently written "
    "behaviour-preserving refactors (refactors/, DESIGN section 9)."
)
ROUND6_ALSO = {
    "C01": " Round 6: keyword operands the shapely wrapper unwraps take part in the CRS comparison; whole-stream guard idioms (any/all/next over a generator) and map(partial(guard)) delegation are read; a fold that stops before later operands are checked is reported.",
    "C02": " Round 6: a lazily computed field (_extent) is never written on an object other than self.",
    "C03": " Round 6: ROI-order return summaries (roi_center / roi_shape are (row, col)); the read shrink _can_paste validates comes from _pick_read_scale.",
    "C07": " Round 6: no vertex-dropping call (simplify, remove_repeated_points, set_precision) on the to_crs path.",
    "C08": " Round 6: zoom_to hands the requested resolution to from_bbox unchanged (not re-signed); every anchored return of snap_grid takes its origin from the snapping helper.",
    "C09": " Round 6: affine_from_axis does not snap / round what it recovered from the labels.",
    "C10": " Round 6: the read shrink _can_paste validates comes from _pick_read_scale, as the one compute_reproject_roi reports.",
    "C11": " Round 6: max()/min() over signed resolution components unpacked into locals (footprint sampling step).",
    "C12": " Round 6: no query box mapped into the pixel plane through two opposite corners only (R-TWOCORNER).",
    "C15": " Round 6: option filters never test membership in (None, False) (nodata=0); default creation options never switch tiling off.",
    "C16": " Round 6: an n-ary intersection that stops folding early still checks every operand's grid and CRS.",
    "C18": " Round 6: a distributed lock taken with a timeout is held before the critical section runs (R-ACQUIRE).",
    "C20": " Round 6: every anchored return of snap_grid takes its origin from the snapping helper.",
}
for _k, _c in CLAIMS.items():
    _c["note"] = _NOTE
    _u = _c["text"].index(_D)
    _c["text"] = _c["text"][:_u] + "Also: " + ALSO[_k] + ROUND6_ALSO.get(_k, "") + _GENERIC + " " + _c["text"][_u:]

NOT_APPLICABLE = {}
