"""Sensitivity sweep (thorough tier): for every instance a check accepted, break the construct it
sits on with generic AST mutation operators (in memory; /repo is never written) and re-run the
property's rules on the mutated program.  An instance is *sensitive* when some mutant of its own
construct is reported as a violation by the same rule.  This is the "delete each release once"
test of Engler et al. applied to the checker itself; only the analyser runs, never odc-geo.
"""
from __future__ import annotations

import ast
import copy
import os
import random
import re
from concurrent.futures import ProcessPoolExecutor
from typing import Callable, Dict, List, Optional, Tuple

from .loader import Program
from .report import BAD, OK, Instance, Run

SWAP_CALL = {"floor": "ceil", "ceil": "floor", "align_up": "align_down", "align_down": "align_up", "min": "max", "max": "min",
             "bbox_union": "bbox_intersection", "bbox_intersection": "bbox_union", "setdefault": "get"}
SWAP_ATTR = {"xy": "yx", "yx": "xy", "x": "y", "y": "x", "width": "height", "height": "width", "span_x": "span_y", "span_y": "span_x",
             "range_x": "range_y", "range_y": "range_x", "left": "bottom", "bottom": "left", "right": "top", "top": "right",
             "start": "stop", "stop": "start", "wh": "shape", "lhs": "rhs"}
CMP_FLIP = {ast.NotEq: ast.Eq, ast.Eq: ast.NotEq, ast.Lt: ast.GtE, ast.GtE: ast.Lt, ast.Gt: ast.LtE, ast.LtE: ast.Gt, ast.Is: ast.IsNot, ast.IsNot: ast.Is,
            ast.In: ast.NotIn, ast.NotIn: ast.In}


def _twin(name: str) -> Optional[str]:
    from .rules.axis import WORD_X, WORD_Y, _swap_letter

    if name in WORD_X:
        return WORD_X[name]
    if name in WORD_Y:
        return WORD_Y[name]
    if name in ("lhs", "rhs"):
        return "rhs" if name == "lhs" else "lhs"
    if name in ("src", "dst"):
        return "dst" if name == "src" else "src"
    return _swap_letter(name)


def mutants_of(stmt: ast.stmt, whole_function: bool) -> List[Tuple[str, Callable[[ast.AST], bool]]]:
    """(description, mutator) pairs; a mutator edits the located copy in place and says whether it applied."""
    out: List[Tuple[str, Callable[[ast.AST], bool]]] = []
    nodes = list(ast.walk(stmt))
    if isinstance(stmt, (ast.If, ast.While)) and not whole_function:
        nodes = [stmt] + list(ast.walk(stmt.test))
    if isinstance(stmt, (ast.For,)) and not whole_function:
        nodes = [stmt] + list(ast.walk(stmt.iter))

    def key(n: ast.AST):
        return (type(n).__name__, getattr(n, "lineno", -1), getattr(n, "col_offset", -1), getattr(n, "end_lineno", -1), getattr(n, "end_col_offset", -1))

    for n in nodes:
        k = key(n)
        if isinstance(n, ast.Call):
            f = n.func
            nm = f.attr if isinstance(f, ast.Attribute) else (f.id if isinstance(f, ast.Name) else "")
            if nm in SWAP_CALL:
                def m(x, new=SWAP_CALL[nm]):
                    if isinstance(x.func, ast.Attribute):
                        x.func.attr = new
                    else:
                        x.func.id = new
                    return True
                out.append((f"{nm}->{SWAP_CALL[nm]}", lambda t, k=k, m=m: _apply(t, k, m)))
            if len(n.args) >= 2 and not any(isinstance(a, ast.Starred) for a in n.args[:2]):
                def m2(x):
                    x.args[0], x.args[1] = x.args[1], x.args[0]
                    return True
                out.append((f"swap first two arguments of {nm}()", lambda t, k=k, m=m2: _apply(t, k, m)))
            if len(n.args) >= 2 and not any(isinstance(a, ast.Starred) for a in n.args):
                def m2b(x):
                    x.args.pop()
                    return True
                out.append((f"drop last positional argument of {nm}()", lambda t, k=k, m=m2b: _apply(t, k, m)))
            for i, kw in enumerate(n.keywords):
                if kw.arg:
                    def m3(x, i=i):
                        del x.keywords[i]
                        return True
                    out.append((f"drop keyword {kw.arg}= of {nm}()", lambda t, k=k, m=m3: _apply(t, k, m)))
        if isinstance(n, ast.Call):
            # the CRS a result is tagged with: keyword crs= or an argument that reads .crs
            for i, kw in enumerate(n.keywords):
                if kw.arg == "crs" and not (isinstance(kw.value, ast.Constant) and kw.value.value is None):
                    def m3c(x, i=i):
                        x.keywords[i].value = ast.Constant(value=None)
                        return True
                    out.append(("crs= := None", lambda t, k=k, m=m3c: _apply(t, k, m)))
            for i, a in enumerate(n.args):
                if isinstance(a, ast.Attribute) and a.attr in ("crs", "_crs"):
                    def m3d(x, i=i):
                        x.args[i] = ast.copy_location(ast.Constant(value=None), x.args[i])
                        return True
                    out.append((f"argument {i} (.crs) := None", lambda t, k=k, m=m3d: _apply(t, k, m)))
        if isinstance(n, ast.BoolOp) and len(n.values) >= 2 and ast.dump(n.values[0]) != ast.dump(n.values[1]):
            def m8d(x):
                import copy as _copy
                x.values[1] = _copy.deepcopy(x.values[0])
                return True
            out.append(("second operand := copy of the first", lambda t, k=k, m=m8d: _apply(t, k, m)))
        if isinstance(n, ast.Attribute) and n.attr in SWAP_ATTR:
            def m4(x, new=SWAP_ATTR[n.attr]):
                x.attr = new
                return True
            out.append((f".{n.attr}->.{SWAP_ATTR[n.attr]}", lambda t, k=k, m=m4: _apply(t, k, m)))
        if isinstance(n, ast.Name):
            tw = _twin(n.id)
            if tw:
                def m5(x, new=tw):
                    x.id = new
                    return True
                out.append((f"{n.id}->{tw}", lambda t, k=k, m=m5: _apply(t, k, m)))
        if isinstance(n, ast.Compare) and len(n.ops) == 1 and type(n.ops[0]) in CMP_FLIP:
            def m6(x):
                x.ops = [CMP_FLIP[type(x.ops[0])]()]
                return True
            out.append((f"flip comparison {type(n.ops[0]).__name__}", lambda t, k=k, m=m6: _apply(t, k, m)))
        if isinstance(n, ast.BinOp) and isinstance(n.op, (ast.Add, ast.Mult)):
            def m7(x):
                x.left, x.right = x.right, x.left
                return True
            if ast.dump(n.left) != ast.dump(n.right):
                out.append(("swap operands", lambda t, k=k, m=m7: _apply(t, k, m)))
        if isinstance(n, ast.BinOp) and isinstance(n.op, (ast.Add, ast.Sub)):
            def m7b(x):
                x.op = ast.Sub() if isinstance(x.op, ast.Add) else ast.Add()
                return True
            out.append(("+ <-> -", lambda t, k=k, m=m7b: _apply(t, k, m)))
        if isinstance(n, ast.UnaryOp) and isinstance(n.op, (ast.Invert, ast.Not, ast.USub)):
            out.append((f"drop unary {type(n.op).__name__}", lambda t, k=k: _replace(t, k, lambda x: x.operand)))
        if isinstance(n, ast.BoolOp) and len(n.values) >= 2:
            for i in range(len(n.values)):
                def m8(x, i=i):
                    del x.values[i]
                    if len(x.values) == 1:
                        x.op = ast.And()
                        x.values.append(ast.Constant(value=True))
                    return True
                out.append((f"drop operand {i} of {type(n.op).__name__.lower()}", lambda t, k=k, m=m8: _apply(t, k, m)))
        if isinstance(n, ast.Constant) and isinstance(n.value, str) and 1 < len(n.value) < 24 and n.value.isidentifier():
            def m9(x):
                x.value = x.value + "_"
                return True
            out.append((f"rename key '{n.value}'", lambda t, k=k, m=m9: _apply(t, k, m)))
        if isinstance(n, ast.Constant) and isinstance(n.value, (int,)) and not isinstance(n.value, bool) and n.value in (0, 1):
            def m10(x):
                x.value = 1 - x.value
                return True
            out.append((f"constant {n.value}->{1 - n.value}", lambda t, k=k, m=m10: _apply(t, k, m)))
        if isinstance(n, ast.Subscript) and isinstance(n.slice, ast.Slice) and n.slice.step is not None:
            def m11(x):
                x.slice.step = None
                return True
            out.append(("drop slice step", lambda t, k=k, m=m11: _apply(t, k, m)))
    # statement-level: delete (replace by pass) / unguard
    sk = key(stmt)
    if not isinstance(stmt, (ast.FunctionDef, ast.AsyncFunctionDef, ast.ClassDef, ast.Return)):
        out.append(("delete statement", lambda t, k=sk: _replace(t, k, lambda x: ast.copy_location(ast.Pass(), x))))
    if isinstance(stmt, ast.If) and not stmt.orelse:
        # keep the body, drop the condition  /  drop the whole guard was covered by delete
        out.append(("make guard unconditional (test := False)", lambda t, k=sk: _apply(t, k, lambda x: setattr(x, "test", ast.Constant(value=False)) or True)))
    if whole_function:
        # also try deleting each top-level statement of the function
        for st in getattr(stmt, "body", [])[:40]:
            if isinstance(st, (ast.Expr,)) and isinstance(getattr(st, "value", None), ast.Constant):
                continue
            k2 = key(st)
            if not isinstance(st, (ast.FunctionDef, ast.Return)):
                out.append((f"delete statement at line {st.lineno}", lambda t, k=k2: _replace(t, k, lambda x: ast.copy_location(ast.Pass(), x))))
    return out


def _find(tree: ast.AST, k) -> Optional[Tuple[ast.AST, ast.AST, str, Optional[int]]]:
    for parent in ast.walk(tree):
        for fld, val in ast.iter_fields(parent):
            if isinstance(val, list):
                for i, ch in enumerate(val):
                    if isinstance(ch, ast.AST) and (type(ch).__name__, getattr(ch, "lineno", -1), getattr(ch, "col_offset", -1), getattr(ch, "end_lineno", -1), getattr(ch, "end_col_offset", -1)) == k:
                        return ch, parent, fld, i
            elif isinstance(val, ast.AST):
                ch = val
                if (type(ch).__name__, getattr(ch, "lineno", -1), getattr(ch, "col_offset", -1), getattr(ch, "end_lineno", -1), getattr(ch, "end_col_offset", -1)) == k:
                    return ch, parent, fld, None
    return None


def _apply(tree: ast.AST, k, fn) -> bool:
    hit = _find(tree, k)
    if hit is None:
        return False
    return bool(fn(hit[0]))


def _replace(tree: ast.AST, k, fn) -> bool:
    hit = _find(tree, k)
    if hit is None:
        return False
    node, parent, fld, i = hit
    new = fn(node)
    if i is None:
        setattr(parent, fld, new)
    else:
        getattr(parent, fld)[i] = new
    return True


def _module_of(where: str) -> Optional[str]:
    m = re.match(r"odc/geo/(.+)\.py:(\d+)$", where)
    if not m:
        return None
    name = m.group(1).replace("/", ".")
    if name.endswith("__init__"):
        name = name
    return name


def _stmt_at(tree: ast.Module, line: int) -> Tuple[Optional[ast.stmt], bool]:
    best = None
    for n in ast.walk(tree):
        if isinstance(n, ast.stmt) and n.lineno <= line <= (n.end_lineno or n.lineno):
            if best is None or (n.end_lineno - n.lineno) <= (best.end_lineno - best.lineno):
                # prefer the innermost statement that *starts* at the line
                if n.lineno == line or best is None or best.lineno != line:
                    best = n
    if best is None:
        return None, False
    whole = isinstance(best, (ast.FunctionDef, ast.AsyncFunctionDef, ast.ClassDef))
    return best, whole


_PROG_SRC: Dict[str, str] = {}


def _sweep_one(args) -> Dict[str, object]:
    pid, key, rule, construct, where, seed, max_mut = args
    from . import props

    root = os.environ.get("ODCVERIF_REPO", "/repo")
    modname = _module_of(where)
    res = {"key": key, "where": where, "built": 0, "detected": False, "by": None, "tried": []}
    if modname is None:
        res["skip"] = "no location"
        return res
    path = f"{root}/odc/geo/{modname.replace('.', '/')}.py"
    try:
        source = open(path).read()
    except OSError:
        res["skip"] = "file not found"
        return res
    line = int(where.rsplit(":", 1)[1])
    base_tree = ast.parse(source)
    stmt, whole = _stmt_at(base_tree, line)
    if stmt is None:
        res["skip"] = "no statement"
        return res
    muts = mutants_of(stmt, whole)
    rnd = random.Random(hash((seed, key)) & 0xFFFFFFFF)
    if len(muts) > max_mut:
        muts = rnd.sample(muts, max_mut)
    fq = construct.split("#")[0]
    for desc, fn in muts:
        tree = ast.parse(source)
        try:
            if not fn(tree):
                continue
            ast.fix_missing_locations(tree)
            compile(tree, path, "exec")  # the variant must still compile
        except Exception:
            continue
        res["built"] += 1
        res["tried"].append(desc)
        try:
            prog = Program(root, {modname: tree})
            run = Run(pid, "thorough", seed)
            getattr(props, pid)(prog, run, "quick")
            hit = [i for i in run.instances if i.status == BAD and i.rule == rule and (i.construct == construct or i.construct.split("#")[0] == fq)]
            anyhit = [i for i in run.instances if i.status == BAD and i.construct.split("#")[0] == fq]
        except Exception as e:  # analysis broke on the variant: counts as noticed, but not as detected
            res.setdefault("analysis_errors", []).append(f"{desc}: {type(e).__name__}")
            continue
        if hit or anyhit:
            res["detected"] = True
            res["by"] = desc
            res["same_rule"] = bool(hit)
            break
    return res


def sensitivity_sweep(pid: str, instances: List[Instance], seed: int, max_instances: int = 400, max_mut: int = 10, workers: int = 16) -> Dict[str, object]:
    cands = [i for i in instances if i.status == OK and i.nontrivial and i.where]
    # one sweep per construct
    seen = set()
    uniq = []
    for i in cands:
        if i.key not in seen:
            seen.add(i.key)
            uniq.append(i)
    rnd = random.Random(seed)
    if len(uniq) > max_instances:
        uniq = rnd.sample(uniq, max_instances)
    jobs = [(pid, i.key, i.rule, i.construct, i.where, seed, max_mut) for i in uniq]
    results = []
    with ProcessPoolExecutor(max_workers=workers) as ex:
        for r in ex.map(_sweep_one, jobs, chunksize=4):
            results.append(r)
    built = sum(r["built"] for r in results)
    det = [r for r in results if r["detected"]]
    insens = [r for r in results if not r["detected"] and r["built"] > 0]
    noop = [r for r in results if r["built"] == 0]
    return {
        "instances_swept": len(results),
        "variants_built": built,
        "instances_with_detected_variant": len(det),
        "instances_without_detected_variant": len(insens),
        "instances_without_applicable_operator": len(noop),
        "sample_detected": [{"instance": r["key"], "broken_by": r["by"]} for r in det[:12]],
        "sample_undetected": [{"instance": r["key"], "tried": r["tried"][:5]} for r in insens[:25]],
    }
